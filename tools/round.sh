#!/bin/sh
# tools/round.sh <suffix> <PROP>...  -- development aid: harvest the seeded
# change of each named property's scratch worktree as seeded/<PROP>-<suffix>
# and run that property's quick check against it.
SFX="$1"; shift
for p in "$@"; do
  /verif/tools/harvest_seed.sh $p $p-$SFX | tail -1
  /verif/tools/seedrun.sh seeded/$p-$SFX | cut -c1-260
done
