#!/bin/sh
# tools/mut.sh <check-id> <file-relative-to-repo> <python-expr old> <new>  -- apply a textual mutation
# on a scratch copy of /repo and run the quick check against it.  Development aid only.
ID="$1"; FILE="$2"; OLD="$3"; NEW="$4"; TIER="${5:-quick}"
D=$(mktemp -d /tmp/pox-mut-XXXXXX)
rsync -a --exclude .git /repo/ "$D"/
python3 - "$D/$FILE" "$OLD" "$NEW" <<'PY'
import sys
p, old, new = sys.argv[1:4]
s = open(p).read()
if s.count(old) < 1:
  print("MUTATION TEXT NOT FOUND"); sys.exit(3)
s = s.replace(old, new, 1)
open(p, "w").write(s)
PY
[ $? -eq 0 ] || { rm -rf "$D"; exit 3; }
if [ -n "$MUT_BASELINE" ]; then VERIF_REPO="$D" sh /verif/tools/baseline.sh | head -3; fi
VERIF_REPO="$D" /verif/check "$ID" --tier "$TIER" --no-evidence | grep -v "^  what" | head -${MUT_LINES:-8}
rm -rf "$D" /verif/replays/"$ID"
