#!/bin/sh
# tools/harvest_seed.sh <PROP> <name> [worktree]  -- development aid: store a sub-agent's seeded
# change (uncommitted diff in its scratch worktree) under /verif/seeded/<name>/
# and confirm it there: demo exits 1 on the changed copy and 0 on /repo's tree,
# repository tests still 46/46.
P="$1"; N="$2"; W="${3:-/tmp/seed/$P}"
O=/verif/seeded/$N
mkdir -p "$O"
git -C "$W" diff -- pox > "$O/patch.diff"
[ -s "$O/patch.diff" ] || { echo "empty diff"; exit 3; }
cp "$W/DEMO.py" "$O/demo.py" 2>/dev/null
cp "$W/SEED_NOTES.md" "$O/notes.md" 2>/dev/null
D=$(mktemp -d /tmp/pox-seed-XXXXXX)
rsync -a --exclude .git /repo/ "$D"/
cp "$O/demo.py" "$D/DEMO.py"
( cd "$D" && timeout 300 /venv/bin/python DEMO.py >/dev/null 2>&1 ); RC0=$?
( cd "$D" && patch -p1 -s < "$O/patch.diff" ) || { echo "patch does not apply to /repo tree"; rm -rf "$D"; exit 3; }
( cd "$D" && timeout 300 /venv/bin/python DEMO.py > "$O/demo.out" 2>&1 ); RC1=$?
BL=$(VERIF_REPO="$D" sh /verif/tools/baseline.sh | head -1)
rm -f "$D/DEMO.py"
FILES=$(grep '^+++ b/' "$O/patch.diff" | sed 's/^+++ b\///' | tr '\n' ' ')
python3 - "$O" "$P" "$N" "$RC0" "$RC1" "$BL" "$FILES" <<'PY'
import json, sys
o, p, n, rc0, rc1, bl, files = sys.argv[1:8]
json.dump(dict(property=p, name=n, origin="fresh sub-agent given only the property text and a scratch worktree",
               files=files.split(), demo_exit_unchanged=int(rc0), demo_exit_changed=int(rc1),
               baseline=bl), open(o + "/meta.json", "w"), indent=1)
print(n, "demo unchanged rc=%s changed rc=%s; %s" % (rc0, rc1, bl))
PY
rm -rf "$D"
