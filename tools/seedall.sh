#!/bin/sh
# tools/seedall.sh [tier]  -- run every seeded change under /verif/seeded against the check
# of its property (on scratch copies of /repo); one line per seed; exit 1 if any survives.
T="${1:-quick}"; RC=0
for S in /verif/seeded/*/; do
  S=${S%/}
  L=$(cd /verif && tools/seedrun.sh "seeded/$(basename "$S")" "$T")
  echo "$L"
  echo "$L" | grep -q " rc=1 " || RC=1
done
exit $RC
