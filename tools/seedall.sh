#!/bin/sh
# tools/seedall.sh [tier]  -- run every seeded change under /verif/seeded against the check
# of its property (on scratch copies of /repo); one line per seed; exit 1 if any survives.
T="${1:-quick}"; RC=0
for S in /verif/seeded/*/; do
  S=${S%/}
  if grep -q '"equivalent_on_repaired_tree": true' "$S/meta.json" 2>/dev/null; then
    echo "$(basename "$S") skipped: can no longer manifest on the repaired tree (see its meta.json)"
    continue
  fi
  L=$(cd /verif && tools/seedrun.sh "seeded/$(basename "$S")" "$T")
  echo "$L"
  echo "$L" | grep -q " rc=1 " || RC=1
done
exit $RC
