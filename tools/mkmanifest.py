#!/usr/bin/env python3
"""Regenerates /verif/MANIFEST.json from the check modules that exist."""
import importlib
import json
import os
import subprocess
import sys

HERE = os.path.dirname(os.path.dirname(os.path.abspath(__file__)))
sys.path.insert(0, HERE)

GUARD = "NOXREPO_POX_VERIF"

PROPS = [json.loads(l) for l in open(os.path.join(HERE, "properties.jsonl"))]


def fix_commits ():
  try:
    out = subprocess.check_output(["git", "-C", "/repo", "log",
                                   "--format=%h %s"], text=True)
  except Exception:
    return []
  return [l for l in out.splitlines() if l.split(" ", 1)[1].startswith("fix:")]


def hook_commits ():
  try:
    out = subprocess.check_output(["git", "-C", "/repo", "log",
                                   "--format=%h %s"], text=True)
  except Exception:
    return []
  return [l.split()[0] for l in out.splitlines()
          if l.split(" ", 1)[1].startswith("verif-hook:")]


def main ():
  checks = []
  na = []
  for p in PROPS:
    pid = p["id"]
    try:
      mod = importlib.import_module("pvm.checks." + pid.lower())
    except ModuleNotFoundError:
      na.append(dict(property_id=pid,
                     reason="check not built yet in this round (designed in "
                            "DESIGN.md section 3); no verdict is claimed"))
      continue
    if getattr(mod, "NOT_CLAIMED", None):
      na.append(dict(property_id=pid, reason=mod.NOT_CLAIMED))
      continue
    checks.append(dict(
      property_id=pid,
      quick_cmd="./check %s --tier quick" % pid,
      thorough_cmd="./check %s --tier thorough" % pid,
      evidence_file="evidence/%s.json" % pid,
      replay_cmd_template="./check %s --replay {path}" % pid,
      engine=getattr(mod, "ENGINE", "E1"),
      level_claimed=dict(category=getattr(mod, "LEVEL", "exploration"),
                         text=getattr(mod, "LEVEL_TEXT", mod.__doc__.strip()),
                         design_ref="DESIGN.md section 3, " + pid),
      level_note=getattr(mod, "LEVEL_NOTE",
                         "; ".join(getattr(mod, "ASSUMPTIONS", []))
                         or "the monitors and reference models in /verif/pvm"),
      technique=getattr(mod, "TECHNIQUE",
                        "runtime monitoring: generated workload on the real "
                        "code, oracle = independent reference model / trace "
                        "checker"),
    ))
  man = dict(
    version=1,
    setup_cmd="sh ./setup.sh",
    hooks=dict(guard=GUARD,
               enable="none needed: all instrumentation is applied from "
                      "outside the repository (monkey-patched module globals, "
                      "sys.monitoring); checks import /repo's working tree "
                      "directly in fresh interpreters",
               baseline_off_cmd="sh ./tools/baseline.sh",
               source_commits=hook_commits(),
               add_only=True),
    engines=[
      dict(name="E1 runner", path="pvm/runner.py",
           serves_properties=[c["property_id"] for c in checks],
           kind_free_text="sharded fresh-interpreter runner, evidence, replay, "
                          "known-finding classification"),
      dict(name="E2 simnet", path="pvm/simnet.py",
           serves_properties=["C02", "C04", "C06", "C07", "C09", "C10", "C11",
                              "C12", "C13", "C17", "C18", "C19", "C20"],
           kind_free_text="virtual clock + scripted in-memory sockets under "
                          "the real recoco scheduler, of_01 and SoftwareSwitch"),
      dict(name="E3 interleaving controller", path="pvm/ilv.py",
           serves_properties=["C06", "C07", "C20"],
           kind_free_text="sys.monitoring LINE-event token-passing scheduler "
                          "for real threads (DFS / PCT / random)"),
      dict(name="E4 reference models", path="pvm/ref/",
           serves_properties=["C01", "C03", "C04", "C12", "C13", "C14", "C18"],
           kind_free_text="independent OpenFlow 1.0 codec/match/table/actions "
                          "and RFC 1071 models written from the specs"),
      dict(name="E5 step budget", path="pvm/budget.py",
           serves_properties=["C10", "C15"],
           kind_free_text="sys.monitoring line budget turning non-termination "
                          "into a replayable violation"),
    ],
    checks=checks,
    not_applicable=na,
    notes="Runtime monitoring only. Exit 0 held / 1 VIOLATION / 2 "
          "INCONCLUSIVE. Repository fixes: " + "; ".join(fix_commits()),
  )
  with open(os.path.join(HERE, "MANIFEST.json"), "w") as f:
    json.dump(man, f, indent=1)
  print("claimed:", [c["property_id"] for c in checks])
  print("not_applicable:", [n["property_id"] for n in na])


if __name__ == "__main__":
  main()
