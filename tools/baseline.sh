#!/bin/sh
# Runs the repository's pinned test suite with the verification guard OFF and
# checks that the 46 stable tests of /root/.vp/BASELINE.json still pass.
REPO="${VERIF_REPO:-/repo}"
unset NOXREPO_POX_VERIF
OUT="$(mktemp /tmp/pvm-baseline-XXXXXX.xml)"
cd "$REPO" && /venv/bin/python -m pytest -ra -q -p no:cacheprovider --timeout=900 \
  --continue-on-collection-errors --junitxml="$OUT" >/dev/null 2>&1
/venv/bin/python - "$OUT" <<'PY'
import sys, json, xml.etree.ElementTree as ET
want = None
try:
  want = set(json.load(open('/root/.vp/BASELINE.json'))['stable_pass'])
except Exception:
  pass
passed = set()
for tc in ET.parse(sys.argv[1]).getroot().iter('testcase'):
  if not any(ch.tag in ('failure','error','skipped') for ch in tc):
    passed.add("%s::%s" % (tc.get('classname'), tc.get('name')))
if want is None:
  print("baseline: %d passed (no BASELINE.json to compare)" % len(passed))
  sys.exit(0 if len(passed) >= 46 else 1)
missing = sorted(want - passed)
print("baseline: %d/%d stable tests pass" % (len(want) - len(missing), len(want)))
for m in missing: print("  MISSING", m)
sys.exit(1 if missing else 0)
PY
rc=$?
rm -f "$OUT"
exit $rc
