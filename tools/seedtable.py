#!/usr/bin/env python3
"""tools/seedtable.py <seedall-log>  -- markdown table of the seeded changes and which check
caught them (development aid for DESIGN.md)."""
import json, os, sys, re
H = os.path.dirname(os.path.dirname(os.path.abspath(__file__)))
res = {}
for ln in open(sys.argv[1]):
  m = re.match(r"(\S+) (C\d\d) rc=(\d) (\d+) violation\(s\)\s*(.*)", ln)
  if m:
    keys = [k.strip() for k in m.group(5).split("key:") if k.strip()]
    res[m.group(1)] = (m.group(2), m.group(3), [k.rstrip(";").strip() for k in keys])
print("| seed | file(s) | what was changed | caught by (first key) |")
print("|------|---------|------------------|-----------------------|")
for n in sorted(os.listdir(H + "/seeded")):
  d = H + "/seeded/" + n
  if not os.path.isdir(d): continue
  meta = json.load(open(d + "/meta.json"))
  what = meta.get("what")
  if not what:
    what = WHAT.get(n, "") if 'WHAT' in globals() else ""
  r = res.get(n)
  if r is None: caught = "not run"
  elif r[1] == "1": caught = "%s: %s" % (r[0], re.sub(r"^C\d\d ", "", r[2][0]) if r[2] else "?")
  else: caught = "**survived** (%s rc=%s)" % (r[0], r[1])
  files = ", ".join(os.path.basename(f) for f in meta.get("files", []))
  print("| %s | %s | %s | %s |" % (n, files, what.replace("|", "/"), caught.replace("|", "/")))
