#!/usr/bin/env python3
"""kf.py fixed <PROP> <commit> <key> <what>   |   kf.py known <PROP> <key> <what>
Maintains known_findings.json (edited by hand/at development time only; checks never write it)."""
import json, sys, os
H = os.path.dirname(os.path.dirname(os.path.abspath(__file__)))
P = H + "/known_findings.json"
d = json.load(open(P))
if sys.argv[1] == "fixed":
  _, _, prop, commit, key, what = sys.argv
  d.append(dict(status="fixed", property=prop, commit=commit, key=key, what=what,
                line="fixed: property=%s %s %s" % (prop, commit, what)))
else:
  _, _, prop, key, what = sys.argv
  d.append(dict(status="known", property=prop, key=key, what=what))
json.dump(d, open(P, "w"), indent=1)
