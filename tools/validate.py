#!/usr/bin/env python3
"""Validate MANIFEST.json and evidence/*.json against the given schemas."""
import json, sys, glob, os
sys.path.insert(0, "/opt/veriftools/pyvenv/lib/python3.11/site-packages")
import jsonschema
H = os.path.dirname(os.path.dirname(os.path.abspath(__file__)))
ms = json.load(open("/root/.vp/MANIFEST.schema.json"))
es = json.load(open("/root/.vp/EVIDENCE.schema.json"))
jsonschema.validate(json.load(open(H + "/MANIFEST.json")), ms)
print("MANIFEST ok")
for p in sorted(glob.glob(H + "/evidence/*.json")):
  jsonschema.validate(json.load(open(p)), es)
  print("ok", os.path.basename(p))
