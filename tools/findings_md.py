#!/usr/bin/env python3
"""tools/findings_md.py -- regenerate the list of repaired defects in DESIGN.md
section 10.1 from known_findings.json and the subjects of the fix commits."""
import json, subprocess, re, os
H = os.path.dirname(os.path.dirname(os.path.abspath(__file__)))
k = json.load(open(H + "/known_findings.json"))
by = {}
for e in k:
  if e.get("status") != "fixed": continue
  by.setdefault(e["property"], []).append(e)
out = []
for p in sorted(by):
  out.append("* **%s**" % p)
  for e in by[p]:
    try:
      subj = subprocess.check_output(["git", "-C", "/repo", "log", "-n1", "--format=%s", e["commit"]],
                                     text=True, stderr=subprocess.DEVNULL).strip()
    except Exception:
      subj = ""
    subj = re.sub(r"^fix:\s*", "", subj)
    out.append("  * `%s` %s — %s" % (e["commit"], subj, e["what"]))
txt = "\n".join(out) + "\n"
d = open(H + "/DESIGN.md").read()
a = d.index("* **C01**\n", d.index("### 10.1"))
b = d.index("### 10.2")
# keep whatever prose sits between the list and 10.2 (the list itself is
# made of lines starting with "* " or two blanks)
seg = d[a:b].split("\n")
i = 0
while i < len(seg) and (seg[i].startswith("* ") or seg[i].startswith("  ")): i += 1
prose = "\n".join(seg[i:]).strip("\n")
d = d[:a] + txt + "\n" + (prose + "\n\n" if prose else "") + d[b:]
open(H + "/DESIGN.md", "w").write(d)
print("fixed entries:", sum(len(v) for v in by.values()))
