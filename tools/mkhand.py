#!/usr/bin/env python3
"""
tools/mkhand.py -- (re)generates /verif/seeded/H-*/ from the hand-written
mutations listed below: textual replacement on /repo's current tree ->
patch.diff + meta.json.  Development aid; nothing in /repo is touched.
"""
import difflib, json, os, sys
H = os.path.dirname(os.path.dirname(os.path.abspath(__file__)))
REPO = os.environ.get("VERIF_REPO", "/repo")
OF01 = "pox/openflow/of_01.py"
IOW = "pox/lib/ioworker/__init__.py"
RC = "pox/lib/recoco/recoco.py"

M = [
 ("H-C20-01", "C20", OF01, "        data = data[l:]\n        deferredSender.send(self, data)", "        deferredSender.send(self, data)",
  "direct path hands the whole message to the deferred sender after a short write (duplicate bytes)"),
 ("H-C20-02", "C20", OF01, "alldata[0] = data[l:]", "alldata[0] = data[l+1:]",
  "deferred flush drops one byte after a short write"),
 ("H-C20-03", "C20", OF01, "                if len(self._dataForConnection) == 0:\n                  self.sending = False",
  "                if True:\n                  self.sending = False",
  "global 'sending' flag cleared when one connection drains (direct write overtakes another connection's backlog)"),
 ("H-C20-04", "C20", OF01, "        self.msg(\"Socket error: \" + e.strerror)\n        self.disconnect(defer_event=True)",
  "        self.msg(\"Socket error: \" + e.strerror)", "fatal error on the direct path does not disconnect"),
 ("H-C20-05", "C20", OF01, "                  con.disconnect(defer_event=True)\n                  del self._dataForConnection[con]",
  "                  con.disconnect(defer_event=True)", "deferred sender keeps a dead connection's queue (spins)"),
 ("H-C20-06", "C20", IOW, "          self._consume_send_buf(l)", "          self._consume_send_buf(len(self.send_buf))",
  "worker assumes the socket accepted everything"),
 ("H-C20-07", "C20", IOW, "          e.errno, e.strerror)\n        self.close()\n        loop._workers.discard(self)\n\n  @property\n  def available",
  "          e.errno, e.strerror)\n        loop._workers.discard(self)\n\n  @property\n  def available",
  "fatal error in _do_send does not close the worker"),
 ("H-C20-08", "C20", OF01, "    if deferredSender.sending:\n      log.debug", "    if False:\n      log.debug",
  "direct write although a backlog exists (reordering)"),
 ("H-C20-09", "C20", OF01, "        self._dataForConnection[con].extend(data)", "        self._dataForConnection[con] = data",
  "second deferred message replaces the first (loss)"),
 ("H-C20-10", "C20", IOW, "    if len(self.send_buf)==0 and not self._connecting and not self.closed:",
  "    if not self._connecting and not self.closed:", "send_fast writes directly although the buffer is not empty"),
 ("H-C20-11", "C20", IOW, "          log.error(\"Socket error: \" + e.strerror)\n          self.close()\n          return",
  "          log.error(\"Socket error: \" + e.strerror)\n          return", "send_fast fatal error does not close"),
 ("H-C20-12", "C20", OF01, "      data = data[PIPE_BUF:]", "      data = data[PIPE_BUF+1:]", "_sliceup loses one byte per slice"),
 ("H-C20-13", "C20", OF01, "  def send (self, con, data):\n    with self._lock:", "  def send (self, con, data):\n    if True:",
  "DeferredSender.send without the lock (needs a preemption)"),
 ("H-C20-14", "C20", OF01, "      if not core.running: break\n\n      with self._lock:\n        if len(rlist) > 0:",
  "      if not core.running: break\n\n      if True:\n        if len(rlist) > 0:", "flush loop without the lock (needs a preemption)"),
 ("H-C06-01", "C06", RC, "    self._incoming.put((task, rlist, wlist, xlist, timeout))", "    pass",
  "registerSelect forgets the task"),
 ("H-C06-02", "C06", RC, "    sleepingTask.rv = returnVal\n    self._scheduler.fast_schedule(sleepingTask)",
  "    sleepingTask.rv = returnVal\n    self._scheduler.fast_schedule(sleepingTask)\n    self._scheduler.fast_schedule(sleepingTask)",
  "a woken task is queued twice"),
 ("H-C06-03", "C06", RC, "          self._ready.append(t)\n", "          self._ready.append(t); self._ready.append(t)\n",
  "'yield 0' re-queues the task twice"),
]

def main ():
  for name, prop, path, old, new, what in M:
    src = open(os.path.join(REPO, path)).read()
    if src.count(old) < 1:
      print("NOT FOUND", name); continue
    dst = src.replace(old, new, 1)
    diff = "".join(difflib.unified_diff(src.splitlines(True), dst.splitlines(True),
                                        "a/" + path, "b/" + path))
    d = os.path.join(H, "seeded", name)
    os.makedirs(d, exist_ok=True)
    open(os.path.join(d, "patch.diff"), "w").write(diff)
    json.dump(dict(property=prop, name=name, origin="hand-written while building the check",
                   files=[path], what=what), open(os.path.join(d, "meta.json"), "w"), indent=1)
    print("ok", name)

main()
