#!/bin/sh
# tools/thorough_some.sh <ID>...  -- thorough tier of the named checks, one summary line each (for vp run)
for c in "$@"; do
  s=$(date +%s)
  OUT=$(./check $c --tier thorough --no-evidence 2>&1); rc=$?
  echo "$c thorough rc=$rc $(( $(date +%s) - s ))s"
  echo "$OUT" | grep "^VIOLATION\|^INCONC\|key:\|^$c " | cut -c1-400 | head -12
  if [ $rc -ne 0 ]; then mkdir -p keep; cp -r replays/$c keep/ 2>/dev/null; fi
done
