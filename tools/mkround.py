#!/usr/bin/env python3
"""tools/mkround.py <round-no>  -- development aid: for each property create a
scratch worktree of /repo under /tmp/seed/<ID> and a prompt file
/tmp/seed/prompts/<ID>.txt for a fresh sub-agent (property text + what the
earlier seeded changes for that property did, so that it picks another
mechanism).  Nothing of the checks goes into the prompt."""
import json, os, subprocess, sys, glob
rnd = sys.argv[1]
only = sys.argv[2:]
props = [json.loads(l) for l in open('/verif/properties.jsonl')]
os.makedirs('/tmp/seed/prompts', exist_ok=True)
for p in props:
  pid = p['id']
  if only and pid not in only: continue
  wt = '/tmp/seed/' + pid
  if os.path.exists(wt):
    subprocess.run(['git', '-C', '/repo', 'worktree', 'remove', '--force', wt])
  subprocess.run(['git', '-C', '/repo', 'worktree', 'prune'])
  subprocess.run(['git', '-C', '/repo', 'worktree', 'add', '--detach', '-q', wt, 'HEAD'], check=True)
  earlier = []
  for m in sorted(glob.glob('/verif/seeded/%s-*/meta.json' % pid)):
    d = json.load(open(m))
    w = d.get('what')
    if w: earlier.append('- ' + w.strip().replace('\n', ' ')[:300])
  txt = """You are helping to evaluate a verification effort for the open-source project noxrepo/pox (a pure-Python OpenFlow 1.0 controller and software switch).  You have your own scratch git worktree of the repository at %(wt)s (use ONLY that directory; do not read or touch /repo, /verif, /root or anything else outside it, and do not look for other notes or memory files).  Python: /venv/bin/python.

Here is one semantic property that the code base is supposed to satisfy:

ID: %(id)s
Title: %(title)s
Statement: %(statement)s
Quantified over: %(quant)s
Code it is anchored in: %(files)s

YOUR TASK: make a small, realistic change to the source under %(wt)s/pox that BREAKS this property, the kind of regression a maintainer could plausibly introduce (a refactor, an optimisation, a "cleanup", a misplaced fix), such that
 1. everything still imports, and the repository's own test suite still passes exactly as before: run `cd %(wt)s && /venv/bin/python -m pytest -q -p no:cacheprovider --timeout=900 --continue-on-collection-errors 2>&1 | tail -3` before and after your change; the count of passed tests (46 passed; some tests fail both before and after, that is expected) must be the same and no test that passed before may fail;
 2. the breakage needs something SPECIFIC to manifest - a particular interleaving, a fault or crash at a particular point, a multi-step sequence of operations, an unusual but legitimate input or configuration, or two cooperating sites that each look fine alone - NOT something ordinary use or a simple smoke run would expose at once;
 3. the property as stated above is really violated (not merely some neighbouring behaviour), for inputs/histories inside its quantifier.

An automated checker derived from the property text has already been confronted with the following earlier changes for this same property; choose a DIFFERENT mechanism and, if you can, a place or an input class such a checker would most likely not exercise:
%(earlier)s

Deliver, inside %(wt)s:
 - the change itself, left UNCOMMITTED in the working tree (only files under pox/);
 - DEMO.py at the worktree root: a self-contained script (run as `cd %(wt)s && /venv/bin/python DEMO.py`) that exits 0 on the ORIGINAL tree and exits 1 on your CHANGED tree, demonstrating the violation of the property (verify both; to switch trees use `git diff > /tmp/seed/%(id)s.patch; git apply -R /tmp/seed/%(id)s.patch; ...; git apply /tmp/seed/%(id)s.patch` - NEVER `git stash`, the stash is shared with other worktrees of this repository);  it should finish within a minute and print what it observed;
 - SEED_NOTES.md at the worktree root: the change, why it breaks the property (which clause), what exactly it needs in order to manifest, and why ordinary use and the existing tests do not expose it.
Do not commit anything.  When done, reply with a three-line summary: file(s) changed, mechanism, trigger.
""" % dict(wt=wt, id=pid, title=p['title'], statement=p['statement'],
           quant=p['quantifier']['text'], files=', '.join(p['anchors']['files']),
           earlier='\n'.join(earlier) or '- (none)')
  open('/tmp/seed/prompts/%s.txt' % pid, 'w').write(txt)
  print(pid, wt, len(earlier), 'earlier')
