#!/bin/sh
# tools/sweep.sh <tier> <seed>...  -- development aid: every check at each seed, one line each;
# meant for `vp run` (writes no evidence).
T="$1"; shift
for S in "$@"; do
  for i in 01 02 03 04 05 06 07 08 09 10 11 12 13 14 15 16 17 18 19 20; do
    s=$(date +%s)
    OUT=$(VERIF_SEED=$S ./check C$i --tier $T --no-evidence 2>&1); rc=$?
    e=$(date +%s)
    echo "seed=$S C$i tier=$T rc=$rc $((e-s))s"
    if [ $rc -ne 0 ]; then echo "$OUT" | grep -v '^KNOWN' | cut -c1-1500 | head -30; mkdir -p keep/$S; cp -r replays/C$i keep/$S/ 2>/dev/null; fi
  done
done
