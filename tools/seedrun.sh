#!/bin/sh
# tools/seedrun.sh <seed-dir> [tier] [check-id ...]
# Applies <seed-dir>/patch.diff to a scratch copy of /repo (never to /repo
# itself), optionally re-runs the repository's own tests there (SEED_BASELINE=1)
# and runs the named checks (default: the check of the property the seed was
# written for, from meta.json) against the copy.  Prints one line per check.
S="$1"; TIER="${2:-quick}"; shift; [ $# -gt 0 ] && shift
[ -f "$S/patch.diff" ] || { echo "no patch.diff in $S"; exit 3; }
IDS="$*"
[ -n "$IDS" ] || IDS=$(python3 -c "import json,sys;m=json.load(open(sys.argv[1]));print(m.get('run', m['property']))" "$S/meta.json")
D=$(mktemp -d /tmp/pox-seed-XXXXXX)
rsync -a --exclude .git /repo/ "$D"/
( cd "$D" && git init -q . >/dev/null 2>&1 && git apply --whitespace=nowarn "$OLDPWD/$S/patch.diff" 2>/dev/null ) \
  || ( cd "$D" && patch -p1 -s < "$(cd "$OLDPWD" && cd "$S" && pwd)/patch.diff" ) \
  || { echo "PATCH DOES NOT APPLY: $S"; rm -rf "$D"; exit 3; }
rm -rf "$D/.git"
if [ -n "$SEED_BASELINE" ]; then VERIF_REPO="$D" sh /verif/tools/baseline.sh | head -3; fi
for ID in $IDS; do
  OUT=$(VERIF_REPO="$D" /verif/check "$ID" --tier "$TIER" --no-evidence 2>&1)
  RC=$?
  KEY=$(echo "$OUT" | grep "^  key:" | head -${SEED_KEYS:-2} | cut -c1-160 | tr '\n' ';')
  echo "$(basename "$S") $ID rc=$RC $(echo "$OUT" | grep -c '^VIOLATION') violation(s) $KEY"
  rm -rf /verif/replays/"$ID"
done
rm -rf "$D"
