#!/bin/sh
# tools/seedpar.sh [tier] [P] [pattern]  -- like seedall.sh, P seeds at a time (each with VERIF_JOBS
# from the environment, default 4); one line per seed; development aid.
T="${1:-quick}"; P="${2:-4}"; PAT="${3:-.}"
export VERIF_JOBS="${VERIF_JOBS:-4}"
cd /verif
ls seeded | grep -E "$PAT" | while read S; do
  if grep -q '"equivalent_on_repaired_tree": true' "seeded/$S/meta.json" 2>/dev/null; then
    echo "$S skipped: can no longer manifest on the repaired tree" >&2; continue
  fi
  echo "$S"
done | xargs -P "$P" -I{} sh -c "tools/seedrun.sh seeded/{} $T 2>&1 | grep -v WARNING"
