"""
Raw Ethernet frame generator (bytes), built with pvm.ref.frames only.
Frame classes: untagged / 802.1Q; Ethernet II / 802.3 LLC / SNAP (OUI 0 and
non-zero); ARP request/reply; IPv4 (with/without options; first and later
fragments) carrying TCP / UDP / ICMP / other protocols; unknown ethertypes.
"""
import struct

from pvm.ref import frames as F

KINDS = ["tcp", "udp", "icmp", "ipother", "tcp_opts", "frag_first", "icmp_quote", "gre_ip",
         "frag_later", "arp_req", "arp_rep", "other", "llc", "snap0",
         "snapx", "snap_ip", "lldp", "ipv6", "qinq", "rarp", "frag_other", "stag"]

MACS = [bytes.fromhex(x) for x in
        ("000000000001", "000000000002", "0200000000aa", "ffffffffffff",
         "01005e000001", "00115599aabb", "0180c2000000", "0180c200000e")]
IPS = [0x0a000001, 0x0a000002, 0x0a0000ff, 0xc0a80101, 0x01020304, 0x01020309,
       0xe0000001, 0xffffffff, 0x7f000001, 0x80000000]


def gen_frame (rng, kind=None, tagged=None, pad=None, payload_len=None,
               src=None, dst=None):
  """Returns (raw bytes, description dict)."""
  k = kind or rng.choice(KINDS)
  if tagged is None: tagged = rng.random() < 0.35
  vlan = None
  if tagged:
    vlan = (rng.randrange(8), rng.choice([0, 0, 1]),
            rng.choice([0, 1, 5, 100, 4094, 4095, rng.randrange(4096)]))
  if pad is None: pad = rng.random() < 0.3
  dst = dst or rng.choice(MACS)
  src = src or rng.choice(MACS[:3] + [MACS[5]])
  if payload_len is None:
    payload_len = rng.choice([0, 1, 2, 5, 18, 19, 46, 100, 101, 600])
  data = bytes(rng.getrandbits(8) for _ in range(payload_len))
  sip = rng.choice(IPS[:6]); dip = rng.choice(IPS)
  tos = (rng.randrange(64) << 2) | rng.choice([0, 0, 0, 1, 2, 3])    # (DSCP and ECN)
  desc = dict(kind=k, tagged=bool(tagged))
  def ip (proto, l4, **kw):
    if "flags" not in kw:
      # don't-fragment and the reserved bit (neither makes a datagram a
      # fragment)
      kw["flags"] = rng.choice([0, 0, 0, 2, 2, 4, 6])
    return F.ipv4(sip, dip, proto, l4, tos=tos, ident=rng.getrandbits(16),
                  ttl=rng.choice([1, 64, 255]), **kw)
  if k == "tcp":
    l4 = F.tcp(rng.choice([80, 1, 65535, 1234]), rng.choice([80, 443, 0, 65535]),
               data, seq=rng.getrandbits(32), src=sip, dst=dip,
               ack=rng.choice([0, rng.getrandbits(32)]),
               flags=rng.choice([0x02, 0x12, 0x10, 0x18, 0xc2, 0xff, 0x00, 0x29]),
               win=rng.choice([1000, 0, 65535]), urg=rng.choice([0, 0, 7]))
    raw = F.eth(dst, src, 0x0800, ip(6, l4), vlan, pad)
  elif k == "tcp_opts":
    # (option blocks as real stacks send them: ending in padding, in a long
    #  option, in a two-octet option flush with the end of the header)
    l4 = F.tcp(4000, 22, data, options=rng.choice([
               b"\x02\x04\x05\xb4\x01\x01\x01\x00",
               b"\x02\x04\x05\xb4\x01\x03\x03\x08\x01\x01\x04\x02",
               b"\x02\x04\x05\xb4\x04\x02\x08\x0a" + b"\x00\x00\x00\x01" * 2 + b"\x01\x03\x03\x07",
               b"\x01\x01\x08\x0a\x11\x22\x33\x44\x55\x66\x77\x88",
               b"\x01\x01\x04\x02",
               b"\x01\x01\x05\x0a" + b"\x00\x00\x10\x00\x00\x00\x20\x00"]),
               src=sip, dst=dip)
    raw = F.eth(dst, src, 0x0800, ip(6, l4, options=b"\x94\x04\x00\x00"),
                vlan, pad)
  elif k == "udp":
    sp, dp = rng.choice([7, 4000, 65535, 5000]), rng.choice([9, 1, 6000, 65534])
    if rng.random() < 0.25:
      # ports of the applications the packet library knows (DNS, DHCP, RIP,
      # VXLAN, mDNS), over a payload that is none of their messages: a UDP
      # datagram with those ports all the same
      sp, dp = rng.choice([(53, 4000), (4000, 53), (68, 67), (67, 68), (520, 520),
                           (40000, 4789), (5353, 5353), (53, 53)])
    l4 = F.udp(sp, dp, data, src=sip, dst=dip, zero_csum=rng.random() < 0.2)
    raw = F.eth(dst, src, 0x0800, ip(17, l4), vlan, pad)
  elif k == "icmp":
    l4 = F.icmp(rng.choice([8, 0, 3, 11, 255]), rng.choice([0, 1, 3, 255]),
                payload=data)
    raw = F.eth(dst, src, 0x0800, ip(1, l4), vlan, pad)
  elif k == "icmp_quote":
    # an ICMP error that quotes the offending datagram *completely* (as
    # RFC 1812 4.3.2.3 routers do): the transport header inside the quote is
    # payload of the ICMP message, not a header of this frame
    qs = rng.choice(IPS[:6]); qd = rng.choice(IPS)
    if rng.random() < 0.5:
      q4 = F.udp(rng.choice([7, 4000, 65535]), rng.choice([9, 6000, 53]), data,
                 src=qs, dst=qd)
      qp = 17
    else:
      q4 = F.tcp(rng.choice([80, 1234]), rng.choice([443, 65535]), data,
                 seq=rng.getrandbits(32), src=qs, dst=qd)
      qp = 6
    quote = F.ipv4(qs, qd, qp, q4, ident=rng.getrandbits(16), ttl=rng.choice([1, 63]))
    l4 = F.icmp(rng.choice([3, 11]), rng.choice([0, 1, 3]), payload=quote)
    raw = F.eth(dst, src, 0x0800, ip(1, l4), vlan, pad)
  elif k == "gre_ip":
    # IPv4 tunnelled in GRE (no optional GRE fields): the inner datagram's
    # ports are tunnel payload
    qs = rng.choice(IPS[:6]); qd = rng.choice(IPS)
    if rng.random() < 0.5:
      q4 = F.udp(4000, 6000, data, src=qs, dst=qd); qp = 17
    else:
      q4 = F.tcp(1234, 443, data, src=qs, dst=qd); qp = 6
    inner = F.ipv4(qs, qd, qp, q4, ident=rng.getrandbits(16))
    raw = F.eth(dst, src, 0x0800, ip(47, b"\x00\x00\x08\x00" + inner), vlan, pad)
  elif k == "ipother":
    raw = F.eth(dst, src, 0x0800, ip(rng.choice([50, 89, 132, 255]),
                                     data), vlan, pad)
  elif k == "frag_first":
    l4 = F.udp(5000, 6000, data + b"\0" * 8, src=sip, dst=dip)
    raw = F.eth(dst, src, 0x0800, ip(17, l4[:8 + (len(data) // 8) * 8],
                                     flags=1, frag=0), vlan, pad)
  elif k == "frag_later":
    raw = F.eth(dst, src, 0x0800,
                ip(rng.choice([6, 17, 1]), struct.pack("!HHHH", 80, 81, 82, 83)
                   + data, flags=rng.choice([0, 1]),
                   frag=rng.choice([1, 2, 185, 8191])), vlan, pad)
  elif k == "rarp":
    # reverse ARP: same body as ARP under ethertype 0x8035 (not an ARP frame
    # as far as OpenFlow 1.0 matching goes)
    raw = F.eth(dst, src, 0x8035, F.arp(rng.choice([3, 4]), src, sip, MACS[0], dip),
                vlan, pad)
  elif k == "frag_other":
    # a fragment (first or later) of a protocol without ports
    raw = F.eth(dst, src, 0x0800,
                ip(rng.choice([89, 47, 50, 132]), data + b"\0" * 8,
                   flags=rng.choice([0, 1]), frag=rng.choice([0, 1, 185]) or
                   (0 if rng.random() < 0.5 else 3)), vlan, pad)
  elif k in ("arp_req", "arp_rep"):
    op = 1 if k == "arp_req" else 2
    if rng.random() < 0.15: op = rng.choice([3, 4, 255, 256, 257, 0x0201, 0xffff])
    raw = F.eth(dst, src, 0x0806, F.arp(op, src, sip, MACS[0], dip), vlan, pad)
  elif k == "other":
    raw = F.eth(dst, src, rng.choice([0x88b5, 0x8847, 0x0600, 0xffff, 0x9000]),
                data, vlan, pad)
  elif k == "lldp":
    raw = F.eth(bytes.fromhex("0180c200000e"), src, 0x88cc,
                b"\x02\x07\x04" + src + b"\x04\x03\x02\x00\x01\x06\x02\x00\x78"
                b"\x00\x00", vlan, pad)
  elif k == "ipv6":
    raw = F.eth(dst, src, 0x86dd, b"\x60\0\0\0" + struct.pack("!HBB",
                len(data), 59, 64) + b"\x20\x01" + b"\0" * 13 + b"\x01" +
                b"\x20\x01" + b"\0" * 13 + b"\x02" + data, vlan, pad)
  elif k == "qinq":
    # two stacked 802.1Q tags: OpenFlow 1.0 looks at the outer one only, so
    # the frame's type is 0x8100 and nothing behind the inner tag is a field
    l4 = F.udp(5000, 5001, data, src=sip, dst=dip)
    inner = struct.pack("!H", (rng.randrange(8) << 13) | rng.choice([1, 200, 4094])) + \
        struct.pack("!H", rng.choice([0x0800, 0x0800, 0x0806, 0x88b5])) + ip(17, l4)
    outer = vlan or (rng.randrange(8), 0, rng.choice([1, 100, 4095]))
    desc["tagged"] = True
    raw = F.eth(dst, src, 0x8100, inner, outer, False)
  elif k == "stag":
    # a provider-bridge service tag (802.1ad 0x88a8, or the older 0x9100 /
    # 0x9200) in front of a customer tag or directly of an IPv4 datagram:
    # OpenFlow 1.0 knows the 0x8100 tag only, so to it this is an untagged
    # frame of that type and nothing behind the type is a header field
    l4 = F.udp(5000, 5001, data, src=sip, dst=dip)
    tpid = rng.choice([0x88a8, 0x88a8, 0x9100, 0x9200])
    tci = struct.pack("!H", (rng.randrange(8) << 13) | rng.choice([1, 200, 4094]))
    if rng.random() < 0.5:
      body = tci + struct.pack("!HHH", 0x8100, rng.choice([5, 0x2005]), 0x0800) + ip(17, l4)
    else:
      body = tci + struct.pack("!H", 0x0800) + ip(17, l4)
    raw = F.eth(dst, src, tpid, body, vlan, False)
  elif k == "llc":
    raw = F.eth_8023(dst, src, F.llc(0x42, 0x42, 3, data + b"\0\0\0"), vlan)
  elif k == "snap0":
    # (with OUI 0 the SNAP protocol id *is* the frame type, whatever its
    #  value - also ids below 0x600, which as an Ethernet II type field would
    #  be a length)
    raw = F.eth_8023(dst, src, F.snap(b"\0\0\0",
                                      rng.choice([0x88b5, 0x9000, 0x0100, 0x05ff,
                                                  0x0001, 0x0600, 0x05fe]),
                                      data), vlan)
  elif k == "snapx":
    raw = F.eth_8023(dst, src, F.snap(b"\0\0\x0c", 0x2000, data), vlan)
  elif k == "snap_ip":
    l4 = F.udp(7, 9, data, src=sip, dst=dip)
    raw = F.eth_8023(dst, src, F.snap(b"\0\0\0", 0x0800, ip(17, l4)), vlan)
  else:
    raise KeyError(k)
  return raw, desc


# --------------------------------------------------------------------------
# relatives of a frame: other packets of the same conversation

def mirror (raw):
  """The frame's answer: Ethernet, IPv4 and TCP/UDP source and destination
  exchanged (ARP: sender and target).  Every checksum stays right, the sums
  being commutative.  None if the frame has no such relative."""
  p = F.parse(raw)
  if "src" not in p: return None
  b = bytearray(raw)
  b[0:6], b[6:12] = raw[6:12], raw[0:6]
  if "ip" in p:
    o = p["ip"]["off"]
    b[o + 12:o + 16], b[o + 16:o + 20] = raw[o + 16:o + 20], raw[o + 12:o + 16]
    if "tcp" in p or "udp" in p:
      l4 = p["ip"]["l4_off"]
      b[l4:l4 + 2], b[l4 + 2:l4 + 4] = raw[l4 + 2:l4 + 4], raw[l4:l4 + 2]
  elif "arp" in p:
    o = p["l3off"]
    b[o + 8:o + 18], b[o + 18:o + 28] = raw[o + 18:o + 28], raw[o + 8:o + 18]
  b = bytes(b)
  return b if b != raw else None


def twin (raw):
  """Another connection between the same hosts: one bit in which the two
  TCP/UDP port numbers differ is inverted in both (say 1000->80 becomes
  1001->81), which leaves every checksum as it was.  None if the frame has
  no ports or they are equal."""
  p = F.parse(raw)
  t = p.get("tcp") or p.get("udp")
  if not t or "ip" not in p: return None
  d = t["sport"] ^ t["dport"]
  if not d: return None
  bit = d & -d
  l4 = p["ip"]["l4_off"]
  b = bytearray(raw)
  b[l4:l4 + 4] = struct.pack("!HH", t["sport"] ^ bit, t["dport"] ^ bit)
  return bytes(b)
