"""
Generators of libopenflow_01 objects (the things a caller can construct) and
`to_fields`, which reads an object's public attributes back into the plain
dict shape that pvm.ref.ofwire encodes.  Values come from a seeded RNG and
favour boundary values (0, 1, max, sign bit, max-1).
"""
import struct


def of ():
  import pox.openflow.libopenflow_01 as of_
  return of_


def rint (rng, bits):
  mx = (1 << bits) - 1
  r = rng.random()
  if r < 0.12: return 0
  if r < 0.22: return 1
  if r < 0.34: return mx
  if r < 0.44: return 1 << (bits - 1)
  if r < 0.52: return mx - 1
  if r < 0.60: return (1 << (bits - 1)) - 1
  return rng.getrandbits(bits)


def rbytes (rng, n):
  r = rng.random()
  if r < 0.1: return b"\0" * n
  if r < 0.2: return b"\xff" * n
  return bytes(rng.getrandbits(8) for _ in range(n))


def rmac (rng):
  from pox.lib.addresses import EthAddr
  b = rbytes(rng, 6)
  return EthAddr(b) if rng.random() < 0.7 else b


def rstr (rng, maxlen):
  r = rng.random()
  if r < 0.15: n = 0
  elif r < 0.35: n = maxlen
  elif r < 0.5: n = maxlen - 1
  else: n = rng.randrange(0, maxlen + 1)
  return "".join(chr(rng.choice(list(range(0x21, 0x7f)) + [0xe9, 0xff]))
                 for _ in range(n))


def rlen (rng, choices=(0, 0, 1, 2, 3, 7, 8, 9, 64, 100, 1400, 1500)):
  return rng.choice(choices)


# ---------------------------------------------------------------- match

def gen_match (rng, respect=True):
  """
  respect=True: fields are set only when their protocol prerequisites are
  met by the match itself (what a controller is supposed to send).
  """
  o = of()
  from pox.lib.addresses import IPAddr
  m = o.ofp_match()
  it = {}
  def maybe (p=0.5): return rng.random() < p
  if maybe(): it['in_port'] = m.in_port = rint(rng, 16)
  if maybe(): it['dl_src'] = m.dl_src = rmac(rng)
  if maybe(): it['dl_dst'] = m.dl_dst = rmac(rng)
  if maybe(): it['dl_vlan'] = m.dl_vlan = rint(rng, 16)
  if maybe(): it['dl_vlan_pcp'] = m.dl_vlan_pcp = rng.randrange(8)
  dl_type = None
  if maybe(0.8):
    dl_type = rng.choice([0x0800, 0x0800, 0x0800, 0x0806, 0x86dd, 0x88cc,
                          0x05ff, rint(rng, 16)])
    it['dl_type'] = m.dl_type = dl_type
  ip = dl_type == 0x0800
  arp = dl_type == 0x0806
  nw_proto = None
  if (ip or arp or not respect) and maybe(0.8):
    # (every protocol number that is "special" somewhere: ICMP, TCP, UDP,
    #  IGMP, GRE, SCTP, ESP, OSPF, ICMPv6, and the ends of the range)
    nw_proto = rng.choice([1, 6, 17, 6, 17, 2, 47, 132, 50, 89, 58, 0, 255,
                           rint(rng, 8)])
    it['nw_proto'] = m.nw_proto = nw_proto
  if (ip or not respect) and maybe():
    it['nw_tos'] = m.nw_tos = rng.randrange(64) << 2
  addr = {}
  if (ip or arp or not respect):
    for f in ("nw_src", "nw_dst"):
      if not maybe(0.7): continue
      a = rint(rng, 32)
      bits = rng.choice([32, 32, 24, 16, 8, 1, 31, rng.randrange(1, 33)])
      how = rng.randrange(9) if respect else 0
      if how == 0:
        v = (IPAddr(a), bits)
      elif how >= 6:
        # ... and as a number: unsigned, or signed as IPAddr.toSigned() and
        # C-style code hand addresses around (negative from 128.0.0.0 on)
        sa = a - (1 << 32) if (a >> 31) and how >= 7 else a
        if how == 8: v = (sa, bits)
        else: v = sa; bits = 32
      else:
        # the other ways a caller may write an address with a prefix length:
        # CIDR text, netmask text, a bare address (text or object)
        if how in (1, 2): a &= (0xffffffff << (32 - bits)) & 0xffffffff
        txt = "%d.%d.%d.%d" % (a >> 24, (a >> 16) & 255, (a >> 8) & 255, a & 255)
        if how == 1: v = "%s/%d" % (txt, bits)
        elif how == 2:
          mk = (0xffffffff << (32 - bits)) & 0xffffffff
          v = "%s/%d.%d.%d.%d" % (txt, mk >> 24, (mk >> 16) & 255, (mk >> 8) & 255, mk & 255)
        elif how == 3: v = txt; bits = 32
        elif how == 4: v = IPAddr(a); bits = 32
        else: v = (txt, bits)
      setattr(m, f, v)
      it[f] = (v, bits)
      addr[f] = a
  if ((ip and nw_proto in (1, 6, 17)) or not respect):
    if maybe(): it['tp_src'] = m.tp_src = rint(rng, 16) if nw_proto != 1 else rint(rng, 8)
    if maybe(): it['tp_dst'] = m.tp_dst = rint(rng, 16) if nw_proto != 1 else rint(rng, 8)
  if respect:
    # what was asked for is kept beside the object: the oracle derives the
    # wildcard word from this and the specification's bit positions, not
    # from the library's own constants
    for f in ("nw_src", "nw_dst"):
      if f in it: it[f] = it[f][1]
    m._pvm_intent = it
    m._pvm_addr = addr
    if rng.random() < 0.15:
      # the match has been used as a dictionary key / set member (which
      # locks it against further changes): it is encoded like any other
      hash(m)
      try: m.__dict__["_pvm_hashed"] = True
      except Exception: pass
  return m


SPEC_WILDCARD_BIT = dict(in_port=0, dl_vlan=1, dl_src=2, dl_dst=3, dl_type=4,
                         nw_proto=5, tp_src=6, tp_dst=7, dl_vlan_pcp=20, nw_tos=21)


def spec_wildcards (m, it):
  w = 0
  for f, bit in SPEC_WILDCARD_BIT.items():
    if f not in it: w |= 1 << bit
  for f, shift in (("nw_src", 8), ("nw_dst", 14)):
    if f in it:
      w |= (32 - it[f]) << shift
    else:
      # any count of 32 or more means "ignore"; the library's choice is kept
      c = (m.wildcards >> shift) & 63
      w |= (c if c >= 32 else 32) << shift
  return w


def raw_of (v, n):
  if v is None: return b"\0" * n
  if isinstance(v, bytes): return v
  return v.toRaw()


def ip_of (v):
  if v is None: return 0
  if isinstance(v, int): return v & 0xffffffff
  return v.toUnsigned()


def match_fields (m):
  d = {"wildcards": m.wildcards}
  it = getattr(m, "_pvm_intent", None)
  if it is not None: d["wildcards"] = spec_wildcards(m, it)
  for f in ("in_port", "dl_vlan", "dl_vlan_pcp", "dl_type", "nw_tos",
            "nw_proto", "tp_src", "tp_dst"):
    d[f] = getattr(m, f) or 0
  d["dl_src"] = raw_of(m.dl_src, 6)
  d["dl_dst"] = raw_of(m.dl_dst, 6)
  d["nw_src"] = ip_of(m.nw_src)
  d["nw_dst"] = ip_of(m.nw_dst)
  # (the address as the generator wrote it, whatever notation it used)
  for f, a in getattr(m, "_pvm_addr", {}).items(): d[f] = a
  return d


# ---------------------------------------------------------------- actions

ACTION_KINDS = ["output", "output_ctl", "enqueue", "strip_vlan", "vlan_vid",
                "vlan_pcp", "dl_src", "dl_dst", "nw_src", "nw_dst", "nw_tos",
                "tp_src", "tp_dst", "vendor", "generic"]


SPEC_ACTION_TYPE = dict(output=0, output_ctl=0, vlan_vid=1, vlan_pcp=2, strip_vlan=3,
                        dl_src=4, dl_dst=5, nw_src=6, nw_dst=7, nw_tos=8, tp_src=9,
                        tp_dst=10, enqueue=11, vendor=0xffff)


def gen_action (rng, kind=None):
  k = kind or rng.choice(ACTION_KINDS)
  a = _gen_action(rng, k)
  if k in SPEC_ACTION_TYPE:
    # the type code the OpenFlow 1.0 specification gives this kind of action
    # (the library's own numbering is what is being checked)
    try: a._pvm_type = SPEC_ACTION_TYPE[k]
    except Exception: pass
  return a


def _gen_action (rng, kind=None):
  o = of()
  from pox.lib.addresses import IPAddr
  k = kind or rng.choice(ACTION_KINDS)
  if k == "output":
    return o.ofp_action_output(port=rng.choice(
      [1, 2, 0xff00, o.OFPP_IN_PORT, o.OFPP_TABLE, o.OFPP_NORMAL, o.OFPP_FLOOD,
       o.OFPP_ALL, o.OFPP_LOCAL, o.OFPP_NONE, rint(rng, 16)]))
  if k == "output_ctl":
    return o.ofp_action_output(port=o.OFPP_CONTROLLER, max_len=rint(rng, 16))
  if k == "enqueue":
    return o.ofp_action_enqueue(port=rint(rng, 16), queue_id=rint(rng, 32))
  if k == "strip_vlan": return o.ofp_action_strip_vlan()
  if k == "vlan_vid": return o.ofp_action_vlan_vid(vlan_vid=rint(rng, 16))
  if k == "vlan_pcp": return o.ofp_action_vlan_pcp(vlan_pcp=rint(rng, 8))
  if k == "dl_src": return o.ofp_action_dl_addr.set_src(rmac(rng))
  if k == "dl_dst": return o.ofp_action_dl_addr.set_dst(rmac(rng))
  if k == "nw_src": return o.ofp_action_nw_addr.set_src(IPAddr(rint(rng, 32)))
  if k == "nw_dst": return o.ofp_action_nw_addr.set_dst(IPAddr(rint(rng, 32)))
  if k == "nw_tos": return o.ofp_action_nw_tos(nw_tos=rint(rng, 8))
  if k == "tp_src": return o.ofp_action_tp_port.set_src(rint(rng, 16))
  if k == "tp_dst": return o.ofp_action_tp_port.set_dst(rint(rng, 16))
  if k == "vendor":
    return o.ofp_action_vendor_generic(vendor=rint(rng, 32),
                                       body=rbytes(rng, 8 * rng.randrange(0, 4)))
  return o.ofp_action_generic(type=rng.choice([12, 13, 0x100, 0xfffe]),
                              data=rbytes(rng, 4 + 8 * rng.randrange(0, 3)))


def gen_actions (rng, maxn=6):
  r = rng.random()
  if r < 0.15: n = 0
  elif r < 0.4: n = 1
  else: n = rng.randrange(0, maxn + 1)
  return [gen_action(rng) for _ in range(n)]


def action_fields (a):
  o = of()
  d = {"type": getattr(a, "_pvm_type", a.type)}
  if isinstance(a, o.ofp_action_output):
    d.update(port=a.port, max_len=a.max_len)
  elif isinstance(a, o.ofp_action_enqueue):
    d.update(port=a.port, queue_id=a.queue_id)
  elif isinstance(a, o.ofp_action_strip_vlan):
    pass
  elif isinstance(a, o.ofp_action_vlan_vid): d.update(vlan_vid=a.vlan_vid)
  elif isinstance(a, o.ofp_action_vlan_pcp): d.update(vlan_pcp=a.vlan_pcp)
  elif isinstance(a, o.ofp_action_dl_addr): d.update(dl_addr=raw_of(a.dl_addr, 6))
  elif isinstance(a, o.ofp_action_nw_addr): d.update(nw_addr=ip_of(a.nw_addr))
  elif isinstance(a, o.ofp_action_nw_tos): d.update(nw_tos=a.nw_tos)
  elif isinstance(a, o.ofp_action_tp_port): d.update(tp_port=a.tp_port)
  elif isinstance(a, o.ofp_action_vendor_generic):
    d.update(vendor=a.vendor, body=bytes(a.body))
  elif isinstance(a, o.ofp_action_generic):
    d.update(data=bytes(a.data))
  else:
    d.update(opaque=a.pack()[4:])
  return d


# ---------------------------------------------------------------- structs

def gen_phy_port (rng):
  o = of()
  return o.ofp_phy_port(port_no=rint(rng, 16), hw_addr=rmac(rng),
                        name=rstr(rng, 16),
                        config=rint(rng, 32), state=rint(rng, 32),
                        curr=rint(rng, 32), advertised=rint(rng, 32),
                        supported=rint(rng, 32), peer=rint(rng, 32))


def phy_port_fields (p):
  return dict(port_no=p.port_no, hw_addr=raw_of(p.hw_addr, 6), name=p.name,
              config=p.config, state=p.state, curr=p.curr,
              advertised=p.advertised, supported=p.supported, peer=p.peer)


def gen_queue_prop (rng, kind=None):
  o = of()
  k = kind or rng.choice(["min_rate", "min_rate", "none", "generic"])
  if k == "min_rate":
    return o.ofp_queue_prop_min_rate(rate=rint(rng, 16))
  if k == "none":
    return o.ofp_queue_prop_none()
  return o.ofp_queue_prop_generic(property=rng.choice([2, 7, 0xfffe]),
                                  data=rbytes(rng, 4 + 8 * rng.randrange(0, 3)))


def queue_prop_fields (p):
  o = of()
  if isinstance(p, o.ofp_queue_prop_min_rate):
    return dict(property=p.property, rate=p.rate)
  d = dict(property=p.property)
  if p.property != 0: d["data"] = bytes(p.data)
  return d


def gen_packet_queue (rng):
  o = of()
  return o.ofp_packet_queue(queue_id=rint(rng, 32),
                            properties=[gen_queue_prop(rng) for _ in
                                        range(rng.choice([0, 1, 1, 2, 4]))])


def packet_queue_fields (q):
  return dict(queue_id=q.queue_id,
              properties=[queue_prop_fields(p) for p in q.properties])


# ---------------------------------------------------------------- stats

STATS_KINDS = ["desc", "flow", "aggregate", "table", "port", "queue", "vendor",
               "unknown"]
# (openflow.h, enum ofp_stats_types)
SPEC_STATS_TYPE = dict(desc=0, flow=1, aggregate=2, table=3, port=4, queue=5,
                       vendor=0xffff)
UNKNOWN_STATS_TYPES = [6, 77, 0x1234, 0xfffe]


def gen_stats_request (rng, kind=None):
  o = of()
  k = kind or rng.choice(STATS_KINDS)
  if k == "desc": body = o.ofp_desc_stats_request()
  elif k == "flow":
    body = o.ofp_flow_stats_request(match=gen_match(rng),
                                    table_id=rint(rng, 8), out_port=rint(rng, 16))
  elif k == "aggregate":
    body = o.ofp_aggregate_stats_request(match=gen_match(rng),
                                         table_id=rint(rng, 8),
                                         out_port=rint(rng, 16))
  elif k == "table": body = o.ofp_table_stats_request()
  elif k == "port": body = o.ofp_port_stats_request(port_no=rint(rng, 16))
  elif k == "queue":
    body = o.ofp_queue_stats_request(port_no=rint(rng, 16),
                                     queue_id=rint(rng, 32))
  elif k == "unknown":
    # a statistics type this library has no class for: the body is bytes
    t = rng.choice(UNKNOWN_STATS_TYPES)
    m = o.ofp_stats_request(xid=rint(rng, 32), type=t,
                            body=rbytes(rng, rlen(rng, (0, 1, 4, 8, 33))),
                            flags=rng.choice([0, 0, 1, 0xffff]))
    m._pvm_stype = t
    return m
  else:
    body = o.ofp_vendor_stats_generic(vendor=rint(rng, 32),
                                      data=rbytes(rng, rlen(rng, (0, 4, 8, 33))))
  m = o.ofp_stats_request(xid=rint(rng, 32), body=body,
                          flags=rng.choice([0, 0, 1, 0xffff]))
  m._pvm_stype = SPEC_STATS_TYPE[k]
  return m


def gen_stats_entry (rng, k):
  o = of()
  if k == "desc":
    a = lambda n: rstr(rng, n)
    return o.ofp_desc_stats(mfr_desc=a(256), hw_desc=a(256), sw_desc=a(256),
                            serial_num=a(32), dp_desc=a(256))
  if k == "flow":
    return o.ofp_flow_stats(table_id=rint(rng, 8), match=gen_match(rng),
                            duration_sec=rint(rng, 32),
                            duration_nsec=rint(rng, 32), priority=rint(rng, 16),
                            idle_timeout=rint(rng, 16),
                            hard_timeout=rint(rng, 16), cookie=rint(rng, 64),
                            packet_count=rint(rng, 64),
                            byte_count=rint(rng, 64), actions=gen_actions(rng))
  if k == "aggregate":
    return o.ofp_aggregate_stats(packet_count=rint(rng, 64),
                                 byte_count=rint(rng, 64),
                                 flow_count=rint(rng, 32))
  if k == "table":
    return o.ofp_table_stats(table_id=rint(rng, 8),
                             name=rstr(rng, 32),
                             wildcards=rint(rng, 32), max_entries=rint(rng, 32),
                             active_count=rint(rng, 32),
                             lookup_count=rint(rng, 64),
                             matched_count=rint(rng, 64))
  if k == "port":
    return o.ofp_port_stats(port_no=rint(rng, 16),
                            **{n: rint(rng, 64) for n in
                               ("rx_packets", "tx_packets", "rx_bytes",
                                "tx_bytes", "rx_dropped", "tx_dropped",
                                "rx_errors", "tx_errors", "rx_frame_err",
                                "rx_over_err", "rx_crc_err", "collisions")})
  if k == "queue":
    return o.ofp_queue_stats(port_no=rint(rng, 16), queue_id=rint(rng, 32),
                             tx_bytes=rint(rng, 64), tx_packets=rint(rng, 64),
                             tx_errors=rint(rng, 64))
  return o.ofp_vendor_stats_generic(vendor=rint(rng, 32),
                                    data=rbytes(rng, rlen(rng, (0, 4, 8, 33))))


def gen_stats_reply (rng, kind=None, n=None):
  o = of()
  k = kind or rng.choice(STATS_KINDS)
  if k == "unknown":
    t = rng.choice(UNKNOWN_STATS_TYPES)
    m = o.ofp_stats_reply(xid=rint(rng, 32), type=t,
                          body=rbytes(rng, rlen(rng, (0, 1, 4, 8, 33))),
                          flags=rng.choice([0, 0, 1, 0xffff]))
    m._pvm_stype = t
    return m
  kw = {}
  if k in ("flow", "table", "port", "queue"):
    if n is None: n = rng.choice([1, 1, 2, 3, 5, 0])
    body = [gen_stats_entry(rng, k) for _ in range(n)]
    # (an empty list says nothing about its type: it has to be given)
    if n == 0: kw["type"] = SPEC_STATS_TYPE[k]
  else:
    body = gen_stats_entry(rng, k)
  m = o.ofp_stats_reply(xid=rint(rng, 32), body=body,
                        flags=rng.choice([0, 0, 1, 0xffff]), **kw)
  m._pvm_stype = SPEC_STATS_TYPE[k]
  return m


def stats_body_fields (body, reply):
  o = of()
  def one (b):
    if isinstance(b, (o.ofp_desc_stats_request, o.ofp_table_stats_request)):
      return {}
    if isinstance(b, o.ofp_desc_stats):
      return dict(mfr_desc=b.mfr_desc, hw_desc=b.hw_desc, sw_desc=b.sw_desc,
                  serial_num=b.serial_num, dp_desc=b.dp_desc)
    if isinstance(b, (o.ofp_flow_stats_request, o.ofp_aggregate_stats_request)):
      return dict(match=match_fields(b.match), table_id=b.table_id,
                  out_port=b.out_port)
    if isinstance(b, o.ofp_flow_stats):
      return dict(table_id=b.table_id, match=match_fields(b.match),
                  duration_sec=b.duration_sec, duration_nsec=b.duration_nsec,
                  priority=b.priority, idle_timeout=b.idle_timeout,
                  hard_timeout=b.hard_timeout, cookie=b.cookie,
                  packet_count=b.packet_count, byte_count=b.byte_count,
                  actions=[action_fields(a) for a in b.actions])
    if isinstance(b, o.ofp_aggregate_stats):
      return dict(packet_count=b.packet_count, byte_count=b.byte_count,
                  flow_count=b.flow_count)
    if isinstance(b, o.ofp_table_stats):
      return dict(table_id=b.table_id, name=b.name, wildcards=b.wildcards,
                  max_entries=b.max_entries, active_count=b.active_count,
                  lookup_count=b.lookup_count, matched_count=b.matched_count)
    if isinstance(b, o.ofp_port_stats_request):
      return dict(port_no=b.port_no)
    if isinstance(b, o.ofp_port_stats):
      return {n: getattr(b, n) for n in
              ("port_no", "rx_packets", "tx_packets", "rx_bytes", "tx_bytes",
               "rx_dropped", "tx_dropped", "rx_errors", "tx_errors",
               "rx_frame_err", "rx_over_err", "rx_crc_err", "collisions")}
    if isinstance(b, o.ofp_queue_stats_request):
      return dict(port_no=b.port_no, queue_id=b.queue_id)
    if isinstance(b, o.ofp_queue_stats):
      return dict(port_no=b.port_no, queue_id=b.queue_id, tx_bytes=b.tx_bytes,
                  tx_packets=b.tx_packets, tx_errors=b.tx_errors)
    if isinstance(b, o.ofp_vendor_stats_generic):
      return dict(vendor=b.vendor, data=bytes(b.data))
    if isinstance(b, (bytes, bytearray)):
      return bytes(b)
    if isinstance(b, o.ofp_generic_stats_body):
      return bytes(b.data)
    raise TypeError("stats body %r" % (b,))
  if isinstance(body, list):
    return [one(b) for b in body]
  return one(body)


# ---------------------------------------------------------------- messages

MESSAGE_KINDS = ["hello", "error", "echo_request", "echo_reply", "vendor",
                 "features_request", "features_reply", "get_config_request",
                 "get_config_reply", "set_config", "packet_in", "flow_removed",
                 "port_status", "packet_out", "flow_mod", "port_mod",
                 "stats_request", "stats_reply", "barrier_request",
                 "barrier_reply", "queue_get_config_request",
                 "queue_get_config_reply"]

FROM_SWITCH = ["hello", "error", "echo_request", "echo_reply", "vendor",
               "features_reply", "get_config_reply", "packet_in",
               "flow_removed", "port_status", "stats_reply", "barrier_reply",
               "queue_get_config_reply"]
FROM_CONTROLLER = ["hello", "echo_request", "echo_reply", "vendor",
                   "features_request", "get_config_request", "set_config",
                   "packet_out", "flow_mod", "port_mod", "stats_request",
                   "barrier_request", "queue_get_config_request"]


def gen_message (rng, kind=None, payload_lens=None):
  o = of()
  k = kind or rng.choice(MESSAGE_KINDS)
  xid = rint(rng, 32)
  pl = payload_lens or (0, 0, 1, 2, 3, 7, 8, 9, 64, 100, 1400, 1500)
  if k == "hello": return o.ofp_hello(xid=xid)
  if k == "error":
    return o.ofp_error(xid=xid, type=rint(rng, 16), code=rint(rng, 16),
                       data=rbytes(rng, rlen(rng, pl)))
  if k == "echo_request":
    return o.ofp_echo_request(xid=xid, body=rbytes(rng, rlen(rng, pl)))
  if k == "echo_reply":
    return o.ofp_echo_reply(xid=xid, body=rbytes(rng, rlen(rng, pl)))
  if k == "vendor":
    return o.ofp_vendor_generic(xid=xid, vendor=rint(rng, 32),
                                data=rbytes(rng, rlen(rng, pl)))
  if k == "features_request": return o.ofp_features_request(xid=xid)
  if k == "features_reply":
    return o.ofp_features_reply(xid=xid, datapath_id=rint(rng, 64),
                                n_buffers=rint(rng, 32), n_tables=rint(rng, 8),
                                capabilities=rint(rng, 32),
                                actions=rint(rng, 32),
                                ports=[gen_phy_port(rng) for _ in
                                       range(rng.choice([0, 1, 2, 4, 9]))])
  if k == "get_config_request": return o.ofp_get_config_request(xid=xid)
  if k == "get_config_reply":
    return o.ofp_get_config_reply(xid=xid, flags=rint(rng, 16),
                                  miss_send_len=rint(rng, 16))
  if k == "set_config":
    return o.ofp_set_config(xid=xid, flags=rint(rng, 16),
                            miss_send_len=rint(rng, 16))
  if k == "packet_in":
    data = rbytes(rng, rlen(rng, pl))
    tl = rng.choice([len(data), len(data), min(0xffff, len(data) + rint(rng, 8)),
                     0xffff])
    kw = dict(total_len=tl)
    if rng.random() < 0.3: kw = {}       # total_len left to be derived from data
    return o.ofp_packet_in(xid=xid, in_port=rint(rng, 16),
                           buffer_id=rng.choice([None, 0, 1, rint(rng, 32) &
                                                 0x7fffffff]),
                           reason=rint(rng, 8), data=data, **kw)
  if k == "flow_removed":
    return o.ofp_flow_removed(xid=xid, match=gen_match(rng),
                              cookie=rint(rng, 64), priority=rint(rng, 16),
                              reason=rint(rng, 8), duration_sec=rint(rng, 32),
                              duration_nsec=rint(rng, 32),
                              idle_timeout=rint(rng, 16),
                              packet_count=rint(rng, 64),
                              byte_count=rint(rng, 64))
  if k == "port_status":
    return o.ofp_port_status(xid=xid, reason=rint(rng, 8),
                             desc=gen_phy_port(rng))
  if k == "packet_out":
    r = rng.random()
    if r < 0.3:
      return o.ofp_packet_out(xid=xid, buffer_id=rint(rng, 32) & 0x7fffffff,
                              in_port=rint(rng, 16), actions=gen_actions(rng))
    if r < 0.45:
      # "send this packet-in back out": the packet-in object itself is the
      # data; buffer id (or, without one, the frame) and ingress port are
      # taken over from it
      frame = rbytes(rng, rlen(rng, (14, 60, 100)))
      bid = rng.choice([None, None, 0, 1, rint(rng, 32) & 0x7fffffff])
      pin = o.ofp_packet_in(xid=rint(rng, 32), in_port=rint(rng, 16), buffer_id=bid,
                            reason=0, data=frame)
      want = dict(in_port=pin.in_port,
                  buffer_id=0xffffffff if bid is None else bid,
                  data=frame if bid is None else b"")
      acts = gen_actions(rng)
      if rng.random() < 0.5 and acts:
        m = o.ofp_packet_out(xid=xid, data=pin, action=acts[0])
      else:
        m = o.ofp_packet_out(xid=xid, data=pin, actions=acts)
      m._pvm_over = want
      return m
    if r < 0.55:
      # the frame as a packet object
      import pox.lib.packet as pkt
      from pox.lib.addresses import EthAddr
      payload = rbytes(rng, rlen(rng, (0, 1, 46, 100)))
      e = pkt.ethernet(src=EthAddr(rmac(rng)), dst=EthAddr(rmac(rng)), type=0x88b5)
      e.payload = payload
      m = o.ofp_packet_out(xid=xid, in_port=rint(rng, 16), actions=gen_actions(rng),
                           data=e)
      m._pvm_over = dict(data=e.dst.toRaw() + e.src.toRaw() + b"\x88\xb5" + payload)
      return m
    return o.ofp_packet_out(xid=xid, in_port=rint(rng, 16),
                            actions=gen_actions(rng),
                            data=rbytes(rng, rlen(rng, pl)))
  if k == "flow_mod":
    return o.ofp_flow_mod(xid=xid, match=gen_match(rng), cookie=rint(rng, 64),
                          command=rng.choice([0, 1, 2, 3, 4, rint(rng, 16)]),
                          idle_timeout=rint(rng, 16),
                          hard_timeout=rint(rng, 16), priority=rint(rng, 16),
                          buffer_id=rng.choice([None, None, 0, rint(rng, 32)
                                                & 0x7fffffff]),
                          out_port=rint(rng, 16), flags=rint(rng, 16),
                          actions=gen_actions(rng))
  if k == "port_mod":
    return o.ofp_port_mod(xid=xid, port_no=rint(rng, 16), hw_addr=rmac(rng),
                          config=rint(rng, 32), mask=rint(rng, 32),
                          advertise=rint(rng, 32))
  if k == "stats_request":
    m = gen_stats_request(rng); m.xid = xid; return m
  if k == "stats_reply":
    m = gen_stats_reply(rng); m.xid = xid; return m
  if k == "barrier_request": return o.ofp_barrier_request(xid=xid)
  if k == "barrier_reply": return o.ofp_barrier_reply(xid=xid)
  if k == "queue_get_config_request":
    return o.ofp_queue_get_config_request(xid=xid, port=rint(rng, 16))
  if k == "queue_get_config_reply":
    return o.ofp_queue_get_config_reply(
      xid=xid, port=rint(rng, 16),
      queues=[gen_packet_queue(rng) for _ in range(rng.choice([0, 1, 2, 3]))])
  raise KeyError(k)


def buf_of (v):
  return 0xffffffff if v is None else v


def _message_fields (m):
  o = of()
  d = {"xid": m.xid}
  T = type(m)
  if T is o.ofp_hello: return "hello", d
  if T is o.ofp_error:
    d.update(type=m.type, code=m.code, data=bytes(m.data)); return "error", d
  if T is o.ofp_echo_request:
    d.update(body=bytes(m.body)); return "echo_request", d
  if T is o.ofp_echo_reply:
    d.update(body=bytes(m.body)); return "echo_reply", d
  if T is o.ofp_vendor_generic:
    d.update(vendor=m.vendor, data=bytes(m.data)); return "vendor", d
  if T is o.ofp_features_request: return "features_request", d
  if T is o.ofp_features_reply:
    d.update(datapath_id=m.datapath_id, n_buffers=m.n_buffers,
             n_tables=m.n_tables, capabilities=m.capabilities,
             actions=m.actions, ports=[phy_port_fields(p) for p in m.ports])
    return "features_reply", d
  if T is o.ofp_get_config_request: return "get_config_request", d
  if T is o.ofp_get_config_reply:
    d.update(flags=m.flags, miss_send_len=m.miss_send_len)
    return "get_config_reply", d
  if T is o.ofp_set_config:
    d.update(flags=m.flags, miss_send_len=m.miss_send_len)
    return "set_config", d
  if T is o.ofp_packet_in:
    d.update(buffer_id=buf_of(m.buffer_id), total_len=m.total_len,
             in_port=m.in_port, reason=m.reason, data=bytes(m.data))
    return "packet_in", d
  if T is o.ofp_flow_removed:
    d.update(match=match_fields(m.match), cookie=m.cookie, priority=m.priority,
             reason=m.reason, duration_sec=m.duration_sec,
             duration_nsec=m.duration_nsec, idle_timeout=m.idle_timeout,
             packet_count=m.packet_count, byte_count=m.byte_count)
    return "flow_removed", d
  if T is o.ofp_port_status:
    d.update(reason=m.reason, desc=phy_port_fields(m.desc))
    return "port_status", d
  if T is o.ofp_packet_out:
    d.update(buffer_id=buf_of(m.buffer_id), in_port=m.in_port,
             actions=[action_fields(a) for a in m.actions],
             data=bytes(m.data or b""))
    return "packet_out", d
  if T is o.ofp_flow_mod:
    d.update(match=match_fields(m.match), cookie=m.cookie, command=m.command,
             idle_timeout=m.idle_timeout, hard_timeout=m.hard_timeout,
             priority=m.priority, buffer_id=buf_of(m.buffer_id),
             out_port=m.out_port, flags=m.flags,
             actions=[action_fields(a) for a in m.actions])
    return "flow_mod", d
  if T is o.ofp_port_mod:
    d.update(port_no=m.port_no, hw_addr=raw_of(m.hw_addr, 6), config=m.config,
             mask=m.mask, advertise=m.advertise)
    return "port_mod", d
  if T is o.ofp_stats_request:
    d.update(type=getattr(m, "_pvm_stype", m.type), flags=m.flags,
             body=stats_body_fields(m.body, False))
    return "stats_request", d
  if T is o.ofp_stats_reply:
    d.update(type=getattr(m, "_pvm_stype", m.type), flags=m.flags,
             body=stats_body_fields(m.body, True))
    return "stats_reply", d
  if T is o.ofp_barrier_request: return "barrier_request", d
  if T is o.ofp_barrier_reply: return "barrier_reply", d
  if T is o.ofp_queue_get_config_request:
    d.update(port=m.port); return "queue_get_config_request", d
  if T is o.ofp_queue_get_config_reply:
    d.update(port=m.port, queues=[packet_queue_fields(q) for q in m.queues])
    return "queue_get_config_reply", d
  raise TypeError("message %r" % (T,))


def message_fields (m):
  """(ofwire message name, field dict) of a libopenflow message object;
  where the generator handed a field over in another form than its plain
  value (another object to take it from), what it meant is what counts."""
  name, d = _message_fields(m)
  d.update(getattr(m, "_pvm_over", {}))
  return name, d
