"""
A corpus of valid raw frames (bytes) that together reach every parser of
pox.lib.packet, built by hand from the protocol specifications (no POX code):
Ethernet/VLAN/LLC/SNAP, ARP, IPv4 (+options), IPv6 (+hop-by-hop, routing,
fragment, destination options), ICMP (echo, unreachable, time exceeded),
ICMPv6 (echo, NS, NA, RS, RA with options), TCP (+options), UDP, DHCP, DNS
(with compression), LLDP, MPLS, GRE, VXLAN, IGMP v2/v3, RIP, EAPOL/EAP.
"""
import struct

from pvm.ref import frames as F, inet

M1 = bytes.fromhex("020000000001")
M2 = bytes.fromhex("020000000002")
BC = b"\xff" * 6
IP1 = 0x0a000001
IP2 = 0x0a000002
A6 = bytes.fromhex("20010db8000000000000000000000001")
B6 = bytes.fromhex("20010db8000000000000000000000002")
LL6 = bytes.fromhex("fe800000000000000000000000000001")
MC6 = bytes.fromhex("ff0200000000000000000001ff000002")


def ipv6 (src, dst, nh, payload, tc=0, flow=0, hlim=64, plen=None):
  return struct.pack("!LHBB", (6 << 28) | (tc << 20) | flow,
                     len(payload) if plen is None else plen, nh, hlim) + \
      src + dst + payload


def ext_hbh (nh, opts=b"\x01\x04\0\0\0\0"):
  assert (2 + len(opts)) % 8 == 0
  return struct.pack("!BB", nh, (2 + len(opts)) // 8 - 1) + opts


def ext_frag (nh, off, more, ident):
  return struct.pack("!BBHL", nh, 0, (off << 3) | (1 if more else 0), ident)


def ext_routing (nh, addrs):
  return struct.pack("!BBBBL", nh, 2 * len(addrs), 0, len(addrs), 0) + \
      b"".join(addrs)


def icmp6 (src, dst, typ, code, body):
  b = struct.pack("!BBH", typ, code, 0) + body
  c = inet.l4_csum6(src, dst, 58, b)
  return b[:2] + struct.pack("!H", c) + b[4:]


def nd_opt (t, data):
  assert (2 + len(data)) % 8 == 0
  return struct.pack("!BB", t, (2 + len(data)) // 8) + data


def udp6 (src, dst, sp, dp, payload):
  seg = struct.pack("!HHHH", sp, dp, 8 + len(payload), 0) + payload
  c = inet.l4_csum6(src, dst, 17, seg) or 0xffff
  return seg[:6] + struct.pack("!H", c) + seg[8:]


def tcp6 (src, dst, sp, dp, payload):
  seg = struct.pack("!HHLLBBHHH", sp, dp, 1, 2, 5 << 4, 0x18, 100, 0, 0) + payload
  c = inet.l4_csum6(src, dst, 6, seg)
  return seg[:16] + struct.pack("!H", c) + seg[18:]


def dhcp (op=1, options=b"\x35\x01\x01\x37\x03\x01\x03\x06\xff", sname=b"",
          file=b""):
  return struct.pack("!BBBBLHH4s4s4s4s16s64s128sL", op, 1, 6, 0, 0x12345678, 0,
                     0x8000, b"\0" * 4, F.ip4(IP2), b"\0" * 4, b"\0" * 4,
                     M1 + b"\0" * 10, sname, file, 0x63825363) + options


def dns_name (n):
  out = b""
  for lab in n.split("."):
    if lab: out += bytes([len(lab)]) + lab.encode()
  return out + b"\0"


def dns (qr, questions, answers):
  h = struct.pack("!HHHHHH", 0xbeef, 0x8180 if qr else 0x0100, len(questions),
                  len(answers), 0, 0)
  b = h
  for n, t in questions:
    b += dns_name(n) + struct.pack("!HH", t, 1)
  for namebytes, t, rdata in answers:
    b += namebytes + struct.pack("!HHLH", t, 1, 300, len(rdata)) + rdata
  return b


def lldp (chassis=b"\x04" + M1, port=b"\x02" + b"0001", ttl=120, extra=b""):
  def tlv (t, v): return struct.pack("!H", (t << 9) | len(v)) + v
  return tlv(1, chassis) + tlv(2, port) + tlv(3, struct.pack("!H", ttl)) + \
      extra + tlv(0, b"")


def lldp_tlv (t, v):
  return struct.pack("!H", (t << 9) | len(v)) + v


def gre (proto, payload, csum=False, key=None, seq=None):
  flags = (0x8000 if csum else 0) | (0x2000 if key is not None else 0) | \
      (0x1000 if seq is not None else 0)
  b = struct.pack("!HH", flags, proto)
  if csum: b += b"\0\0\0\0"
  if key is not None: b += struct.pack("!L", key)
  if seq is not None: b += struct.pack("!L", seq)
  b += payload
  if csum:
    c = inet.csum(b)
    b = b[:4] + struct.pack("!H", c) + b[6:]
  return b


def igmp2 (typ, group, maxresp=100):
  b = struct.pack("!BBH4s", typ, maxresp, 0, F.ip4(group))
  c = inet.csum(b)
  return b[:2] + struct.pack("!H", c) + b[4:]


def igmp3_report (records):
  b = struct.pack("!BBHHH", 0x22, 0, 0, 0, len(records))
  for rec in records:
    rtype, group, sources = rec[:3]
    aux = rec[3] if len(rec) > 3 else b""       # (auxiliary data, in words)
    b += struct.pack("!BBH4s", rtype, len(aux) // 4, len(sources), F.ip4(group))
    b += b"".join(F.ip4(s) for s in sources) + aux
  c = inet.csum(b)
  return b[:2] + struct.pack("!H", c) + b[4:]


def rip (cmd, entries, version=2):
  b = struct.pack("!BBH", cmd, version, 0)
  for ip, mask, nh, metric in entries:
    b += struct.pack("!HH4s4s4sL", 2, 0, F.ip4(ip), F.ip4(mask), F.ip4(nh), metric)
  return b


def eapol (typ, body, ver=1):
  return struct.pack("!BBH", ver, typ, len(body)) + body


def eap (code, ident, typ=None, data=b""):
  if typ is None:
    return struct.pack("!BBH", code, ident, 4)
  return struct.pack("!BBHB", code, ident, 5 + len(data), typ) + data


def mpls (label, tc, s, ttl, payload):
  return struct.pack("!L", (label << 12) | (tc << 9) | (s << 8) | ttl) + payload


def build ():
  """Returns list of (name, raw frame)."""
  C = []
  def add (name, raw): C.append((name, raw))
  e = F.eth
  ip = F.ipv4
  # L2
  add("eth_other", e(M2, M1, 0x88b5, b"hello world"))
  add("eth_short_payload", e(M2, M1, 0x9000, b""))
  add("vlan_other", e(M2, M1, 0x88b5, b"abcdef", vlan=(5, 0, 100)))
  add("vlan_cfi", e(M2, M1, 0x88b5, b"abcdef", vlan=(0, 1, 4095)))
  add("llc", F.eth_8023(M2, M1, F.llc(0x42, 0x42, 3, b"\0" * 35)))
  add("llc_ctl2", F.eth_8023(M2, M1, F.llc(0xfe, 0xfe, 0x10, b"\x01" + b"\0" * 20)))
  add("snap0_ip", F.eth_8023(M2, M1, F.snap(b"\0\0\0", 0x0800,
      ip(IP1, IP2, 17, F.udp(7, 9, b"snap", src=IP1, dst=IP2)))))
  add("snap_cdp", F.eth_8023(M2, M1, F.snap(b"\0\0\x0c", 0x2000, b"\x02\xb4" + b"\0" * 20)))
  add("vlan_llc", F.eth_8023(M2, M1, F.llc(0x42, 0x42, 3, b"\0" * 35), vlan=(1, 0, 7)))
  # ARP
  add("arp_request", e(BC, M1, 0x0806, F.arp(1, M1, IP1, b"\0" * 6, IP2)))
  add("arp_reply", e(M1, M2, 0x0806, F.arp(2, M2, IP2, M1, IP1), pad=True))
  add("rarp", e(BC, M1, 0x8035, F.arp(3, M1, 0, M1, 0)))
  # IPv4 / TCP / UDP / ICMP
  add("tcp_syn", e(M2, M1, 0x0800, ip(IP1, IP2, 6, F.tcp(1234, 80, b"", src=IP1, dst=IP2))))
  add("tcp_data_odd", e(M2, M1, 0x0800, ip(IP1, IP2, 6,
      F.tcp(1234, 80, b"GET /\r\n", flags=0x18, src=IP1, dst=IP2))))
  add("tcp_options", e(M2, M1, 0x0800, ip(IP1, IP2, 6, F.tcp(
      40000, 443, b"x", options=b"\x02\x04\x05\xb4\x04\x02\x08\x0a\0\0\0\x01\0\0\0\x02\x01\x03\x03\x07",
      src=IP1, dst=IP2))))
  add("tcp_sack", e(M2, M1, 0x0800, ip(IP1, IP2, 6, F.tcp(
      40000, 443, b"", options=b"\x01\x01\x05\x0a\0\0\0\x01\0\0\0\x09", src=IP1, dst=IP2))))
  add("tcp_ipopts", e(M2, M1, 0x0800, ip(IP1, IP2, 6,
      F.tcp(1, 2, b"zz", src=IP1, dst=IP2), options=b"\x94\x04\0\0\x01\x01\x01\x00")))
  add("udp_plain", e(M2, M1, 0x0800, ip(IP1, IP2, 17, F.udp(5000, 6000, b"payload", src=IP1, dst=IP2))))
  add("udp_nocsum", e(M2, M1, 0x0800, ip(IP1, IP2, 17, F.udp(5000, 6000, b"pay", zero_csum=True))))
  add("udp_padded", e(M2, M1, 0x0800, ip(IP1, IP2, 17, F.udp(5, 6, b"p", src=IP1, dst=IP2)), pad=True))
  add("icmp_echo", e(M2, M1, 0x0800, ip(IP1, IP2, 1,
      F.icmp(8, 0, struct.pack("!HH", 7, 1), b"pingpingping"))))
  add("icmp_echo_reply_odd", e(M2, M1, 0x0800, ip(IP2, IP1, 1,
      F.icmp(0, 0, struct.pack("!HH", 7, 1), b"odd"))))
  inner = ip(IP1, IP2, 17, F.udp(1, 2, b"12345678", src=IP1, dst=IP2))
  add("icmp_unreach", e(M1, M2, 0x0800, ip(IP2, IP1, 1,
      F.icmp(3, 3, struct.pack("!HH", 0, 1400), inner[:28]))))
  add("icmp_unreach_short", e(M1, M2, 0x0800, ip(IP2, IP1, 1,
      F.icmp(3, 1, struct.pack("!HH", 0, 0), inner[:10]))))
  add("icmp_time_exceeded", e(M1, M2, 0x0800, ip(IP2, IP1, 1,
      F.icmp(11, 0, b"\0\0\0\0", inner[:28]))))
  add("icmp_other", e(M1, M2, 0x0800, ip(IP2, IP1, 1, F.icmp(13, 0, b"\0\1\0\2", b"\0" * 12))))
  add("ip_frag_first", e(M2, M1, 0x0800, ip(IP1, IP2, 17,
      F.udp(1, 2, b"A" * 24, src=IP1, dst=IP2)[:24], flags=1)))
  add("ip_frag_later", e(M2, M1, 0x0800, ip(IP1, IP2, 17, b"B" * 16, frag=3)))
  add("ip_proto_other", e(M2, M1, 0x0800, ip(IP1, IP2, 89, b"ospf-ish data")))
  add("ip_igmp2_query", e(M2, M1, 0x0800, ip(IP1, 0xe0000001, 2, igmp2(0x11, 0), ttl=1)))
  add("ip_igmp2_report", e(M2, M1, 0x0800, ip(IP1, 0xe0010203, 2, igmp2(0x16, 0xe0010203), ttl=1)))
  add("ip_igmp3_report", e(M2, M1, 0x0800, ip(IP1, 0xe0000016, 2,
      igmp3_report([(4, 0xe0010203, []), (1, 0xe0010204, [IP1, IP2])]), ttl=1)))
  # group records with auxiliary data (RFC 3376 4.2.10: counted in words)
  add("ip_igmp3_report_aux", e(M2, M1, 0x0800, ip(IP1, 0xe0000016, 2,
      igmp3_report([(4, 0xe0010203, [IP2], b"\x01\x02\x03\x04" * 3),
                    (1, 0xe0010204, [])]), ttl=1)))
  add("ip_igmp3_report_aux_long", e(M2, M1, 0x0800, ip(IP1, 0xe0000016, 2,
      igmp3_report([(2, 0xe0010203, [], bytes(range(256))),
                    (1, 0xe0010204, [IP1], b"\xaa" * (255 * 4))]), ttl=1)))
  add("gre_plain_ip", e(M2, M1, 0x0800, ip(IP1, IP2, 47, gre(0x0800,
      ip(IP1, IP2, 17, F.udp(1, 2, b"in", src=IP1, dst=IP2))))))
  add("gre_key_seq", e(M2, M1, 0x0800, ip(IP1, IP2, 47, gre(0x6558,
      e(M1, M2, 0x88b5, b"inner-eth"), key=0x01020304, seq=9))))
  add("gre_csum", e(M2, M1, 0x0800, ip(IP1, IP2, 47, gre(0x0800,
      ip(IP1, IP2, 1, F.icmp(8, 0, b"\0\1\0\1", b"")), csum=True))))
  # UDP applications
  add("dhcp_discover", e(BC, M1, 0x0800, ip(0, 0xffffffff, 17,
      F.udp(68, 67, dhcp(1), src=0, dst=0xffffffff))))
  add("dhcp_offer", e(M1, M2, 0x0800, ip(IP2, IP1, 17, F.udp(67, 68, dhcp(
      2, b"\x35\x01\x02\x01\x04\xff\xff\xff\x00\x03\x04\x0a\0\0\x02\x06\x08\x08\x08\x08\x08\x08\x08\x04\x04"
      b"\x33\x04\0\0\x0e\x10\x0c\x04host\x0f\x07example\x00\x00\xff"), src=IP2, dst=IP1))))
  add("dhcp_overload", e(BC, M1, 0x0800, ip(0, 0xffffffff, 17,
      F.udp(68, 67, dhcp(1, b"\x34\x01\x03\x35\x01\x03\xff", sname=b"\x0c\x02hi\xff",
                         file=b"\x3c\x03abc\xff"), src=0, dst=0xffffffff))))
  q = dns(False, [("www.example.com", 1)], [])
  add("dns_query", e(M2, M1, 0x0800, ip(IP1, IP2, 17, F.udp(5353, 53, q, src=IP1, dst=IP2))))
  r = dns(True, [("www.example.com", 1)],
          [(b"\xc0\x0c", 1, F.ip4(IP2)), (b"\xc0\x0c", 5, b"\x03foo\xc0\x10"),
           (b"\xc0\x0c", 28, A6), (b"\xc0\x0c", 15, b"\0\x0a\x04mail\xc0\x10"),
           (b"\xc0\x0c", 16, b"\x05hello"), (b"\xc0\x0c", 12, b"\x03ptr\xc0\x10")])
  add("dns_response", e(M1, M2, 0x0800, ip(IP2, IP1, 17, F.udp(53, 5353, r, src=IP2, dst=IP1))))
  add("rip_response", e(M2, M1, 0x0800, ip(IP1, 0xe0000009, 17, F.udp(520, 520, rip(2,
      [(0x0a010000, 0xffff0000, 0, 1), (0x0a020000, 0xffffff00, IP2, 16)]),
      src=IP1, dst=0xe0000009))))
  add("rip_request", e(M2, M1, 0x0800, ip(IP1, 0xe0000009, 17, F.udp(520, 520,
      rip(1, [(0, 0, 0, 16)]), src=IP1, dst=0xe0000009))))
  add("vxlan", e(M2, M1, 0x0800, ip(IP1, IP2, 17, F.udp(40000, 4789,
      b"\x08\0\0\0" + b"\x00\x12\x34" + b"\0" + e(M1, M2, 0x0806, F.arp(1, M1, IP1, b"\0" * 6, IP2)),
      src=IP1, dst=IP2))))
  # LLDP / EAPOL / MPLS
  add("lldp_min", e(bytes.fromhex("0180c200000e"), M1, 0x88cc, lldp()))
  add("lldp_full", e(bytes.fromhex("0180c200000e"), M1, 0x88cc, lldp(
      chassis=b"\x07dpid:0000000000000001", port=b"\x05eth0", ttl=65535,
      extra=lldp_tlv(4, b"port desc") + lldp_tlv(5, b"sysname") +
      lldp_tlv(6, b"system description") + lldp_tlv(7, b"\0\x14\0\x04") +
      lldp_tlv(8, b"\x05\x01\x0a\0\0\x01\x02\0\0\0\x01\0") +
      lldp_tlv(127, b"\0\x12\x0f\x01\x03\x6c\0\0\x10"))))
  add("lldp_two_caps", e(bytes.fromhex("0180c200000e"), M1, 0x88cc, lldp(
      chassis=b"\x04" + M1, port=b"\x05eth1", ttl=120,
      extra=lldp_tlv(7, b"\0\x14\0\x04") + lldp_tlv(5, b"n") +
      lldp_tlv(7, b"\0\xff\0\x80"))))
  # (the TLV length field has nine bits: values of 256..511 octets)
  add("lldp_long_tlv", e(bytes.fromhex("0180c200000e"), M1, 0x88cc, lldp(
      extra=lldp_tlv(6, b"d" * 300) + lldp_tlv(5, b"n" * 256) +
      lldp_tlv(127, b"\0\x12\x0f\x7f" + b"o" * 507))))
  add("eapol_start", e(bytes.fromhex("0180c2000003"), M1, 0x888e, eapol(1, b"")))
  add("eapol_eap_request", e(bytes.fromhex("0180c2000003"), M1, 0x888e,
      eapol(0, eap(1, 5, 1, b"identity?"))))
  add("eapol_eap_success", e(bytes.fromhex("0180c2000003"), M1, 0x888e, eapol(0, eap(3, 5))))
  add("eapol_key", e(bytes.fromhex("0180c2000003"), M1, 0x888e,
      eapol(3, b"\x02\x00\x8a\x00\x10" + bytes(range(40)), ver=2)))
  add("eapol_logoff", e(bytes.fromhex("0180c2000003"), M1, 0x888e, eapol(2, b"")))
  add("eapol_asf_alert", e(bytes.fromhex("0180c2000003"), M1, 0x888e, eapol(4, b"alert body")))
  add("eapol_eap_md5", e(bytes.fromhex("0180c2000003"), M1, 0x888e,
      eapol(0, eap(2, 6, 4, b"\x10" + b"\xaa" * 16 + b"name"))))
  add("mpls_ip", e(M2, M1, 0x8847, mpls(100, 3, 1, 64, ip(IP1, IP2, 17,
      F.udp(1, 2, b"mpls", src=IP1, dst=IP2)))))
  add("mpls_stack", e(M2, M1, 0x8848, mpls(16, 0, 0, 255, mpls(17, 7, 1, 1, b"\0" * 20))))
  # IPv6
  add("ip6_udp", e(M2, M1, 0x86dd, ipv6(A6, B6, 17, udp6(A6, B6, 1000, 2000, b"six"))))
  add("ip6_tcp", e(M2, M1, 0x86dd, ipv6(A6, B6, 6, tcp6(A6, B6, 1000, 80, b"GET"))))
  # UDP datagrams whose checksum computes to 0x0000 and therefore travels as
  # 0xffff (the last payload word is solved for)
  def zero_sum (mk):
    c = struct.unpack_from("!H", mk(b"zero-sum\0\0"), 6)[0]
    return mk(b"zero-sum" + struct.pack("!H", c))
  add("ip6_udp_sum0", e(M2, M1, 0x86dd, ipv6(A6, B6, 17,
      zero_sum(lambda p: udp6(A6, B6, 1000, 2000, p)))))
  add("udp_sum0", e(M2, M1, 0x0800, ip(IP1, IP2, 17,
      zero_sum(lambda p: F.udp(1000, 2000, p, src=IP1, dst=IP2)))))
  add("ip6_echo", e(M2, M1, 0x86dd, ipv6(A6, B6, 58, icmp6(A6, B6, 128, 0,
      struct.pack("!HH", 1, 2) + b"ping6"))))
  add("ip6_echo_reply", e(M1, M2, 0x86dd, ipv6(B6, A6, 58, icmp6(B6, A6, 129, 0,
      struct.pack("!HH", 1, 2) + b"pong6!"))))
  add("ip6_ns", e(bytes.fromhex("3333ff000002"), M1, 0x86dd, ipv6(A6, MC6, 58,
      icmp6(A6, MC6, 135, 0, b"\0\0\0\0" + B6 + nd_opt(1, M1)), hlim=255)))
  add("ip6_na", e(M1, M2, 0x86dd, ipv6(B6, A6, 58,
      icmp6(B6, A6, 136, 0, b"\x60\0\0\0" + B6 + nd_opt(2, M2)), hlim=255)))
  add("ip6_rs", e(bytes.fromhex("333300000002"), M1, 0x86dd, ipv6(LL6, MC6, 58,
      icmp6(LL6, MC6, 133, 0, b"\0\0\0\0" + nd_opt(1, M1)), hlim=255)))
  add("ip6_ra", e(bytes.fromhex("333300000001"), M2, 0x86dd, ipv6(LL6, MC6, 58,
      icmp6(LL6, MC6, 134, 0, struct.pack("!BBHLL", 64, 0x40, 1800, 0, 0) +
            nd_opt(1, M2) + nd_opt(5, b"\0\0" + struct.pack("!L", 1500)) +
            nd_opt(3, struct.pack("!BBLLL", 64, 0xc0, 86400, 14400, 0) +
                   A6[:8] + b"\0" * 8)), hlim=255)))
  add("ip6_unreach", e(M1, M2, 0x86dd, ipv6(B6, A6, 58, icmp6(B6, A6, 1, 4,
      b"\0\0\0\0" + ipv6(A6, B6, 17, udp6(A6, B6, 1, 2, b"x"))))))
  add("ip6_hbh_udp", e(M2, M1, 0x86dd, ipv6(A6, B6, 0,
      ext_hbh(17) + udp6(A6, B6, 1, 2, b"hbh"))))
  add("ip6_dstopts_routing", e(M2, M1, 0x86dd, ipv6(A6, B6, 60,
      struct.pack("!BB", 43, 0) + b"\x01\x04\0\0\0\0" +
      ext_routing(6, [B6]) + tcp6(A6, B6, 5, 6, b""))))
  add("ip6_fragment", e(M2, M1, 0x86dd, ipv6(A6, B6, 44,
      ext_frag(17, 0, True, 0xabcdef01) + udp6(A6, B6, 1, 2, b"frag" * 4)[:16])))
  add("ip6_nonext", e(M2, M1, 0x86dd, ipv6(A6, B6, 59, b"")))
  add("ip6_mld", e(bytes.fromhex("333300000016"), M1, 0x86dd, ipv6(LL6, MC6, 0,
      ext_hbh(58, b"\x05\x02\0\0\x01\0") + icmp6(LL6, MC6, 143, 0,
      b"\0\0\0\1" + b"\x04\0\0\0" + MC6), hlim=1)))
  # --- frames behind validity gates (ICMPv6 is only looked into when its
  #     checksum is right; MPTCP options only inside a well-formed TCP header)
  q6 = ipv6(A6, B6, 17, udp6(A6, B6, 1, 2, b"quoted"))
  add("ip6_ra_unknown_opts", e(bytes.fromhex("333300000001"), M2, 0x86dd,
      ipv6(LL6, MC6, 58, icmp6(LL6, MC6, 134, 0,
           struct.pack("!BBHLL", 64, 0, 1800, 0, 0) + nd_opt(1, M2) +
           nd_opt(25, b"\0\0" + struct.pack("!L", 600) + A6) +
           nd_opt(24, struct.pack("!BBL", 64, 0x08, 3600) + A6[:8]) +
           nd_opt(14, b"nonce!")), hlim=255)))
  add("ip6_ns_nonce", e(bytes.fromhex("3333ff000002"), M1, 0x86dd, ipv6(A6, MC6, 58,
      icmp6(A6, MC6, 135, 0, b"\0\0\0\0" + B6 + nd_opt(14, b"NONCE!")), hlim=255)))
  add("ip6_too_big", e(M1, M2, 0x86dd, ipv6(B6, A6, 58, icmp6(B6, A6, 2, 0,
      struct.pack("!L", 1280) + q6))))
  add("ip6_time_exceeded", e(M1, M2, 0x86dd, ipv6(B6, A6, 58, icmp6(B6, A6, 3, 0,
      b"\0\0\0\0" + q6))))
  add("ip6_unreach_short", e(M1, M2, 0x86dd, ipv6(B6, A6, 58, icmp6(B6, A6, 1, 0,
      b"\0\0"))))
  add("ip6_unreach_bare", e(M1, M2, 0x86dd, ipv6(B6, A6, 58, icmp6(B6, A6, 1, 3,
      b"\0\0\0\0"))))
  add("ip6_param_problem", e(M1, M2, 0x86dd, ipv6(B6, A6, 58, icmp6(B6, A6, 4, 1,
      struct.pack("!L", 40) + q6))))
  add("ip6_too_big_short", e(M1, M2, 0x86dd, ipv6(B6, A6, 58, icmp6(B6, A6, 2, 0,
      b"\0\0"))))
  mp_capable = b"\x1e\x0c\x00\x81" + b"\x11" * 8
  mp_join = b"\x1e\x0c\x10\x01" + b"\x22" * 8
  mp_dss = b"\x1e\x14\x20\x05" + struct.pack("!LLLHH", 7, 8, 9, 10, 0)
  mp_dss64 = b"\x1e\x1c\x20\x0f" + struct.pack("!QQLHH", 7, 8, 9, 10, 0)
  mp_unknown = b"\x1e\x04\xf0\x00"
  for nm, opts in (("capable", mp_capable), ("join", mp_join), ("dss", mp_dss),
                   ("dss64", mp_dss64), ("unknown_x10", mp_unknown * 10),
                   # field values of zero (an absent field is None, not 0)
                   ("dss_zero", b"\x1e\x14\x20\x05" + struct.pack("!LLLHH", 0, 0, 0, 0, 0)),
                   ("dss_ack0", b"\x1e\x08\x20\x01" + struct.pack("!L", 0)),
                   ("dss_ack0_64", b"\x1e\x0c\x20\x03" + struct.pack("!Q", 0)),
                   ("unknown_1", mp_unknown), ("add_addr", b"\x1e\x08\x34\x01\x0a\0\0\x01"),
                   ("fastclose", b"\x1e\x0c\x70\x00" + b"\x33" * 8)):
    add("tcp_mptcp_" + nm, e(M2, M1, 0x0800, ip(IP1, IP2, 6, F.tcp(
        40000, 443, b"mp", options=opts, src=IP1, dst=IP2))))
  return C


# ---------------------------------------------------------------------------
# Templates: the protocols that exist in the corpus as one or two fixed
# frames, with their variable parts drawn per case (TLV types and lengths,
# single flags, list lengths up to the protocol's limit, every legal length
# of an option).  Each returns (family, raw frame); FAMILY_LAYERS says what
# the frame is.

def _rb (rng, n):
  r = rng.random()
  if r < 0.1: return b"\0" * n
  if r < 0.2: return b"\xff" * n
  return bytes(rng.getrandbits(8) for _ in range(n))


def t_lldp (rng):
  chassis = rng.choice([b"\x04" + _rb(rng, 6), b"\x07" + b"dpid:%016x" % rng.getrandbits(64),
                        b"\x05" + _rb(rng, 5), b"\x06" + b"if0"])
  port = rng.choice([b"\x02" + b"%04d" % rng.randrange(10000), b"\x05eth%d" % rng.randrange(99),
                     b"\x03" + _rb(rng, 6), b"\x07" + _rb(rng, rng.randrange(1, 20))])
  extra = b""
  for _ in range(rng.randrange(0, 7)):
    k = rng.randrange(8)
    if k == 0: extra += lldp_tlv(4, _rb(rng, rng.choice([0, 1, 9, 255])))
    elif k == 1: extra += lldp_tlv(5, _rb(rng, rng.choice([0, 1, 7, 255, 256])))
    elif k == 2: extra += lldp_tlv(6, _rb(rng, rng.choice([0, 18, 300, 511])))
    elif k == 3: extra += lldp_tlv(7, struct.pack("!HH", rng.getrandbits(16), rng.getrandbits(16)))
    elif k == 4:
      # management address: address string (subtype + address), interface
      # numbering subtype, interface number, object identifier (0..128)
      addr = rng.choice([b"\x01" + _rb(rng, 4), b"\x02" + _rb(rng, 16), b"\x06" + _rb(rng, 6)])
      oid = _rb(rng, rng.choice([0, 0, 1, 9, 128]))
      extra += lldp_tlv(8, bytes([len(addr)]) + addr + bytes([rng.choice([1, 2, 3])]) +
                        struct.pack("!L", rng.getrandbits(32)) + bytes([len(oid)]) + oid)
    elif k == 5:
      # a TLV type the standard reserves (9..126): carried along as it is
      extra += lldp_tlv(rng.randrange(9, 127), _rb(rng, rng.choice([0, 1, 4, 40, 300])))
    else:
      extra += lldp_tlv(127, _rb(rng, 3) + bytes([rng.getrandbits(8)]) +
                        _rb(rng, rng.choice([0, 1, 5, 200, 507])))
  return "lldp", F.eth(bytes.fromhex("0180c200000e"), M1, 0x88cc,
                       lldp(chassis=chassis, port=port, ttl=rng.choice([0, 1, 120, 65535]),
                            extra=extra))


def t_nd (rng):
  def opts (kinds):
    b = b""
    for _ in range(rng.randrange(0, 4)):
      k = rng.choice(kinds)
      if k == 1: b += nd_opt(1, _rb(rng, 6))
      elif k == 2: b += nd_opt(2, _rb(rng, 6))
      elif k == 5: b += nd_opt(5, b"\0\0" + struct.pack("!L", rng.choice([0, 1280, 1500, 9000])))
      elif k == 3:
        # prefix information: L and A flags each on their own
        b += nd_opt(3, struct.pack("!BBLLL", rng.choice([0, 48, 64, 128]),
                                   rng.choice([0, 0x80, 0x40, 0xc0]),
                                   rng.getrandbits(32), rng.getrandbits(32), 0) +
                    _rb(rng, 8) + b"\0" * 8)
      else:
        b += nd_opt(k, _rb(rng, rng.choice([6, 14, 22])))
    return b
  t = rng.choice([133, 134, 135, 136, 136])
  if t == 133:
    return "nd_rs", F.eth(bytes.fromhex("333300000002"), M1, 0x86dd, ipv6(LL6, MC6, 58,
        icmp6(LL6, MC6, 133, 0, b"\0\0\0\0" + opts([1, 14])), hlim=255))
  if t == 134:
    body = struct.pack("!BBHLL", rng.choice([0, 64, 255]),
                       rng.choice([0, 0x80, 0x40, 0xc0]),     # M, O (the bits the library models)
                       rng.choice([0, 1800, 65535]), rng.getrandbits(32), rng.getrandbits(32))
    return "nd_ra", F.eth(bytes.fromhex("333300000001"), M2, 0x86dd, ipv6(LL6, MC6, 58,
        icmp6(LL6, MC6, 134, 0, body + opts([1, 5, 3, 3, 24, 25])), hlim=255))
  if t == 135:
    return "nd_ns", F.eth(bytes.fromhex("3333ff000002"), M1, 0x86dd, ipv6(A6, MC6, 58,
        icmp6(A6, MC6, 135, 0, b"\0\0\0\0" + B6 + opts([1, 14])), hlim=255))
  # neighbour advertisement: Router, Solicited, Override - each alone too
  fl = rng.choice([0, 0x80, 0x40, 0x20, 0xc0, 0xa0, 0x60, 0xe0])
  return "nd_na", F.eth(M1, M2, 0x86dd, ipv6(B6, A6, 58,
      icmp6(B6, A6, 136, 0, bytes([fl]) + b"\0\0\0" + B6 + opts([2])), hlim=255))


def t_rip (rng):
  n = rng.choice([1, 2, 5, 24, 25, 25, rng.randrange(1, 26)])
  ents = [(rng.getrandbits(32), rng.choice([0, 0xff000000, 0xffffff00, 0xffffffff]),
           rng.choice([0, rng.getrandbits(32)]), rng.choice([0, 1, 15, 16]))
          for _ in range(n)]
  return "rip", F.eth(M2, M1, 0x0800, F.ipv4(IP1, 0xe0000009, 17, F.udp(
      520, 520, rip(rng.choice([1, 2]), ents), src=IP1, dst=0xe0000009)))


def t_igmp3 (rng):
  recs = []
  for _ in range(rng.randrange(1, 5)):
    recs.append((rng.randrange(1, 7), 0xe0000000 | rng.getrandbits(24),
                 [rng.getrandbits(32) for _ in range(rng.choice([0, 0, 1, 3]))],
                 _rb(rng, 4 * rng.choice([0, 0, 1, 2]))))
  return "igmp3", F.eth(M2, M1, 0x0800, F.ipv4(IP1, 0xe0000016, 2,
                                             igmp3_report(recs), ttl=1))


def t_eapol (rng):
  t = rng.randrange(5)
  ver = rng.choice([1, 2, 3])
  dst = bytes.fromhex("0180c2000003")
  if t == 0:
    code = rng.choice([1, 2, 3, 4])
    if code in (3, 4): body = eap(code, rng.getrandbits(8))
    else: body = eap(code, rng.getrandbits(8), rng.choice([1, 2, 3, 4, 13, 25, 254]),
                     _rb(rng, rng.choice([0, 1, 9, 40])))
    return "eapol_eap", F.eth(dst, M1, 0x888e, eapol(0, body, ver=ver))
  if t == 3: body = _rb(rng, rng.choice([1, 44, 95, 117]))
  elif t == 4: body = _rb(rng, rng.choice([0, 10]))
  else: body = b""
  return "eapol", F.eth(dst, M1, 0x888e, eapol(t, body, ver=ver))


def t_tcp_opts (rng):
  """Every legal length of the options whose layout depends on it."""
  opts = b""
  for _ in range(rng.randrange(1, 4)):
    k = rng.randrange(9)
    if k == 0: o = b"\x02\x04" + struct.pack("!H", rng.getrandbits(16))
    elif k == 1: o = b"\x03\x03" + bytes([rng.randrange(15)])
    elif k == 2: o = b"\x04\x02"
    elif k == 3: o = b"\x08\x0a" + struct.pack("!LL", rng.getrandbits(32), rng.getrandbits(32))
    elif k == 4:
      nb = rng.randrange(1, 5)                  # SACK with 1..4 blocks
      o = bytes([5, 2 + 8 * nb]) + _rb(rng, 8 * nb)
    elif k == 5:
      # MP_CAPABLE: 12 octets (SYN, SYN/ACK) or 20 (ACK)
      n = rng.choice([12, 20])
      o = bytes([30, n, 0x00 | rng.choice([0, 1]), rng.choice([0x81, 0x01, 0x80])]) + _rb(rng, n - 4)
    elif k == 6:
      # MP_JOIN: 12 (SYN), 16 (SYN/ACK), 24 (ACK)
      n = rng.choice([12, 16, 24])
      o = bytes([30, n, 0x10 | (rng.choice([0, 1]) if n != 24 else 0),
                 rng.getrandbits(8) if n != 24 else 0]) + _rb(rng, n - 4)
    elif k == 7:
      # DSS: every combination of ack (none / 4 / 8) and mapping (none / 4 / 8)
      A, a, M, m = rng.choice([(1, 0, 0, 0), (1, 1, 0, 0), (0, 0, 1, 0), (0, 0, 1, 1),
                               (1, 0, 1, 0), (1, 1, 1, 0), (1, 0, 1, 1), (1, 1, 1, 1),
                               (0, 0, 0, 0)])
      fl = A | (a << 1) | (M << 2) | (m << 3) | (rng.choice([0, 0, 0x10]) if M else 0)
      body = b""
      if A: body += _rb(rng, 8 if a else 4)
      if M: body += _rb(rng, 8 if m else 4) + _rb(rng, 4) + struct.pack("!HH", rng.getrandbits(16), rng.getrandbits(16))
      o = bytes([30, 4 + len(body), 0x20, fl]) + body
    else:
      # other MPTCP subtypes: ADD_ADDR (v4, with and without port),
      # REMOVE_ADDR, MP_PRIO, MP_FAIL, MP_FASTCLOSE
      o = rng.choice([b"\x1e\x08\x34" + _rb(rng, 5), b"\x1e\x0a\x34" + _rb(rng, 7),
                      b"\x1e\x04\x40" + _rb(rng, 1), b"\x1e\x06\x40" + _rb(rng, 3),
                      b"\x1e\x03\x50", b"\x1e\x04\x51" + _rb(rng, 1),
                      b"\x1e\x0c\x60\x00" + _rb(rng, 8), b"\x1e\x0c\x70\x00" + _rb(rng, 8)])
    if len(opts) + len(o) <= 40: opts += o
  while len(opts) % 4: opts += b"\x01"
  return "tcp_opts", F.eth(M2, M1, 0x0800, F.ipv4(IP1, IP2, 6, F.tcp(
      40000, 443, _rb(rng, rng.choice([0, 1, 2, 11])), options=opts,
      flags=rng.choice([0x02, 0x12, 0x10, 0x18]), src=IP1, dst=IP2)))


TEMPLATES = [t_lldp, t_nd, t_rip, t_igmp3, t_eapol, t_tcp_opts]

FAMILY_LAYERS = {
  "lldp": "ethernet>lldp",
  "nd_rs": "ethernet>ipv6>icmpv6>NDRouterSolicitation",
  "nd_ra": "ethernet>ipv6>icmpv6>NDRouterAdvertisement",
  "nd_ns": "ethernet>ipv6>icmpv6>NDNeighborSolicitation",
  "nd_na": "ethernet>ipv6>icmpv6>NDNeighborAdvertisement",
  "rip": "ethernet>ipv4>udp>rip",
  "igmp3": "ethernet>ipv4>igmp",
  "eapol": "ethernet>eapol",
  "eapol_eap": "ethernet>eapol>eap",
  "tcp_opts": "ethernet>ipv4>tcp",
}


# What each corpus frame is, in the class vocabulary of the packet library
# (written down by hand from the frame definitions above; a parser that stops
# short of this, or takes another turn, has not parsed the frame).
EXPECTED_LAYERS = {
  'eth_other': 'ethernet',
  'eth_short_payload': 'ethernet',
  'vlan_other': 'ethernet>vlan',
  'vlan_cfi': 'ethernet>vlan',
  'llc': 'ethernet>llc',
  'llc_ctl2': 'ethernet>llc',
  'snap0_ip': 'ethernet>llc>ipv4>udp',
  'snap_cdp': 'ethernet>llc',
  'vlan_llc': 'ethernet>vlan>llc',
  'arp_request': 'ethernet>arp',
  'arp_reply': 'ethernet>arp',
  'rarp': 'ethernet>arp',
  'tcp_syn': 'ethernet>ipv4>tcp',
  'tcp_data_odd': 'ethernet>ipv4>tcp',
  'tcp_options': 'ethernet>ipv4>tcp',
  'tcp_sack': 'ethernet>ipv4>tcp',
  'tcp_ipopts': 'ethernet>ipv4>tcp',
  'udp_plain': 'ethernet>ipv4>udp',
  'udp_nocsum': 'ethernet>ipv4>udp',
  'udp_padded': 'ethernet>ipv4>udp',
  'icmp_echo': 'ethernet>ipv4>icmp>echo',
  'icmp_echo_reply_odd': 'ethernet>ipv4>icmp>echo',
  'icmp_unreach': 'ethernet>ipv4>icmp>unreach>ipv4',
  'icmp_unreach_short': 'ethernet>ipv4>icmp>unreach',
  'icmp_time_exceeded': 'ethernet>ipv4>icmp>time_exceeded>ipv4',
  'icmp_other': 'ethernet>ipv4>icmp',
  'ip_frag_first': 'ethernet>ipv4',
  'ip_frag_later': 'ethernet>ipv4',
  'ip_proto_other': 'ethernet>ipv4',
  'ip_igmp2_query': 'ethernet>ipv4>igmp',
  'ip_igmp2_report': 'ethernet>ipv4>igmp',
  'ip_igmp3_report': 'ethernet>ipv4>igmp',
  'ip_igmp3_report_aux': 'ethernet>ipv4>igmp',
  'ip6_udp_sum0': 'ethernet>ipv6>udp',
  'udp_sum0': 'ethernet>ipv4>udp',
  'ip_igmp3_report_aux_long': 'ethernet>ipv4>igmp',
  'gre_plain_ip': 'ethernet>ipv4>gre>ipv4>udp',
  'gre_key_seq': 'ethernet>ipv4>gre>ethernet',
  'gre_csum': 'ethernet>ipv4>gre>ipv4>icmp>echo',
  'dhcp_discover': 'ethernet>ipv4>udp>dhcp',
  'dhcp_offer': 'ethernet>ipv4>udp>dhcp',
  'dhcp_overload': 'ethernet>ipv4>udp>dhcp',
  'dns_query': 'ethernet>ipv4>udp>dns',
  'dns_response': 'ethernet>ipv4>udp>dns',
  'rip_response': 'ethernet>ipv4>udp>rip',
  'rip_request': 'ethernet>ipv4>udp>rip',
  'vxlan': 'ethernet>ipv4>udp>vxlan>ethernet>arp',
  'lldp_min': 'ethernet>lldp',
  'lldp_full': 'ethernet>lldp',
  'lldp_two_caps': 'ethernet>lldp',
  'lldp_long_tlv': 'ethernet>lldp',
  'eapol_start': 'ethernet>eapol',
  'eapol_key': 'ethernet>eapol',
  'eapol_logoff': 'ethernet>eapol',
  'eapol_asf_alert': 'ethernet>eapol',
  'eapol_eap_request': 'ethernet>eapol>eap',
  'eapol_eap_success': 'ethernet>eapol>eap',
  'eapol_eap_md5': 'ethernet>eapol>eap',
  'mpls_ip': 'ethernet>mpls',
  'mpls_stack': 'ethernet>mpls>mpls',
  'ip6_udp': 'ethernet>ipv6>udp',
  'ip6_tcp': 'ethernet>ipv6>tcp',
  'ip6_echo': 'ethernet>ipv6>icmpv6>echo',
  'ip6_echo_reply': 'ethernet>ipv6>icmpv6>echo',
  'ip6_ns': 'ethernet>ipv6>icmpv6>NDNeighborSolicitation',
  'ip6_na': 'ethernet>ipv6>icmpv6>NDNeighborAdvertisement',
  'ip6_rs': 'ethernet>ipv6>icmpv6>NDRouterSolicitation',
  'ip6_ra': 'ethernet>ipv6>icmpv6>NDRouterAdvertisement',
  'ip6_unreach': 'ethernet>ipv6>icmpv6>unreach',
  'ip6_hbh_udp': 'ethernet>ipv6>udp',
  'ip6_dstopts_routing': 'ethernet>ipv6>tcp',
  'ip6_fragment': 'ethernet>ipv6',
  'ip6_nonext': 'ethernet>ipv6',
  'ip6_mld': 'ethernet>ipv6>icmpv6',
  'ip6_ra_unknown_opts': 'ethernet>ipv6>icmpv6>NDRouterAdvertisement',
  'ip6_ns_nonce': 'ethernet>ipv6>icmpv6>NDNeighborSolicitation',
  'ip6_too_big': 'ethernet>ipv6>icmpv6>PacketTooBig',
  'ip6_time_exceeded': 'ethernet>ipv6>icmpv6>TimeExceeded',
  'ip6_unreach_short': 'ethernet>ipv6>icmpv6>unreach',
  'ip6_unreach_bare': 'ethernet>ipv6>icmpv6>unreach',
  'ip6_param_problem': 'ethernet>ipv6>icmpv6',
  'ip6_too_big_short': 'ethernet>ipv6>icmpv6>PacketTooBig',
  'tcp_mptcp_capable': 'ethernet>ipv4>tcp',
  'tcp_mptcp_join': 'ethernet>ipv4>tcp',
  'tcp_mptcp_dss': 'ethernet>ipv4>tcp',
  'tcp_mptcp_dss64': 'ethernet>ipv4>tcp',
  'tcp_mptcp_unknown_x10': 'ethernet>ipv4>tcp',
  'tcp_mptcp_dss_zero': 'ethernet>ipv4>tcp',
  'tcp_mptcp_dss_ack0': 'ethernet>ipv4>tcp',
  'tcp_mptcp_dss_ack0_64': 'ethernet>ipv4>tcp',
  'tcp_mptcp_unknown_1': 'ethernet>ipv4>tcp',
  'tcp_mptcp_add_addr': 'ethernet>ipv4>tcp',
  'tcp_mptcp_fastclose': 'ethernet>ipv4>tcp',
}
