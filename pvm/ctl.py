"""
Controller-side helpers: a real of_01.Connection on a FakeSocket, taken
through the real handshake by a scripted peer (bytes built with the
independent encoder).
"""
import struct

from pvm import simnet
from pvm.env import AdapterError
from pvm.ref import ofwire


def boot_controller ():
  """Core + OpenFlow nexus + deferred-sender stub.  Idempotent."""
  import pox.core
  if pox.core.core is None:
    from pvm import env
    env.make_core()
  core = pox.core.core
  import pox.openflow
  if not core.hasComponent("openflow"):
    pox.openflow.launch()
  import pox.openflow.of_01 as of_01
  if not isinstance(of_01.deferredSender, simnet.DeferredSenderStub):
    of_01.deferredSender = simnet.DeferredSenderStub()
  return core, of_01


def phy_port (no, name=None, hw=None, **kw):
  d = dict(port_no=no, hw_addr=hw or bytes([2, 0, 0, 0, no >> 8, no & 255]),
           name=name if name is not None else "p%d" % no, config=0, state=0,
           curr=0, advertised=0, supported=0, peer=0)
  d.update(kw)
  return d


class Peer (object):
  """A scripted switch on the other end of a Connection's socket."""
  def __init__ (self, of_01, name="peer"):
    self.of_01 = of_01
    self.sock = simnet.FakeSocket(name)
    self.con = of_01.Connection(self.sock)
    self.consumed = 0

  def sent_messages (self):
    """Messages the controller wrote since the last call (decoded)."""
    b = bytes(self.sock.sent[self.consumed:])
    out = []
    off = 0
    while off < len(b):
      try:
        m, off2 = ofwire.dec_message(b, off)
      except ofwire.WireError:
        break
      out.append(m); off = off2
    self.consumed += off
    return out

  def feed (self, data):
    """Deliver bytes and let the connection read until drained.
    Returns False if the connection asked to be closed."""
    self.sock.feed(data)
    guard = 0
    while self.sock.rx:
      if self.con.read() is False:
        return False
      guard += 1
      if guard > 100000: raise AdapterError("Connection.read does not drain")
    return True

  def handshake (self, dpid, ports, n_buffers=0, early=b"", barrier="reply", late=b""):
    """Full handshake; returns True when ConnectionUp should have fired.
    `early`: bytes the switch sends between its features reply and the
    barrier reply (e.g. port-status messages).  barrier="error": the switch
    does not know barriers and says so (BAD_REQUEST / BAD_TYPE with the
    barrier's xid), which completes the handshake just the same."""
    self.feed(ofwire.enc_message("hello", dict(xid=0)))
    self.sent_messages()
    fr = ofwire.enc_message("features_reply", dict(
      xid=1, datapath_id=dpid, n_buffers=n_buffers, n_tables=1,
      capabilities=0, actions=0xfff, ports=ports))
    self.feed(fr)
    bx = None
    for m in self.sent_messages():
      if m["name"] == "barrier_request": bx = m["xid"]
    if bx is None:
      raise AdapterError("no barrier request after features reply")
    if early: self.feed(early)
    # (`late`: bytes that follow the handshake-completing answer in the same
    #  read - the switch does not wait for the controller)
    if barrier == "error":
      self.feed(ofwire.enc_message("error", dict(
        xid=bx, type=1, code=1,
        data=ofwire.enc_message("barrier_request", dict(xid=bx)))) + late)
    else:
      self.feed(ofwire.enc_message("barrier_reply", dict(xid=bx)) + late)
    return True
