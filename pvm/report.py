"""
What a worker shard reports back: counts, distinct-case hashes, samples,
monitor counters and monitor firings (each with a mechanism key and a
replayable witness).
"""
import hashlib
import json
import struct

MAX_HASHES = 400000       # per shard; distinct count is conservative above this
MAX_WITNESS_PER_KEY = 1
MAX_SAMPLES = 6


def jsonable (o):
  if isinstance(o, (bytes, bytearray)):
    return {"hex": bytes(o).hex()}
  if isinstance(o, dict):
    return {str(k): jsonable(v) for k, v in o.items()}
  if isinstance(o, (list, tuple, set, frozenset)):
    return [jsonable(x) for x in o]
  if isinstance(o, (int, float, str, bool)) or o is None:
    return o
  return repr(o)


def unjson (o):
  if isinstance(o, dict):
    if len(o) == 1 and "hex" in o:
      return bytes.fromhex(o["hex"])
    return {k: unjson(v) for k, v in o.items()}
  if isinstance(o, list):
    return [unjson(x) for x in o]
  return o


class Report (object):
  def __init__ (self):
    self.evaluations = 0
    self.hashes = set()
    self.hash_overflow = 0
    self.counters = {}
    self.samples = []
    self.violations = {}    # key -> {"count", "what", "witness"}
    self.inconclusive = []
    self.extra = {}

  def case (self, distinct_key=None, nontrivial=True, n=1):
    """One evaluated case.  distinct_key identifies it among nontrivial ones."""
    self.evaluations += n
    if nontrivial and distinct_key is not None:
      if len(self.hashes) < MAX_HASHES:
        if not isinstance(distinct_key, bytes):
          distinct_key = repr(distinct_key).encode()
        self.hashes.add(hashlib.blake2b(distinct_key, digest_size=8).digest())
      else:
        self.hash_overflow += 1

  def count (self, name, n=1):
    self.counters[name] = self.counters.get(name, 0) + n

  def maxi (self, name, v):
    name = "max:" + name
    if v > self.counters.get(name, 0): self.counters[name] = v

  def sample (self, obj, force=False):
    if len(self.samples) < MAX_SAMPLES or force:
      self.samples.append(jsonable(obj))

  def violation (self, key, what, witness):
    """
    key: mechanism key (stable, no random values)
    what: human-readable description of what was observed vs expected
    witness: JSON-able case that the check's replay() can re-execute
    """
    v = self.violations.get(key)
    if v is None:
      self.violations[key] = {"count": 1, "what": str(what)[:2000],
                              "witness": jsonable(witness)}
    else:
      v["count"] += 1
      # keep the smallest witness
      try:
        a = len(json.dumps(jsonable(witness)))
        b = len(json.dumps(v["witness"]))
        if a < b:
          v["witness"] = jsonable(witness)
          v["what"] = str(what)[:2000]
      except Exception:
        pass

  def inconclusive_because (self, reason):
    self.inconclusive.append(str(reason))

  def dump (self, path):
    with open(path + ".hashes", "wb") as f:
      f.write(b"".join(sorted(self.hashes)))
    d = dict(evaluations=self.evaluations, hash_overflow=self.hash_overflow,
             counters=self.counters, samples=self.samples,
             violations=self.violations, inconclusive=self.inconclusive,
             extra=jsonable(self.extra))
    with open(path, "w") as f:
      json.dump(d, f)


def load_hashes (path):
  with open(path, "rb") as f:
    b = f.read()
  return {b[i:i+8] for i in range(0, len(b), 8)}
