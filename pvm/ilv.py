"""
E3: interleaving controller for real threads.

Threads created through the controlled Thread class run one at a time: a
single token is passed at *yield points* (sys.monitoring LINE events in
chosen code objects) and at blocking operations, which are modelled, not
performed: controlled Lock / RLock / Event and a controlled select function
register a predicate and the thread is simply not schedulable until it
holds.  A timed wait is released by its timeout only when no thread at all
is enabled; that event is logged (it is what a lost wake-up looks like).

The schedule is a list of small integers (index into the sorted list of
enabled logical thread ids at each decision point) and is the replay
artefact.  Logical ids are assigned by the creating thread in program
order, so a schedule means the same thing on every run.
"""
import select as _select
import sys
import threading as _threading
import time as _time

TOOL = 3
_tool_on = [False]


class Deadlock (Exception):
  pass


class RunAborted (BaseException):
  """Raised inside controlled threads to unwind them when a run is torn down."""
  pass


class CThread (object):
  """Stands in for threading.Thread inside the code under test."""
  def __init__ (self, group=None, target=None, name=None, args=(), kwargs=None,
                daemon=None):
    self._ctl = Controller.current
    self._target = target
    self._args = args
    self._kwargs = kwargs or {}
    self.daemon = True
    self.name = name or "cthread"
    self._real = None
    self.lid = None
    self._started = False
    self._finished = False

  def run (self):
    if self._target is not None:
      self._target(*self._args, **self._kwargs)

  def start (self):
    self._ctl.start_thread(self)

  def join (self, timeout=None):
    self._ctl.block(lambda: self._finished, timeout, "join")

  def is_alive (self):
    return self._started and not self._finished

  isAlive = is_alive


class CLock (object):
  def __init__ (self):
    self._ctl = Controller.current
    self._owner = None
  def acquire (self, blocking=True, timeout=-1):
    c = self._ctl
    me = c.me()
    if me is None:
      # not a controlled thread (harness): plain semantics
      if self._owner is None: self._owner = "harness"; return True
      return False
    c.yield_point("lock.acquire")
    if self._owner is not None:
      if not blocking: return False
      ok = c.block(lambda: self._owner is None,
                   None if timeout is None or timeout < 0 else timeout,
                   "lock")
      if not ok: return False
    self._owner = me
    return True
  def release (self):
    self._owner = None
    c = self._ctl
    if c.me() is not None: c.yield_point("lock.release")
  def locked (self):
    return self._owner is not None
  __enter__ = acquire
  def __exit__ (self, *a):
    self.release()


class CRLock (object):
  def __init__ (self):
    self._ctl = Controller.current
    self._owner = None
    self._count = 0
  def acquire (self, blocking=True, timeout=-1):
    c = self._ctl
    me = c.me()
    if me is None: me = "harness"
    else: c.yield_point("rlock.acquire")
    if self._owner == me:
      self._count += 1; return True
    if self._owner is not None:
      if not blocking or me == "harness": return False
      ok = c.block(lambda: self._owner is None,
                   None if timeout is None or timeout < 0 else timeout, "rlock")
      if not ok: return False
    self._owner = me; self._count = 1
    return True
  def release (self):
    self._count -= 1
    if self._count <= 0:
      self._owner = None; self._count = 0
      c = self._ctl
      if c.me() is not None: c.yield_point("rlock.release")
  __enter__ = acquire
  def __exit__ (self, *a):
    self.release()


class CEvent (object):
  def __init__ (self):
    self._ctl = Controller.current
    self._flag = False
  def is_set (self): return self._flag
  isSet = is_set
  def set (self):
    self._flag = True
    c = self._ctl
    if c.me() is not None: c.yield_point("event.set")
  def clear (self):
    self._flag = False
  def wait (self, timeout=None):
    c = self._ctl
    if c.me() is None:
      return self._flag
    c.yield_point("event.wait")
    if self._flag: return True
    return c.block(lambda: self._flag, timeout, "event")


class ThreadingShim (object):
  """Stands in for the `threading` module inside recoco / of_01."""
  def __init__ (self, ctl):
    self._ctl = ctl
    self.Thread = CThread
    self.Lock = CLock
    self.RLock = CRLock
    self.Event = CEvent
    self.local = _threading.local
    self.Condition = _threading.Condition
    self._MainThread = _threading._MainThread
  def current_thread (self):
    t = self._ctl.me_thread()
    if t is not None: return t
    return _threading.current_thread()
  currentThread = current_thread


class TState (object):
  __slots__ = ("lid", "cthread", "status", "pred", "deadline", "why", "cond",
               "timed_out")


class Controller (object):
  current = None

  def __init__ (self, codes, schedule=None, policy="nonpreemptive", rng=None,
                clock=None, max_steps=200000, pct_points=None, instr_codes=()):
    """
    codes: code objects whose lines are yield points
    schedule: list of choices to replay (prefix); afterwards `policy` decides
    policy: 'nonpreemptive' | 'random' | 'pct'
    """
    self.codes = list(codes)
    # code objects in which every *bytecode instruction* is a yield point (a
    # thread can lose the processor between the load of an attribute and the
    # call made on it, inside one source line)
    self.instr_codes = list(instr_codes)
    self.schedule = list(schedule or [])
    self.policy = policy
    self.rng = rng
    self.clock = clock
    self.mutex = _threading.Lock()
    self.threads = {}         # lid -> TState
    self.by_ident = {}        # real ident -> TState
    self.next_lid = 1
    self.token = None         # lid holding the token
    self.trace = []           # (n_enabled, chosen_index, current_was_enabled)
    self.sites = {}           # site -> times a switch was forced there
    self.timeouts_fired = []  # (lid, why)
    self.steps = 0
    self.max_steps = max_steps
    self.aborting = False
    self.failure = None
    self.done_evt = _threading.Event()
    self.on_idle = None       # callback when nobody is enabled: return True to go on
    self.on_timeout = None    # callback(lid, why) when a timed wait is released
    self.preemptions = 0
    self.prio = {}
    self.pct_points = set(pct_points or ())
    self.sig = []             # interleaving signature: sequence of lids at switches
    Controller.current = self
    self._tls = _threading.local()

  # ---------------------------------------------------------------- plumbing
  def me (self):
    st = self.by_ident.get(_threading.get_ident())
    return st.lid if st is not None else None

  def me_thread (self):
    st = self.by_ident.get(_threading.get_ident())
    return st.cthread if st is not None else None

  def install_monitoring (self):
    mon = sys.monitoring
    if not _tool_on[0]:
      mon.use_tool_id(TOOL, "pvm-ilv"); _tool_on[0] = True
    mon.register_callback(TOOL, mon.events.LINE, self._on_line)
    mon.register_callback(TOOL, mon.events.INSTRUCTION, self._on_instr)
    for c in self.codes:
      mon.set_local_events(TOOL, c, mon.events.LINE)
    for c in self.instr_codes:
      mon.set_local_events(TOOL, c, mon.events.LINE | mon.events.INSTRUCTION)

  def remove_monitoring (self):
    mon = sys.monitoring
    for c in self.codes + self.instr_codes:
      try: mon.set_local_events(TOOL, c, 0)
      except Exception: pass
    try: mon.register_callback(TOOL, mon.events.LINE, None)
    except Exception: pass
    try: mon.register_callback(TOOL, mon.events.INSTRUCTION, None)
    except Exception: pass

  def _on_line (self, code, lineno):
    if getattr(self._tls, "busy", False): return
    st = self.by_ident.get(_threading.get_ident())
    if st is None: return
    self.yield_point("%s:%d" % (code.co_name, lineno))

  def _on_instr (self, code, offset):
    if getattr(self._tls, "busy", False): return
    st = self.by_ident.get(_threading.get_ident())
    if st is None: return
    self.yield_point("%s@%d" % (code.co_name, offset))

  # ---------------------------------------------------------------- threads
  def start_thread (self, cthread):
    """Called by the creating thread (or the harness)."""
    st = TState()
    st.lid = self.next_lid; self.next_lid += 1
    st.cthread = cthread
    st.status = "ready"; st.pred = None; st.deadline = None; st.why = None
    st.cond = _threading.Condition(self.mutex)
    st.timed_out = False
    cthread.lid = st.lid
    cthread._started = True
    self.threads[st.lid] = st
    def body ():
      self.by_ident[_threading.get_ident()] = st
      with self.mutex:
        while self.token != st.lid and not self.aborting:
          st.cond.wait()
      try:
        if not self.aborting:
          cthread.run()
      except RunAborted:
        pass
      except BaseException as e:
        if self.failure is None:
          import traceback
          self.failure = "thread %d died: %s" % (st.lid, traceback.format_exc()[-800:])
      finally:
        cthread._finished = True
        self._tls.busy = True
        with self.mutex:
          st.status = "done"
          if not self.aborting:
            self._pass_token(st, finished=True)
    t = _threading.Thread(target=body, name="ilv-%d" % st.lid)
    t.daemon = True
    cthread._real = t
    t.start()
    if self.me() is not None:
      self.yield_point("thread.start")

  def enabled (self):
    out = []
    for lid in sorted(self.threads):
      st = self.threads[lid]
      if st.status == "ready": out.append(lid)
      elif st.status == "blocked":
        try:
          ok = st.pred()
        except Exception:
          ok = True
        if ok: out.append(lid)
    return out

  def _choose (self, cur, en):
    """Pick the next thread among en (sorted lids)."""
    cur_enabled = cur in en
    if len(en) == 1:
      return en[0]
    k = len(self.trace)
    if k < len(self.schedule):
      idx = self.schedule[k]
      if idx >= len(en): idx = len(en) - 1
    elif self.policy == "random":
      idx = self.rng.randrange(len(en))
    elif self.policy == "pct":
      if self.steps in self.pct_points and cur_enabled:
        self.prio[cur] = min(list(self.prio.values()) + [0.0]) - 1
      best = max(en, key=lambda l: self.prio.setdefault(l, self.rng.random()))
      idx = en.index(best)
    else:
      idx = en.index(cur) if cur_enabled else 0
    self.trace.append((len(en), idx, cur_enabled, en.index(cur) if cur_enabled else -1))
    return en[idx]

  def _pass_token (self, st, finished=False, site=None):
    """Called with mutex held by the thread that currently holds the token."""
    while True:
      en = self.enabled()
      if en: break
      # nobody can run: release the timed waiter with the earliest deadline
      waiting = [t for t in self.threads.values() if t.status == "blocked"]
      if not waiting:
        self.token = None
        self.done_evt.set()
        return
      timed = [t for t in waiting if t.deadline is not None]
      go_on = True
      if self.on_idle is not None:
        try:
          go_on = self.on_idle(self)
        except Exception as e:
          self.failure = "on_idle: %r" % (e,); go_on = False
      if not go_on or not timed:
        if go_on and not timed:
          self.failure = self.failure or ("deadlock: threads %r blocked on %r" %
                                          ([t.lid for t in waiting],
                                           [t.why for t in waiting]))
        self.token = None
        self.done_evt.set()
        return
      t = min(timed, key=lambda x: (x.deadline, x.lid))
      if self.clock is not None and t.deadline > self.clock.now:
        self.clock.now = t.deadline
      t.timed_out = True
      t.pred = lambda: True
      self.timeouts_fired.append((t.lid, t.why))
      if self.on_timeout is not None:
        try: self.on_timeout(t.lid, t.why)
        except Exception as e: self.failure = self.failure or "on_timeout: %r" % (e,)
    nxt = self._choose(st.lid, en)
    if nxt != st.lid:
      if st.lid in en: self.preemptions += 1
      if site is not None: self.sites[site] = self.sites.get(site, 0) + 1
      self.sig.append(nxt)
    self.token = nxt
    if nxt != st.lid:
      self.threads[nxt].cond.notify()

  def yield_point (self, site):
    st = self.by_ident.get(_threading.get_ident())
    if st is None or self.aborting:
      if self.aborting and st is not None: raise RunAborted()
      return
    if getattr(self._tls, "busy", False): return
    self._tls.busy = True
    try:
      with self.mutex:
        self.steps += 1
        if self.steps > self.max_steps:
          self.failure = self.failure or "step limit exceeded (livelock?)"
          self.aborting = True
          self.done_evt.set()
          for t in self.threads.values(): t.cond.notify()
          raise RunAborted()
        self._pass_token(st, site=site)
        while self.token != st.lid and not self.aborting:
          st.cond.wait()
        if self.aborting: raise RunAborted()
    finally:
      self._tls.busy = False

  def block (self, pred, timeout, why):
    """Current controlled thread blocks until pred() or (timed) timeout."""
    st = self.by_ident.get(_threading.get_ident())
    if st is None:
      return pred()
    self._tls.busy = True
    try:
      with self.mutex:
        st.status = "blocked"; st.pred = pred; st.why = why
        st.timed_out = False
        if timeout is None: st.deadline = None
        else:
          st.deadline = (self.clock.now if self.clock is not None else 0.0) + timeout
        self._pass_token(st, site="block:" + why)
        while self.token != st.lid and not self.aborting:
          st.cond.wait()
        st.status = "ready"; st.pred = None; st.deadline = None
        if self.aborting: raise RunAborted()
        return not st.timed_out
    finally:
      self._tls.busy = False

  # ---------------------------------------------------------------- select
  def make_select (self, real_select=None):
    real_select = real_select or _select.select
    def cselect (r, w, x, timeout=None):
      r = list(r); w = list(w); x = list(x)
      def poll ():
        try:
          return real_select(r, w, x, 0)
        except (OSError, ValueError):
          return ([], [], [])
      if self.me() is None:
        return poll()
      self.yield_point("select")
      res = poll()
      if res[0] or res[1] or res[2]: return res
      def pred ():
        a = poll()
        return bool(a[0] or a[1] or a[2])
      self.block(pred, timeout, "select")
      return poll()
    return cselect

  # ---------------------------------------------------------------- running
  def run (self, main, wall_timeout=60):
    """
    main(): executed as controlled thread #1.  Returns when every controlled
    thread has finished or nothing can run any more.
    """
    self.install_monitoring()
    try:
      t = CThread(target=main, name="main")
      with self.mutex:
        pass
      self.start_thread(t)
      with self.mutex:
        self.token = t.lid
        self.threads[t.lid].cond.notify()
      ok = self.done_evt.wait(wall_timeout)
      if not ok:
        self.failure = self.failure or "wall-clock watchdog"
        self.watchdog = True
      return ok
    finally:
      self.teardown()

  def teardown (self):
    with self.mutex:
      self.aborting = True
      for t in self.threads.values(): t.cond.notify()
    for t in self.threads.values():
      r = t.cthread._real
      if r is not None and r is not _threading.current_thread():
        r.join(2)
    self.remove_monitoring()
    if Controller.current is self: Controller.current = None

  def signature (self):
    return tuple(self.sig)


def shutdown ():
  if _tool_on[0]:
    try:
      sys.monitoring.register_callback(TOOL, sys.monitoring.events.LINE, None)
      sys.monitoring.register_callback(TOOL, sys.monitoring.events.INSTRUCTION, None)
      sys.monitoring.free_tool_id(TOOL)
    except Exception:
      pass
    _tool_on[0] = False


# ------------------------------------------------------------------ search

def children (trace, prefix_len, bound):
  """
  Alternative schedules reachable by changing one decision at or after
  prefix_len in an executed trace, respecting the preemption bound.
  trace: [(n_enabled, chosen_idx, cur_enabled, cur_idx)]
  """
  out = []
  pre = 0
  choices = [t[1] for t in trace]
  for i, (n, chosen, cur_en, cur_idx) in enumerate(trace):
    if i >= prefix_len:
      for c in range(n):
        if c == chosen: continue
        p = pre + (1 if (cur_en and c != cur_idx) else 0)
        if p <= bound:
          out.append(choices[:i] + [c])
    if cur_en and chosen != cur_idx: pre += 1
  return out
