"""
E2: virtual time, scripted in-memory sockets and a single-threaded driver
for the real recoco scheduler, of_01 controller side and SoftwareSwitch side.

Everything here exists to *drive* the real code; oracles live in the checks.
"""
import errno
import os
import select as _select
import socket as _socket
import time as _time

from pvm.env import AdapterError, Inconclusive


# --------------------------------------------------------------------------
# virtual clock

class VClock (object):
  def __init__ (self, start=1000.0):
    self.now = float(start)
    self._real = None

  def time (self):
    return self.now

  def advance (self, dt):
    assert dt >= 0
    self.now += dt

  def install (self):
    if self._real is None:
      self._real = _time.time
    _time.time = self.time

  def uninstall (self):
    if self._real is not None:
      _time.time = self._real
      self._real = None


# --------------------------------------------------------------------------
# scripted sockets

_next_fd = [100000]


class SockErr (OSError):
  pass


class FakeSocket (object):
  """
  One end of an in-memory byte pipe with the socket surface POX uses.

  recv_script: list of ints; the next recv returns at most that many bytes
    (empty list = whatever is asked for).
  send_script: list of outcomes for successive send() calls:
    int k >= 0   accept at most k bytes
    "all"        accept everything
    "eagain"     raise EAGAIN
    "fatal"      raise ECONNRESET (and every later call too)
    (exhausted script = "all")
  Everything accepted by send() is appended to .sent (a log) and delivered
  to the peer's receive buffer if a peer is attached.
  """
  def __init__ (self, name="sock"):
    self.name = name
    self.rx = bytearray()
    self.peer = None
    self.sent = bytearray()
    self.send_log = []        # (outcome, nbytes offered, nbytes accepted)
    self.pulled = 0           # bytes handed out by recv so far
    self.recv_script = []
    self.send_script = []
    self.eof = False          # peer closed: recv returns b'' when drained
    self.recv_error = None    # errno to raise on next recv
    self.closed = False
    self.shut_rd = False
    self.shut_wr = False
    self.dead = False         # a fatal send error happened
    self.sends_after_fatal = 0
    self.sticky_fatal = True  # once dead, every later send fails too
    self.bytes_after_fatal = 0
    self._fd = _next_fd[0]; _next_fd[0] += 1
    self.blocking = False
    self.on_send = None

  # -- wiring
  @staticmethod
  def pair (a="a", b="b"):
    x = FakeSocket(a); y = FakeSocket(b)
    x.peer = y; y.peer = x
    return x, y

  def feed (self, data):
    """Bytes arrive from the network."""
    self.rx += data

  # -- socket API
  def fileno (self): return self._fd
  def setblocking (self, b): self.blocking = bool(b)
  def settimeout (self, t): pass
  def setsockopt (self, *a): pass
  def getpeername (self):
    if getattr(self, "reset_by_peer", False):
      # (what a socket says once the other side has reset the connection)
      raise SockErr(errno.ENOTCONN, "Transport endpoint is not connected")
    return ("10.0.0.%d" % (self._fd % 250 + 1), 6633)
  def getsockname (self): return ("10.0.0.254", 40000 + self._fd % 1000)

  def recv (self, n, flags=0):
    if self.closed:
      raise SockErr(errno.EBADF, "Bad file descriptor")
    if self.recv_error is not None:
      e = self.recv_error; self.recv_error = None
      raise SockErr(e, os.strerror(e))
    if not self.rx:
      if getattr(self, "reset_by_peer", False):
        raise SockErr(errno.ECONNRESET, "Connection reset by peer")
      if self.eof or self.shut_rd: return b""
      raise BlockingIOError(errno.EAGAIN, "Resource temporarily unavailable")
    k = n
    if self.recv_script:
      k = min(n, max(1, self.recv_script.pop(0)))
    if flags & getattr(_socket, "MSG_PEEK", 2):
      return bytes(self.rx[:k])
    d = bytes(self.rx[:k])
    del self.rx[:k]
    self.pulled += len(d)
    return d

  def send (self, data, flags=0):
    if self.dead:
      self.sends_after_fatal += 1
    if self.closed:
      raise SockErr(errno.EBADF, "Bad file descriptor")
    if self.shut_wr:
      raise SockErr(errno.EPIPE, "Broken pipe")
    if getattr(self, "reset_by_peer", False):
      self.dead = True
      raise SockErr(errno.ECONNRESET, "Connection reset by peer")
    if self.send_script and self.send_script[0] == "eagain_blocked":
      # send buffer full until unblock(): not writable, and a write anyway
      # gets EAGAIN
      self.send_log.append(("eagain_blocked", len(data), 0))
      raise BlockingIOError(errno.EAGAIN, "Resource temporarily unavailable")
    out = self.send_script.pop(0) if self.send_script else "all"
    if self.dead and self.sticky_fatal: out = "fatal"
    if self.dead and not str(out).startswith("fatal") and out != "eagain":
      k = len(data) if out == "all" else min(len(data), int(out))
      self.bytes_after_fatal += k
    if out == "eagain":
      self.send_log.append(("eagain", len(data), 0))
      raise BlockingIOError(errno.EAGAIN, "Resource temporarily unavailable")
    if out == "fatal" or (isinstance(out, str) and out.startswith("fatal:")):
      # "fatal:<errno name>" picks the error (the default is ECONNRESET)
      self.dead = True
      self.send_log.append(("fatal", len(data), 0))
      en = getattr(errno, out[6:], errno.ECONNRESET) if out != "fatal" else errno.ECONNRESET
      raise SockErr(en, os.strerror(en))
    k = len(data) if out == "all" else min(len(data), int(out))
    acc = bytes(data[:k])
    self.sent += acc
    self.send_log.append((out, len(data), k))
    if self.peer is not None and not self.peer.closed:
      self.peer.rx += acc
    if self.on_send is not None:
      self.on_send(self, acc)
    return k

  def unblock (self):
    """The peer drained its side: an "eagain_blocked" head entry goes away."""
    if self.send_script and self.send_script[0] == "eagain_blocked":
      self.send_script.pop(0)
      return True
    return False

  def sendall (self, data):
    self.send(data)

  def shutdown (self, how):
    if how in (_socket.SHUT_RD, _socket.SHUT_RDWR): self.shut_rd = True
    if how in (_socket.SHUT_WR, _socket.SHUT_RDWR):
      self.shut_wr = True
      if self.peer is not None: self.peer.eof = True

  def close (self):
    self.closed = True
    if self.peer is not None: self.peer.eof = True

  # -- readiness (used by virtual_select)
  def readable (self):
    if self.closed: return True
    if getattr(self, "reset_by_peer", False): return True
    return bool(self.rx) or self.eof or self.recv_error is not None \
        or self.shut_rd

  def writable (self):
    if self.closed: return True
    if self.send_script and self.send_script[0] == "eagain_blocked":
      return False
    return True

  def __repr__ (self):
    return "<FakeSocket %s>" % self.name


class FakeListener (object):
  """Listening socket whose accept() hands out queued FakeSockets."""
  def __init__ (self):
    self.pending = []
    self._fd = _next_fd[0]; _next_fd[0] += 1
    self.closed = False
  def setsockopt (self, *a): pass
  def bind (self, addr): self.addr = addr
  def listen (self, n): pass
  def setblocking (self, b): pass
  def fileno (self): return self._fd
  def accept (self):
    if not self.pending:
      raise BlockingIOError(errno.EAGAIN, "no connection")
    s = self.pending.pop(0)
    return s, s.getpeername()
  def close (self): self.closed = True
  def readable (self): return bool(self.pending)
  def writable (self): return False
  def connect_from (self, sock):
    self.pending.append(sock)


class SocketModuleShim (object):
  """Stands in for the `socket` module inside of_01."""
  def __init__ (self):
    self.listeners = []
    for n in dir(_socket):
      if n.isupper() or n in ("error", "timeout", "gaierror", "herror"):
        setattr(self, n, getattr(_socket, n))
  def socket (self, *a, **k):
    l = FakeListener()
    self.listeners.append(l)
    return l


def _sock_of (x):
  """The FakeSocket/FakeListener behind a selectable, or None if real."""
  for attr in (None, "sock", "socket"):
    o = x if attr is None else getattr(x, attr, None)
    if isinstance(o, (FakeSocket, FakeListener)): return o
  return None


def make_virtual_select (clock, real_select=None, stats=None):
  """
  select() replacement: fake sockets report readiness from their buffers,
  real descriptors (pingers) are polled with timeout 0; when nothing is
  ready the virtual clock jumps by the timeout and ([],[],[]) is returned,
  i.e. the caller believes its timeout expired.
  """
  real_select = real_select or _select.select
  def vselect (rl, wl, xl, timeout=None):
    rl = list(rl); wl = list(wl); xl = list(xl)
    ro = []; wo = []; xo = []
    real_r = []; real_w = []
    # a closed socket has no descriptor any more: select() refuses the whole
    # call, exactly as the real one does (fileno() is -1)
    for x in rl + wl + xl:
      s = _sock_of(x)
      if isinstance(s, FakeSocket) and s.closed:
        if stats is not None: stats["closed_in_select"] = stats.get("closed_in_select", 0) + 1
        raise ValueError("file descriptor cannot be a negative integer (-1)")
    for x in rl:
      s = _sock_of(x)
      if s is None: real_r.append(x)
      elif s.readable(): ro.append(x)
    for x in wl:
      s = _sock_of(x)
      if s is None: real_w.append(x)
      elif s.writable(): wo.append(x)
    if real_r or real_w:
      try:
        a, b, c = real_select(real_r, real_w, [], 0)
      except (OSError, ValueError):
        # (a caller that hands in real sockets of its own wants to see what
        #  the select function under test does with them)
        if stats is not None and stats.get("strict_real"): raise
        # one stale descriptor (a pinger whose owner is gone) must not hide
        # the readiness of the others: poll them one by one
        a, b = [], []
        for x in real_r:
          try:
            if real_select([x], [], [], 0)[0]: a.append(x)
          except (OSError, ValueError):
            if stats is not None: stats["bad_fds"] = stats.get("bad_fds", 0) + 1
        for x in real_w:
          try:
            if real_select([], [x], [], 0)[1]: b.append(x)
          except (OSError, ValueError):
            pass
      ro += a; wo += b
    if not ro and not wo and not xo:
      if stats is not None: stats["timeouts"] = stats.get("timeouts", 0) + 1
      if timeout:
        clock.advance(timeout)
    return ro, wo, xo
  return vselect


class DeferredSenderStub (object):
  """Stands in for of_01.deferredSender when its thread is not wanted."""
  def __init__ (self):
    self.sending = False
    self.queued = []
    self.killed = []
  def send (self, con, data):
    self.queued.append((con, data))
  def kill (self, con):
    self.killed.append(con)


# --------------------------------------------------------------------------
# the world: one core, un-threaded scheduler, virtual time

class World (object):
  """
  One per process.  Creates the core with an un-threaded scheduler, installs
  the virtual clock and the virtual select, and (optionally) the OpenFlow
  controller side on a fake listener.
  """
  def __init__ (self, start=1000.0, epoll=False):
    from pvm import env
    self.clock = VClock(start)
    self.clock.install()
    self.core = env.make_core(threaded=False, epoll=epoll)
    import pox.lib.recoco.recoco as rc
    self.rc = rc
    self.sched = self.core.scheduler
    self.hub = self.sched._selectHub
    self.stats = {}
    try:
      inner = self.hub._select_func
      self.hub._select_func = make_virtual_select(self.clock, inner, self.stats)
    except AttributeError as e:
      raise AdapterError("SelectHub._select_func: %r" % (e,))
    self.of_task = None
    self.listener = None
    self.steps = 0
    self.hub_pass = self.hub.idle

  def hub_as_its_own_thread (self):
    """
    The select hub configured as with threaded_selecthub=True, its thread
    replaced by the driver: idle() and break_idle() are those of the threaded
    mode (an event, no ping), and a pass of the hub's loop is made by
    hub_pass() whenever the driver decides the hub thread gets the
    processor - one of the interleavings the two threads can have.
    """
    class _Event (object):
      def __init__ (self): self.n = 0
      def set (self): self.n += 1
      def clear (self): pass
      def wait (self, timeout=None): return True
    hub = self.hub
    hub._thread = object()
    hub._event = _Event()
    rets = {}
    self.hub_pass = lambda: hub._select(hub._tasks, rets)

  # -- controller side
  def start_openflow (self, deferred_stub=True):
    import pox.openflow
    pox.openflow.launch()
    import pox.openflow.of_01 as of_01
    self.of_01 = of_01
    self.sockshim = SocketModuleShim()
    of_01.socket = self.sockshim
    if deferred_stub:
      of_01.deferredSender = DeferredSenderStub()
    if of_01.of._logger is None:
      of_01.of._logger = self.core.getLogger("libopenflow_01")
    return self.restart_openflow_task()

  def restart_openflow_task (self):
    """(Re)create the controller's listening task (after it died)."""
    of_01 = self.of_01
    nbefore = len(self.sockshim.listeners)
    t = of_01.OpenFlow_01_Task(port=6633, address="0.0.0.0")
    if not self.core.hasComponent("of_01"):
      self.core.register("of_01", t)
    t.start()
    self.of_task = t
    self.run(max_steps=20)
    if len(self.sockshim.listeners) <= nbefore:
      raise AdapterError("OpenFlow_01_Task did not create a listener")
    self.listener = self.sockshim.listeners[-1]
    return t

  def connect_switch_socket (self, name="sw"):
    """Returns (controller-side socket, switch-side socket), queued on the
    listener; the controller picks it up at the next run()."""
    c, s = FakeSocket.pair(name + ":ctl", name + ":sw")
    self.listener.connect_from(c)
    return c, s

  # -- driver
  def pending_io (self):
    for (t, rl, wl, xl, to) in list(self.hub._tasks.values()):
      for x in (rl or []):
        s = _sock_of(x)
        if s is not None and s.readable(): return True
      for x in (wl or []):
        s = _sock_of(x)
        if s is not None and s.writable(): return True
    return False

  def step (self):
    """One scheduler cycle (idling the hub first if nothing is ready)."""
    if not self.sched._ready:
      self.hub_pass()
    self.sched.cycle()
    self.steps += 1

  def run (self, max_steps=2000, until=None):
    """
    Run until quiescent: nothing ready, no fake socket readable for a
    waiting task, nothing in the hub's incoming queue.  Virtual time does
    not advance here (idle() is only called when something is pending).
    """
    n = 0
    while n < max_steps:
      if until is not None and until(): return n
      if self.sched._ready:
        self.sched.cycle(); n += 1; self.steps += 1
        continue
      if not self.hub._incoming.empty() or self.pending_io() \
         or self._pinger_ready():
        t0 = self.clock.now
        self._idle_no_time()
        n += 1
        continue
      break
    return n

  def _pinger_ready (self):
    fds = [self.hub._pinger]; wfds = []
    for (t, rl, wl, xl, to) in list(self.hub._tasks.values()):
      for x in (rl or []):
        if _sock_of(x) is None: fds.append(x)
      for x in (wl or []):
        if _sock_of(x) is None: wfds.append(x)
    try:
      r, wr, _ = _select.select(fds, wfds, [], 0)
    except (OSError, ValueError):
      return False
    return bool(r or wr)

  def _idle_no_time (self):
    """
    hub.idle() without letting virtual time move: the hub's own pinger is
    pinged first, so its select() returns at once through the "I/O event"
    path (due timers are still expired, new registrations picked up, ready
    descriptors dispatched) and never through the "timeout elapsed" path,
    which would hand a timeout to a task whose deadline has not come.
    """
    t0 = self.clock.now
    self.hub._pinger.ping()
    self.hub_pass()
    if self.clock.now != t0:
      raise AdapterError("virtual time moved inside a zero-time idle "
                         "(stats %r)" % (self.stats,))

  def next_deadline (self):
    d = None
    for (t, rl, wl, xl, to) in list(self.hub._tasks.values()):
      if to is not None and (d is None or to < d): d = to
    return d

  def advance (self, dt, max_steps=100000):
    """
    Let `dt` seconds of virtual time pass, firing every timer/timeout that
    becomes due, in deadline order, and running the scheduler to quiescence
    after each.
    """
    end = self.clock.now + dt
    n = self.run(max_steps)
    while n < max_steps:
      d = self.next_deadline()
      if d is None or d > end: break
      if d > self.clock.now: self.clock.now = d
      # the hub expires what is due now (and nothing else: see _idle_no_time)
      self._idle_no_time()
      n += 1
      n += self.run(max_steps - n)
    self.clock.now = end
    n += self.run(max_steps - n)
    return n


# --------------------------------------------------------------------------
# switch side helpers

class SwitchPeer (object):
  """
  A real SoftwareSwitch (optionally with ExpireMixin) attached through the
  real RecocoIOLoop / RecocoIOWorker / OFConnection to a FakeSocket.
  """
  def __init__ (self, world, dpid, sock, ports=4, expire=False, ioloop=None,
                **kw):
    import pox.datapaths.switch as sw
    import pox.lib.ioworker as iow
    self.sw_mod = sw
    self.world = world
    if ioloop is None:
      # one I/O loop per world, as in one switch process: a loop per switch
      # per case is never stopped and its pinger descriptors pile up until
      # select() cannot take them any more
      ioloop = getattr(world, "_shared_ioloop", None)
      if ioloop is None or not getattr(ioloop, "running", True):
        ioloop = iow.RecocoIOLoop()
        ioloop.start()
        world._shared_ioloop = ioloop
    self.ioloop = ioloop
    if expire:
      cls = type("ExpiringSwitch", (sw.ExpireMixin, sw.SoftwareSwitch), {})
    else:
      cls = sw.SoftwareSwitch
    self.switch = cls(dpid, ports=ports, **kw)
    # A second switch, made later and never used, so that the one under
    # observation is not the newest object of its class: state that is shared
    # between switch instances (a class-level table filled in __init__) then
    # shows as the wrong switch acting or answering.
    self._decoy = sw.SoftwareSwitch((dpid ^ 0x5a5a5a) or 1, ports=1)
    self.sock = sock
    self.worker = ioloop.new_worker(sock)
    self.conn = sw.OFConnection(self.worker)
    self.switch.set_connection(self.conn)
    self.out = []     # (port_no, bytes) emitted on the data plane
    self.switch.addListener(sw.DpPacketOut, self._on_out)
    self.on_out = None

  def _on_out (self, e):
    raw = e.packet.pack()
    self.out.append((e.port.port_no, raw))
    if self.on_out is not None:
      self.on_out(self, e.port.port_no, raw)

  def hello (self):
    self.switch.send_hello()

  def inject (self, port_no, raw):
    import pox.lib.packet as pkt
    self.switch.rx_packet(pkt.ethernet(raw), port_no, raw)


class DirectSwitch (object):
  """
  A real SoftwareSwitch behind the real RecocoIOWorker + OFConnection on a
  FakeSocket, driven synchronously (no scheduler): feed() delivers controller
  bytes through IOWorker._do_recv -> OFConnection.read -> switch handlers;
  what the switch sends accumulates in the worker's send buffer and is
  returned (as raw bytes) by take_bytes().
  """
  _loop = None

  def __init__ (self, dpid=1, ports=4, **kw):
    import pox.core
    if pox.core.core is None:
      from pvm import env
      env.make_core()
    import pox.datapaths.switch as sw
    import pox.lib.ioworker as iow
    self.sw_mod = sw
    if DirectSwitch._loop is None:
      DirectSwitch._loop = iow.RecocoIOLoop()
    self.loop = DirectSwitch._loop
    self.sock = FakeSocket("dsw%d" % dpid)
    self.worker = iow.RecocoIOWorker(self.sock)
    self.worker.pinger = _NullPinger()
    self.worker.on_close = lambda w: None
    self.conn = sw.OFConnection(self.worker)
    self.switch = sw.SoftwareSwitch(dpid, ports=ports, **kw)
    # (see SwitchPeer: a later, unused switch instance)
    self._decoy = sw.SoftwareSwitch((dpid ^ 0x5a5a5a) or 1, ports=1)
    self.switch.set_connection(self.conn)
    self.out = []
    self.switch.addListener(sw.DpPacketOut, self._on_out)
    self.worker.send_buf = b""      # drop the port-status chatter of setup

  def _on_out (self, e):
    self.out.append((e.port.port_no, e.packet.pack()))

  def reconnect (self):
    """The controller connection is replaced (the switch keeps its state)."""
    sw = self.sw_mod
    import pox.lib.ioworker as iow
    try: self.worker.close()
    except Exception: pass
    self.sock = FakeSocket("dsw-re")
    self.worker = iow.RecocoIOWorker(self.sock)
    self.worker.pinger = _NullPinger()
    self.worker.on_close = lambda w: None
    self.conn = sw.OFConnection(self.worker)
    self.switch.set_connection(self.conn)
    self.worker.send_buf = b""

  def feed (self, data):
    self.sock.feed(data)
    guard = 0
    while self.sock.rx and not self.worker.closed:
      self.worker._do_recv(self.loop)
      guard += 1
      if guard > 10000: raise Inconclusive("DirectSwitch.feed does not drain")

  def take_bytes (self):
    b = self.worker.send_buf
    self.worker.send_buf = b""
    return b

  def take_out (self):
    o = self.out; self.out = []
    return o

  def inject (self, port_no, raw):
    import pox.lib.packet as pkt
    self.switch.rx_packet(pkt.ethernet(raw), port_no, raw)


class _NullPinger (object):
  def ping (self): pass
  def pongAll (self): pass
  def pong_all (self): pass
