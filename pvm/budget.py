"""
E5: step-budget monitor.  sys.monitoring LINE events, local to chosen code
objects, count executed lines; exceeding the armed budget raises
BudgetExceeded *inside* the monitored frame (and sets .tripped, because the
code under test may swallow the exception).  Turns "spins forever" into a
deterministic, replayable observation.
"""
import sys

TOOL = 4     # a free sys.monitoring tool id
_state = {"on": False}


class BudgetExceeded (Exception):
  pass


def all_code (*modules):
  """Every code object defined in the given modules: functions, methods,
  properties, and what is nested in them.  (A loop that does not end may sit
  in a helper that was written yesterday: the budget covers whatever the
  modules contain when the check runs, not a list of names.)"""
  import types
  seen = {}
  def add (c):
    if id(c) in seen: return
    seen[id(c)] = c
    for k in c.co_consts:
      if isinstance(k, types.CodeType): add(k)
  def visit (obj, modname, depth=0):
    f = obj
    if isinstance(f, (staticmethod, classmethod)): f = f.__func__
    if isinstance(f, property):
      for g in (f.fget, f.fset, f.fdel):
        if g is not None: visit(g, modname, depth)
      return
    c = getattr(f, "__code__", None)
    if isinstance(c, types.CodeType):
      if getattr(f, "__module__", modname) == modname: add(c)
      return
    if isinstance(f, type) and f.__module__ == modname and depth < 3:
      for v in list(vars(f).values()): visit(v, modname, depth + 1)
  for m in modules:
    for v in list(vars(m).values()): visit(v, m.__name__)
  return list(seen.values())


class Budget (object):
  def __init__ (self, functions):
    self.mon = sys.monitoring
    self.codes = []
    import types
    for f in functions:
      if isinstance(f, types.CodeType):
        self.codes.append(f); continue
      c = getattr(f, "__code__", None)
      if c is None: c = getattr(getattr(f, "__func__", None), "__code__", None)
      if c is None: raise TypeError("no code object for %r" % (f,))
      self.codes.append(c)
    self.count = 0
    self.limit = None
    self.tripped = False
    self.where = None
    self.max_seen = 0
    if not _state["on"]:
      self.mon.use_tool_id(TOOL, "pvm-budget")
      _state["on"] = True
    self.mon.register_callback(TOOL, self.mon.events.LINE, self._line)
    for c in self.codes:
      self.mon.set_local_events(TOOL, c, self.mon.events.LINE)

  def _line (self, code, lineno):
    if self.limit is None: return
    self.count += 1
    if self.count > self.limit:
      if not self.tripped:
        self.tripped = True
        self.where = "%s:%d" % (code.co_name, lineno)
      # keep raising on every further line until disarmed: the code under
      # test may catch the exception and carry on looping
      raise BudgetExceeded("step budget exceeded in %s" % self.where)

  def arm (self, limit):
    self.count = 0
    self.tripped = False
    self.where = None
    self.limit = limit

  def disarm (self):
    if self.count > self.max_seen: self.max_seen = self.count
    if self.limit and not self.tripped:
      r = self.count / float(self.limit)
      if r > getattr(self, "max_ratio", 0.0): self.max_ratio = r
    self.limit = None
    return self.count

  def close (self):
    for c in self.codes:
      try: self.mon.set_local_events(TOOL, c, 0)
      except Exception: pass


def shutdown ():
  if _state["on"]:
    try:
      sys.monitoring.register_callback(TOOL, sys.monitoring.events.LINE, None)
      sys.monitoring.free_tool_id(TOOL)
    except Exception:
      pass
    _state["on"] = False
