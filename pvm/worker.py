"""
Runs one shard of one check in a fresh interpreter.
usage: python -m pvm.worker <ID> <spec.json> <out.json>
"""
import importlib
import json
import sys
import traceback


def main ():
  cid, sp, op = sys.argv[1:4]
  with open(sp) as f:
    spec = json.load(f)
  from pvm import env
  from pvm.report import Report, unjson
  rep = Report()
  try:
    env.boot(verbose_logs=bool(spec.get("verbose_logs")))
    mod = importlib.import_module("pvm.checks." + cid.lower())
    if "replay" in spec:
      mod.replay(unjson(spec["replay"]), rep)
    else:
      mod.run(spec, rep)
  except (env.Inconclusive, env.AdapterError) as e:
    rep.inconclusive_because("%s: %s" % (type(e).__name__, e))
  except Exception:
    rep.inconclusive_because("harness exception: " +
                             traceback.format_exc()[-1500:])
  if not __debug__:
    rep.count("shards_run_with_assertions_stripped")
  if env.LOG_STATS["on"]:
    rep.count("shards_run_with_debug_logging_on")
    rep.count("log_records_formatted", env.LOG_STATS["records"])
    if env.LOG_STATS["unformattable"]:
      rep.count("log_records_that_could_not_be_formatted", env.LOG_STATS["unformattable"])
  rep.dump(op)
  # Disable any sys.monitoring tools before interpreter teardown.
  try:
    from pvm import budget
    budget.shutdown()
  except Exception:
    pass
  try:
    from pvm import ilv
    ilv.shutdown()
  except Exception:
    pass
  sys.stdout.flush()
  import os
  os._exit(0)


if __name__ == "__main__":
  main()
