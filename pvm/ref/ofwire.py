"""
Independent OpenFlow 1.0 wire codec, written from the OpenFlow 1.0.0
specification (structure definitions in section 5 / openflow.h).  Uses only
`struct`; shares no code with POX.  Table driven: one layout table is used
for encoding (dict -> bytes) and decoding (bytes -> dict).

Field kinds:
  B H L Q      unsigned big-endian integers (8/16/32/64 bit)
  padN         N zero bytes
  mac          6 raw bytes
  ip           4 raw bytes, value carried as unsigned int (host view of the
               big-endian number)
  strN         N-byte NUL padded ASCII/latin-1 string
  match        embedded ofp_match (40 bytes)
  phy_port     embedded ofp_phy_port (48 bytes)
  rest         all remaining bytes
  actions      action list filling the remaining bytes
  actions_len  like actions but length taken from field 'actions_len'
  ports        list of phy_port filling the rest
  queues       list of packet_queue filling the rest
"""
import struct

OFP_VERSION = 1

MATCH = [("wildcards", "L"), ("in_port", "H"), ("dl_src", "mac"),
         ("dl_dst", "mac"), ("dl_vlan", "H"), ("dl_vlan_pcp", "B"),
         ("", "pad1"), ("dl_type", "H"), ("nw_tos", "B"), ("nw_proto", "B"),
         ("", "pad2"), ("nw_src", "ip"), ("nw_dst", "ip"), ("tp_src", "H"),
         ("tp_dst", "H")]

PHY_PORT = [("port_no", "H"), ("hw_addr", "mac"), ("name", "str16"),
            ("config", "L"), ("state", "L"), ("curr", "L"),
            ("advertised", "L"), ("supported", "L"), ("peer", "L")]

# type -> (name, body layout after the 4-byte action header, total length or
# None when variable)
ACTIONS = {
  0: ("output", [("port", "H"), ("max_len", "H")], 8),
  1: ("set_vlan_vid", [("vlan_vid", "H"), ("", "pad2")], 8),
  2: ("set_vlan_pcp", [("vlan_pcp", "B"), ("", "pad3")], 8),
  3: ("strip_vlan", [("", "pad4")], 8),
  4: ("set_dl_src", [("dl_addr", "mac"), ("", "pad6")], 16),
  5: ("set_dl_dst", [("dl_addr", "mac"), ("", "pad6")], 16),
  6: ("set_nw_src", [("nw_addr", "ip")], 8),
  7: ("set_nw_dst", [("nw_addr", "ip")], 8),
  8: ("set_nw_tos", [("nw_tos", "B"), ("", "pad3")], 8),
  9: ("set_tp_src", [("tp_port", "H"), ("", "pad2")], 8),
  10: ("set_tp_dst", [("tp_port", "H"), ("", "pad2")], 8),
  11: ("enqueue", [("port", "H"), ("", "pad6"), ("queue_id", "L")], 16),
  0xffff: ("vendor", [("vendor", "L"), ("body", "rest")], None),
}
ACTION_BY_NAME = {v[0]: k for k, v in ACTIONS.items()}

QUEUE_PROPS = {
  0: ("none", [("", "pad4")], 8),
  1: ("min_rate", [("", "pad4"), ("rate", "H"), ("", "pad6")], 16),
}

PACKET_QUEUE = [("queue_id", "L"), ("len", "H"), ("", "pad2")]  # + props

# stats type -> (request layout, reply entry layout, reply is list)
FLOW_STATS = [("length", "H"), ("table_id", "B"), ("", "pad1"),
              ("match", "match"), ("duration_sec", "L"),
              ("duration_nsec", "L"), ("priority", "H"),
              ("idle_timeout", "H"), ("hard_timeout", "H"), ("", "pad6"),
              ("cookie", "Q"), ("packet_count", "Q"), ("byte_count", "Q"),
              ("actions", "actions")]
STATS = {
  0: ("desc", [],
      [("mfr_desc", "str256"), ("hw_desc", "str256"), ("sw_desc", "str256"),
       ("serial_num", "str32"), ("dp_desc", "str256")], False),
  1: ("flow", [("match", "match"), ("table_id", "B"), ("", "pad1"),
               ("out_port", "H")], FLOW_STATS, True),
  2: ("aggregate", [("match", "match"), ("table_id", "B"), ("", "pad1"),
                    ("out_port", "H")],
      [("packet_count", "Q"), ("byte_count", "Q"), ("flow_count", "L"),
       ("", "pad4")], False),
  3: ("table", [],
      [("table_id", "B"), ("", "pad3"), ("name", "str32"), ("wildcards", "L"),
       ("max_entries", "L"), ("active_count", "L"), ("lookup_count", "Q"),
       ("matched_count", "Q")], True),
  4: ("port", [("port_no", "H"), ("", "pad6")],
      [("port_no", "H"), ("", "pad6")] +
      [(n, "Q") for n in ("rx_packets", "tx_packets", "rx_bytes", "tx_bytes",
                          "rx_dropped", "tx_dropped", "rx_errors",
                          "tx_errors", "rx_frame_err", "rx_over_err",
                          "rx_crc_err", "collisions")], True),
  5: ("queue", [("port_no", "H"), ("", "pad2"), ("queue_id", "L")],
      [("port_no", "H"), ("", "pad2"), ("queue_id", "L"), ("tx_bytes", "Q"),
       ("tx_packets", "Q"), ("tx_errors", "Q")], True),
  0xffff: ("vendor", [("vendor", "L"), ("data", "rest")],
           [("vendor", "L"), ("data", "rest")], False),
}
STATS_BY_NAME = {v[0]: k for k, v in STATS.items()}

# message type -> (name, body layout after the 8-byte header)
MESSAGES = {
  0: ("hello", []),
  1: ("error", [("type", "H"), ("code", "H"), ("data", "rest")]),
  2: ("echo_request", [("body", "rest")]),
  3: ("echo_reply", [("body", "rest")]),
  4: ("vendor", [("vendor", "L"), ("data", "rest")]),
  5: ("features_request", []),
  6: ("features_reply", [("datapath_id", "Q"), ("n_buffers", "L"),
                         ("n_tables", "B"), ("", "pad3"),
                         ("capabilities", "L"), ("actions", "L"),
                         ("ports", "ports")]),
  7: ("get_config_request", []),
  8: ("get_config_reply", [("flags", "H"), ("miss_send_len", "H")]),
  9: ("set_config", [("flags", "H"), ("miss_send_len", "H")]),
  10: ("packet_in", [("buffer_id", "L"), ("total_len", "H"), ("in_port", "H"),
                     ("reason", "B"), ("", "pad1"), ("data", "rest")]),
  11: ("flow_removed", [("match", "match"), ("cookie", "Q"), ("priority", "H"),
                        ("reason", "B"), ("", "pad1"), ("duration_sec", "L"),
                        ("duration_nsec", "L"), ("idle_timeout", "H"),
                        ("", "pad2"), ("packet_count", "Q"),
                        ("byte_count", "Q")]),
  12: ("port_status", [("reason", "B"), ("", "pad7"), ("desc", "phy_port")]),
  13: ("packet_out", [("buffer_id", "L"), ("in_port", "H"),
                      ("actions_len", "H"), ("actions", "actions_len"),
                      ("data", "rest")]),
  14: ("flow_mod", [("match", "match"), ("cookie", "Q"), ("command", "H"),
                    ("idle_timeout", "H"), ("hard_timeout", "H"),
                    ("priority", "H"), ("buffer_id", "L"), ("out_port", "H"),
                    ("flags", "H"), ("actions", "actions")]),
  15: ("port_mod", [("port_no", "H"), ("hw_addr", "mac"), ("config", "L"),
                    ("mask", "L"), ("advertise", "L"), ("", "pad4")]),
  16: ("stats_request", [("type", "H"), ("flags", "H"), ("body", "stats_req")]),
  17: ("stats_reply", [("type", "H"), ("flags", "H"), ("body", "stats_rep")]),
  18: ("barrier_request", []),
  19: ("barrier_reply", []),
  20: ("queue_get_config_request", [("port", "H"), ("", "pad2")]),
  21: ("queue_get_config_reply", [("port", "H"), ("", "pad6"),
                                  ("queues", "queues")]),
}
MESSAGE_BY_NAME = {v[0]: k for k, v in MESSAGES.items()}

_INT = {"B": 1, "H": 2, "L": 4, "Q": 8}


class WireError (Exception):
  pass


# ---------------------------------------------------------------- encoding

def _enc_fields (layout, d, ctx=None):
  out = b""
  for name, kind in layout:
    if kind in _INT:
      v = d[name]
      out += struct.pack("!" + kind, v)
    elif kind.startswith("pad"):
      out += b"\0" * int(kind[3:])
    elif kind == "mac":
      v = d[name]
      assert len(v) == 6
      out += bytes(v)
    elif kind == "ip":
      out += struct.pack("!L", d[name] & 0xffffffff)
    elif kind.startswith("str"):
      n = int(kind[3:])
      v = d[name]
      if isinstance(v, str): v = v.encode("latin-1")
      assert len(v) <= n
      out += v + b"\0" * (n - len(v))
    elif kind == "match":
      out += _enc_fields(MATCH, d[name])
    elif kind == "phy_port":
      out += _enc_fields(PHY_PORT, d[name])
    elif kind == "rest":
      out += bytes(d.get(name) or b"")
    elif kind in ("actions", "actions_len"):
      out += b"".join(enc_action(a) for a in d[name])
    elif kind == "ports":
      out += b"".join(_enc_fields(PHY_PORT, p) for p in d[name])
    elif kind == "queues":
      out += b"".join(enc_queue(q) for q in d[name])
    elif kind == "stats_req":
      out += enc_stats_body(d["type"], d[name], False)
    elif kind == "stats_rep":
      out += enc_stats_body(d["type"], d[name], True)
    else:
      raise WireError("kind " + kind)
  return out


def enc_match (m):
  return _enc_fields(MATCH, m)


def enc_phy_port (p):
  return _enc_fields(PHY_PORT, p)


def enc_action (a):
  t = a["type"]
  if t in ACTIONS:
    body = _enc_fields(ACTIONS[t][1], a)
  else:
    body = bytes(a.get("data") or b"")
  return struct.pack("!HH", t, 4 + len(body)) + body


def enc_queue_prop (p):
  t = p["property"]
  if t in QUEUE_PROPS:
    body = _enc_fields(QUEUE_PROPS[t][1], p)
  else:
    body = bytes(p.get("data") or b"")
  return struct.pack("!HH", t, 4 + len(body)) + body


def enc_queue (q):
  props = b"".join(enc_queue_prop(p) for p in q["properties"])
  return struct.pack("!LH", q["queue_id"], 8 + len(props)) + b"\0\0" + props


def enc_flow_stats_entry (e):
  acts = b"".join(enc_action(a) for a in e["actions"])
  d = dict(e)
  d["length"] = 88 + len(acts)
  return _enc_fields(FLOW_STATS, d)


def enc_stats_body (stype, body, reply):
  if stype not in STATS:
    return bytes(body or b"")
  _, req, rep, is_list = STATS[stype]
  if not reply:
    return _enc_fields(req, body or {})
  if stype == 1:
    return b"".join(enc_flow_stats_entry(e) for e in body)
  if is_list:
    return b"".join(_enc_fields(rep, e) for e in body)
  return _enc_fields(rep, body)


def enc_message (name, d, version=OFP_VERSION):
  t = MESSAGE_BY_NAME[name]
  dd = dict(d)
  if name == "packet_out":
    dd["actions_len"] = len(b"".join(enc_action(a) for a in dd["actions"]))
  body = _enc_fields(MESSAGES[t][1], dd)
  return struct.pack("!BBHL", version, t, 8 + len(body), d["xid"]) + body


# ---------------------------------------------------------------- decoding

def _dec_fields (layout, b, off, end, d):
  for name, kind in layout:
    if kind in _INT:
      n = _INT[kind]
      if off + n > end: raise WireError("truncated at %s" % name)
      d[name] = struct.unpack_from("!" + kind, b, off)[0]
      off += n
    elif kind.startswith("pad"):
      off += int(kind[3:])
      if off > end: raise WireError("truncated in padding")
    elif kind == "mac":
      if off + 6 > end: raise WireError("truncated at %s" % name)
      d[name] = bytes(b[off:off + 6]); off += 6
    elif kind == "ip":
      if off + 4 > end: raise WireError("truncated at %s" % name)
      d[name] = struct.unpack_from("!L", b, off)[0]; off += 4
    elif kind.startswith("str"):
      n = int(kind[3:])
      if off + n > end: raise WireError("truncated at %s" % name)
      d[name] = bytes(b[off:off + n]).split(b"\0", 1)[0].decode("latin-1")
      off += n
    elif kind == "match":
      m = {}
      off = _dec_fields(MATCH, b, off, end, m); d[name] = m
    elif kind == "phy_port":
      m = {}
      off = _dec_fields(PHY_PORT, b, off, end, m); d[name] = m
    elif kind == "rest":
      d[name] = bytes(b[off:end]); off = end
    elif kind == "actions":
      d[name] = dec_actions(b, off, end); off = end
    elif kind == "actions_len":
      e2 = off + d["actions_len"]
      if e2 > end: raise WireError("actions_len beyond message")
      d[name] = dec_actions(b, off, e2); off = e2
    elif kind == "ports":
      ps = []
      while off < end:
        m = {}
        off = _dec_fields(PHY_PORT, b, off, end, m); ps.append(m)
      d[name] = ps
    elif kind == "queues":
      qs = []
      while off < end:
        q, off = dec_queue(b, off, end); qs.append(q)
      d[name] = qs
    elif kind == "stats_req":
      d[name] = dec_stats_body(d["type"], b, off, end, False); off = end
    elif kind == "stats_rep":
      d[name] = dec_stats_body(d["type"], b, off, end, True); off = end
    else:
      raise WireError("kind " + kind)
  return off


def dec_actions (b, off, end):
  out = []
  while off < end:
    if off + 4 > end: raise WireError("truncated action header")
    t, l = struct.unpack_from("!HH", b, off)
    if l < 8 or l % 8 or off + l > end:
      raise WireError("bad action length %d" % l)
    a = {"type": t, "len": l}
    if t in ACTIONS:
      _dec_fields(ACTIONS[t][1], b, off + 4, off + l, a)
      a["name"] = ACTIONS[t][0]
    else:
      a["data"] = bytes(b[off + 4:off + l]); a["name"] = "unknown"
    out.append(a)
    off += l
  return out


def dec_queue (b, off, end):
  if off + 8 > end: raise WireError("truncated queue")
  qid, l = struct.unpack_from("!LH", b, off)
  if l < 8 or off + l > end: raise WireError("bad queue length")
  props = []
  p = off + 8
  while p < off + l:
    t, pl = struct.unpack_from("!HH", b, p)
    if pl < 8 or p + pl > off + l: raise WireError("bad prop length")
    pr = {"property": t, "len": pl}
    if t in QUEUE_PROPS:
      _dec_fields(QUEUE_PROPS[t][1], b, p + 4, p + pl, pr)
    else:
      pr["data"] = bytes(b[p + 4:p + pl])
    props.append(pr)
    p += pl
  return {"queue_id": qid, "len": l, "properties": props}, off + l


def dec_stats_body (stype, b, off, end, reply):
  if stype not in STATS:
    return bytes(b[off:end])
  _, req, rep, is_list = STATS[stype]
  if not reply:
    d = {}
    o = _dec_fields(req, b, off, end, d)
    if o != end: raise WireError("stats request body has trailing bytes")
    return d
  if stype == 1:
    out = []
    while off < end:
      if off + 2 > end: raise WireError("truncated flow stats")
      l = struct.unpack_from("!H", b, off)[0]
      if l < 88 or off + l > end: raise WireError("bad flow stats length")
      d = {}
      _dec_fields(FLOW_STATS, b, off, off + l, d)
      out.append(d); off += l
    return out
  if is_list:
    out = []
    while off < end:
      d = {}
      off = _dec_fields(rep, b, off, end, d)
      out.append(d)
    return out
  d = {}
  o = _dec_fields(rep, b, off, end, d)
  if o != end: raise WireError("stats reply body has trailing bytes")
  return d


def dec_header (b, off=0):
  if len(b) - off < 8: raise WireError("short header")
  v, t, l, xid = struct.unpack_from("!BBHL", b, off)
  return v, t, l, xid


def dec_message (b, off=0):
  """Returns (dict, next offset).  dict has name/version/type/length/xid."""
  v, t, l, xid = dec_header(b, off)
  if l < 8 or off + l > len(b): raise WireError("bad length %d" % l)
  d = {"version": v, "type_code": t, "length": l, "xid": xid}
  if t not in MESSAGES:
    d["name"] = "unknown"; d["raw"] = bytes(b[off + 8:off + l])
    return d, off + l
  name, layout = MESSAGES[t]
  d["name"] = name
  o = _dec_fields(layout, b, off + 8, off + l, d)
  if o != off + l:
    raise WireError("%s: %d trailing bytes" % (name, off + l - o))
  return d, off + l


def dec_stream (b):
  out = []
  off = 0
  while off < len(b):
    d, off = dec_message(b, off)
    out.append(d)
  return out
