"""
Builders and a minimal parser for raw Ethernet frames (independent of POX):
Ethernet II / 802.3+LLC(+SNAP) / 802.1Q, ARP, IPv4 (+options, fragments),
TCP, UDP, ICMP.  Everything is bytes in, bytes out.
"""
import struct

from pvm.ref import inet


def mac (x):
  if isinstance(x, (bytes, bytearray)): return bytes(x)
  if isinstance(x, int): return x.to_bytes(6, "big")
  return bytes(int(p, 16) for p in x.split(":"))


def ip4 (x):
  if isinstance(x, (bytes, bytearray)): return bytes(x)
  if isinstance(x, int): return struct.pack("!L", x & 0xffffffff)
  return bytes(int(p) for p in x.split("."))


def eth (dst, src, ethertype, payload, vlan=None, pad=False):
  """vlan: None or (pcp, cfi, vid)"""
  b = mac(dst) + mac(src)
  if vlan is not None:
    pcp, cfi, vid = vlan
    b += struct.pack("!HH", 0x8100, (pcp << 13) | (cfi << 12) | vid)
  b += struct.pack("!H", ethertype) + payload
  if pad and len(b) < 60: b += b"\0" * (60 - len(b))
  return b


def eth_8023 (dst, src, llc_payload, vlan=None):
  """802.3 frame: length field instead of ethertype."""
  b = mac(dst) + mac(src)
  if vlan is not None:
    pcp, cfi, vid = vlan
    b += struct.pack("!HH", 0x8100, (pcp << 13) | (cfi << 12) | vid)
  return b + struct.pack("!H", len(llc_payload)) + llc_payload


def llc (dsap, ssap, control, payload):
  return struct.pack("!BBB", dsap, ssap, control) + payload


def snap (oui, ethertype, payload):
  return llc(0xaa, 0xaa, 3, bytes(oui) + struct.pack("!H", ethertype) + payload)


def arp (op, sha, spa, tha, tpa, htype=1, ptype=0x0800, hlen=6, plen=4):
  return struct.pack("!HHBBH", htype, ptype, hlen, plen, op) + mac(sha) + \
      ip4(spa) + mac(tha) + ip4(tpa)


def ipv4 (src, dst, proto, payload, tos=0, ident=0, flags=0, frag=0, ttl=64,
          options=b"", total_len=None, bad_csum=False):
  assert len(options) % 4 == 0
  ihl = 5 + len(options) // 4
  tl = 20 + len(options) + len(payload) if total_len is None else total_len
  h = struct.pack("!BBHHHBBH4s4s", (4 << 4) | ihl, tos, tl, ident,
                  (flags << 13) | frag, ttl, proto, 0, ip4(src), ip4(dst))
  h += options
  c = inet.csum(h)
  if bad_csum: c ^= 0x5555
  h = h[:10] + struct.pack("!H", c) + h[12:]
  return h + payload


def tcp (sport, dport, payload=b"", seq=0, ack=0, flags=0x02, win=1000,
         options=b"", src=None, dst=None, urg=0):
  assert len(options) % 4 == 0
  off = 5 + len(options) // 4
  h = struct.pack("!HHLLBBHHH", sport, dport, seq, ack, off << 4, flags, win,
                  0, urg) + options
  seg = h + payload
  c = 0
  if src is not None:
    c = inet.l4_csum4(ip4(src), ip4(dst), 6, seg)
  return seg[:16] + struct.pack("!H", c) + seg[18:]


def udp (sport, dport, payload=b"", src=None, dst=None, zero_csum=False):
  l = 8 + len(payload)
  seg = struct.pack("!HHHH", sport, dport, l, 0) + payload
  c = 0
  if src is not None and not zero_csum:
    c = inet.l4_csum4(ip4(src), ip4(dst), 17, seg)
    if c == 0: c = 0xffff
  return seg[:6] + struct.pack("!H", c) + seg[8:]


def icmp (typ, code, rest=b"\0\0\0\0", payload=b""):
  b = struct.pack("!BBH", typ, code, 0) + rest + payload
  c = inet.csum(b)
  return b[:2] + struct.pack("!H", c) + b[4:]


# ---------------------------------------------------------------- parsing

def parse (raw):
  """
  Minimal structural parse.  Returns dict with keys that exist:
  dst, src, vlan (pcp,cfi,vid), ethertype (None for 802.3), llc (dsap,ssap,
  ctl), snap (oui,type), l3off, and for ARP/IPv4/TCP/UDP/ICMP their fields
  plus offsets (ip_off, l4_off).
  """
  d = {}
  if len(raw) < 14: return d
  d["dst"] = raw[0:6]; d["src"] = raw[6:12]
  off = 12
  t = struct.unpack_from("!H", raw, off)[0]; off += 2
  if t == 0x8100:
    if len(raw) < off + 4: return d
    tci, t = struct.unpack_from("!HH", raw, off); off += 4
    d["vlan"] = (tci >> 13, (tci >> 12) & 1, tci & 0xfff)
  if t >= 0x600:
    d["ethertype"] = t
  else:
    d["ethertype"] = None
    d["length"] = t
    if len(raw) >= off + 3:
      d["llc"] = tuple(raw[off:off + 3])
      if d["llc"][0] == 0xaa and d["llc"][1] == 0xaa and d["llc"][2] == 3 \
         and len(raw) >= off + 8:
        d["snap"] = (raw[off + 3:off + 6],
                     struct.unpack_from("!H", raw, off + 6)[0])
        off += 8
        if d["snap"][0] == b"\0\0\0":
          t = d["snap"][1]
          d["snap_type"] = t
        else:
          d["l3off"] = off
          return d
      else:
        d["l3off"] = off + 3
        return d
    else:
      return d
  d["l3off"] = off
  d["l3type"] = t
  if t == 0x0806 and len(raw) >= off + 28:
    ht, pt, hl, pl, op = struct.unpack_from("!HHBBH", raw, off)
    if ht == 1 and pt == 0x0800 and hl == 6 and pl == 4:
      d["arp"] = dict(op=op, sha=raw[off + 8:off + 14],
                      spa=raw[off + 14:off + 18], tha=raw[off + 18:off + 24],
                      tpa=raw[off + 24:off + 28])
  elif t == 0x0800 and len(raw) >= off + 20:
    vihl, tos, tl, ident, ff, ttl, proto, cs = struct.unpack_from(
      "!BBHHHBBH", raw, off)
    ihl = (vihl & 15) * 4
    if (vihl >> 4) == 4 and ihl >= 20 and len(raw) >= off + ihl and tl >= ihl:
      ipd = dict(tos=tos, total_len=tl, ident=ident, flags=ff >> 13,
                 frag=ff & 0x1fff, ttl=ttl, proto=proto, csum=cs,
                 src=raw[off + 12:off + 16], dst=raw[off + 16:off + 20],
                 ihl=ihl, off=off)
      d["ip"] = ipd
      l4 = off + ihl
      end = min(len(raw), off + tl)
      ipd["l4_off"] = l4; ipd["end"] = end
      if ipd["frag"] == 0 and not (ipd["flags"] & 1):
        if proto == 6 and end - l4 >= 20:
          sp, dp = struct.unpack_from("!HH", raw, l4)
          d["tcp"] = dict(sport=sp, dport=dp,
                          csum=struct.unpack_from("!H", raw, l4 + 16)[0])
        elif proto == 17 and end - l4 >= 8:
          sp, dp, ul, uc = struct.unpack_from("!HHHH", raw, l4)
          d["udp"] = dict(sport=sp, dport=dp, length=ul, csum=uc)
        elif proto == 1 and end - l4 >= 4:
          ty, co, ic = struct.unpack_from("!BBH", raw, l4)
          d["icmp"] = dict(type=ty, code=co, csum=ic)
  return d
