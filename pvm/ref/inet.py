"""RFC 1071 Internet checksum and pseudo-header sums (independent of POX)."""
import struct


def csum (data, start=0):
  """One's complement of the one's complement sum of 16-bit words."""
  s = start
  n = len(data)
  for i in range(0, n - 1, 2):
    s += (data[i] << 8) | data[i + 1]
  if n & 1:
    s += data[n - 1] << 8
  while s >> 16:
    s = (s & 0xffff) + (s >> 16)
  return (~s) & 0xffff


def ones_sum (data, start=0):
  s = start
  n = len(data)
  for i in range(0, n - 1, 2):
    s += (data[i] << 8) | data[i + 1]
  if n & 1:
    s += data[n - 1] << 8
  while s >> 16:
    s = (s & 0xffff) + (s >> 16)
  return s


def pseudo4 (src, dst, proto, length):
  return struct.pack("!4s4sBBH", src, dst, 0, proto, length)


def pseudo6 (src, dst, proto, length):
  return struct.pack("!16s16sLBBBB", src, dst, length, 0, 0, 0, proto)


def l4_csum4 (src, dst, proto, segment):
  """Checksum of a TCP/UDP segment (checksum field must be zero in it)."""
  return csum(pseudo4(src, dst, proto, len(segment)) + segment)


def l4_csum6 (src, dst, proto, segment):
  return csum(pseudo6(src, dst, proto, len(segment)) + segment)


def verify (data):
  """True if the data (including its checksum field) sums to 0xffff."""
  return ones_sum(data) == 0xffff
