"""
OpenFlow 1.0 match semantics, written from the 1.0.0 specification
(section 3.4 "Matching" incl. the header-parsing flowchart, and the
ofp_match / ofp_flow_wildcards definitions in 5.2.3).  Independent of POX.

A match is a plain dict as produced by pvm.ref.ofwire (wire values).
"""
import struct

from pvm.ref import frames

FW_IN_PORT = 1 << 0
FW_DL_VLAN = 1 << 1
FW_DL_SRC = 1 << 2
FW_DL_DST = 1 << 3
FW_DL_TYPE = 1 << 4
FW_NW_PROTO = 1 << 5
FW_TP_SRC = 1 << 6
FW_TP_DST = 1 << 7
FW_NW_SRC_SHIFT = 8
FW_NW_SRC_MASK = 0x3f << 8
FW_NW_DST_SHIFT = 14
FW_NW_DST_MASK = 0x3f << 14
FW_DL_VLAN_PCP = 1 << 20
FW_NW_TOS = 1 << 21
FW_ALL = (1 << 22) - 1

VLAN_NONE = 0xffff
DL_TYPE_NOT_ETH = 0x05ff


def extract (raw, in_port):
  """Header fields of a frame as the 1.0 flowchart prescribes."""
  p = frames.parse(raw)
  f = dict(in_port=in_port, dl_src=p.get("src", b"\0" * 6),
           dl_dst=p.get("dst", b"\0" * 6), dl_vlan=VLAN_NONE, dl_vlan_pcp=0,
           dl_type=0, nw_tos=0, nw_proto=0, nw_src=0, nw_dst=0, tp_src=0,
           tp_dst=0)
  if "vlan" in p:
    f["dl_vlan"] = p["vlan"][2]
    f["dl_vlan_pcp"] = p["vlan"][0]
  if p.get("ethertype") is not None:
    f["dl_type"] = p["ethertype"]
  elif "snap_type" in p:
    f["dl_type"] = p["snap_type"]
  else:
    f["dl_type"] = DL_TYPE_NOT_ETH
  if "ip" in p and f["dl_type"] == 0x0800:
    ip = p["ip"]
    f["nw_src"] = struct.unpack("!L", ip["src"])[0]
    f["nw_dst"] = struct.unpack("!L", ip["dst"])[0]
    f["nw_proto"] = ip["proto"]
    f["nw_tos"] = ip["tos"] & 0xfc
    if "tcp" in p:
      f["tp_src"] = p["tcp"]["sport"]; f["tp_dst"] = p["tcp"]["dport"]
    elif "udp" in p:
      f["tp_src"] = p["udp"]["sport"]; f["tp_dst"] = p["udp"]["dport"]
    elif "icmp" in p:
      f["tp_src"] = p["icmp"]["type"]; f["tp_dst"] = p["icmp"]["code"]
    f["_fragment"] = bool(ip["frag"] or (ip["flags"] & 1))
  elif "arp" in p and f["dl_type"] == 0x0806:
    a = p["arp"]
    f["nw_proto"] = a["op"] & 0xff
    f["_arp_op"] = a["op"]
    f["nw_src"] = struct.unpack("!L", a["spa"])[0]
    f["nw_dst"] = struct.unpack("!L", a["tpa"])[0]
  return f


def nw_bits (wc, shift):
  """Number of *significant* (most significant) address bits."""
  w = (wc >> shift) & 0x3f
  return 32 - w if w < 32 else 0


def prefix_mask (bits):
  return ((1 << bits) - 1) << (32 - bits) if bits else 0


def applicable (m):
  """
  Which protocol-dependent fields of match m are meaningful: returns
  (ip, arp, tp) booleans.  A field is only compared when the match itself
  pins the protocol it belongs to.
  """
  wc = m["wildcards"]
  dlt = None if wc & FW_DL_TYPE else m["dl_type"]
  ip = dlt == 0x0800
  arp = dlt == 0x0806
  proto = None if wc & FW_NW_PROTO else m["nw_proto"]
  tp = ip and proto in (1, 6, 17)
  return ip, arp, tp


def matches (m, f):
  """Does frame (fields f) match wire match m?"""
  wc = m["wildcards"]
  if not wc & FW_IN_PORT and m["in_port"] != f["in_port"]: return False
  if not wc & FW_DL_SRC and bytes(m["dl_src"]) != bytes(f["dl_src"]): return False
  if not wc & FW_DL_DST and bytes(m["dl_dst"]) != bytes(f["dl_dst"]): return False
  if not wc & FW_DL_VLAN and m["dl_vlan"] != f["dl_vlan"]: return False
  if not wc & FW_DL_VLAN_PCP and m["dl_vlan_pcp"] != f["dl_vlan_pcp"]:
    return False
  if not wc & FW_DL_TYPE and m["dl_type"] != f["dl_type"]: return False
  ip, arp, tp = applicable(m)
  if ip or arp:
    if not wc & FW_NW_PROTO and m["nw_proto"] != f["nw_proto"]: return False
    for fld, sh in (("nw_src", FW_NW_SRC_SHIFT), ("nw_dst", FW_NW_DST_SHIFT)):
      mask = prefix_mask(nw_bits(wc, sh))
      if (m[fld] & mask) != (f[fld] & mask): return False
  if ip:
    if not wc & FW_NW_TOS and (m["nw_tos"] & 0xfc) != f["nw_tos"]: return False
  if tp:
    if not wc & FW_TP_SRC and m["tp_src"] != f["tp_src"]: return False
    if not wc & FW_TP_DST and m["tp_dst"] != f["tp_dst"]: return False
  return True


def is_exact (m):
  return (m["wildcards"] & FW_ALL) == 0


def canon (m):
  """
  Canonical form of a match for comparing *matches with each other*: a list
  of (field, value, mask) constraints that are actually applied to frames.
  """
  wc = m["wildcards"]
  c = {}
  def put (name, bit, val):
    if not wc & bit: c[name] = val
  put("in_port", FW_IN_PORT, m["in_port"])
  put("dl_src", FW_DL_SRC, bytes(m["dl_src"]))
  put("dl_dst", FW_DL_DST, bytes(m["dl_dst"]))
  put("dl_vlan", FW_DL_VLAN, m["dl_vlan"])
  put("dl_vlan_pcp", FW_DL_VLAN_PCP, m["dl_vlan_pcp"])
  put("dl_type", FW_DL_TYPE, m["dl_type"])
  ip, arp, tp = applicable(m)
  if ip or arp:
    put("nw_proto", FW_NW_PROTO, m["nw_proto"])
    for fld, sh in (("nw_src", FW_NW_SRC_SHIFT), ("nw_dst", FW_NW_DST_SHIFT)):
      b = nw_bits(wc, sh)
      if b: c[fld] = (m[fld] & prefix_mask(b), b)
  if ip:
    put("nw_tos", FW_NW_TOS, m["nw_tos"] & 0xfc)
  if tp:
    put("tp_src", FW_TP_SRC, m["tp_src"])
    put("tp_dst", FW_TP_DST, m["tp_dst"])
  return c


def subsumes (a, b):
  """
  Every frame matched by b is matched by a (a is at least as general).
  This is the relation non-strict MODIFY/DELETE and stats requests use:
  'a' is the match in the command, 'b' the installed entry's match.
  """
  ca, cb = canon(a), canon(b)
  for k, va in ca.items():
    if k not in cb: return False
    vb = cb[k]
    if k in ("nw_src", "nw_dst"):
      (av, ab), (bv, bb) = va, vb
      if ab > bb: return False
      if (bv & prefix_mask(ab)) != av: return False
    elif va != vb:
      return False
  return True


def overlaps (a, b):
  """Some frame could match both a and b."""
  ca, cb = canon(a), canon(b)
  for k in set(ca) & set(cb):
    va, vb = ca[k], cb[k]
    if k in ("nw_src", "nw_dst"):
      (av, ab), (bv, bb) = va, vb
      mb = prefix_mask(min(ab, bb))
      if (av & mb) != (bv & mb): return False
    elif va != vb:
      return False
  return True


def same_strict (a, b):
  """Identical match for the purposes of strict commands / ADD replace."""
  return canon(a) == canon(b)


def matches_frame_based (m, f):
  """
  The other defensible reading of 'fields whose protocol prerequisites are
  met': a protocol-dependent field is compared whenever the *frame* carries
  that protocol, whatever the match says about dl_type / nw_proto.  Checks
  only judge cases on which both readings agree.
  """
  wc = m["wildcards"]
  if not wc & FW_IN_PORT and m["in_port"] != f["in_port"]: return False
  if not wc & FW_DL_SRC and bytes(m["dl_src"]) != bytes(f["dl_src"]): return False
  if not wc & FW_DL_DST and bytes(m["dl_dst"]) != bytes(f["dl_dst"]): return False
  if not wc & FW_DL_VLAN and m["dl_vlan"] != f["dl_vlan"]: return False
  if not wc & FW_DL_VLAN_PCP and m["dl_vlan_pcp"] != f["dl_vlan_pcp"]:
    return False
  if not wc & FW_DL_TYPE and m["dl_type"] != f["dl_type"]: return False
  ip = f["dl_type"] == 0x0800
  arp = f["dl_type"] == 0x0806
  if ip or arp:
    if not wc & FW_NW_PROTO and m["nw_proto"] != f["nw_proto"]: return False
    for fld, sh in (("nw_src", FW_NW_SRC_SHIFT), ("nw_dst", FW_NW_DST_SHIFT)):
      mask = prefix_mask(nw_bits(wc, sh))
      if (m[fld] & mask) != (f[fld] & mask): return False
  if ip:
    if not wc & FW_NW_TOS and (m["nw_tos"] & 0xfc) != f["nw_tos"]: return False
    if f["nw_proto"] in (1, 6, 17):
      if not wc & FW_TP_SRC and m["tp_src"] != f["tp_src"]: return False
      if not wc & FW_TP_DST and m["tp_dst"] != f["tp_dst"]: return False
  return True


def is_effectively_exact (m):
  """All wildcard bits that are set belong to fields that cannot apply given
  the match's own (non-wildcarded) dl_type / nw_proto."""
  wc = m["wildcards"] & FW_ALL
  if wc & FW_DL_TYPE: return False
  dlt = m["dl_type"]
  if dlt == 0x0800:
    if wc & FW_NW_PROTO: return False
    ign = 0 if m["nw_proto"] in (1, 6, 17) else (FW_TP_SRC | FW_TP_DST)
  elif dlt == 0x0806:
    ign = FW_NW_TOS | FW_TP_SRC | FW_TP_DST
  else:
    ign = (FW_NW_TOS | FW_NW_PROTO | FW_NW_SRC_MASK | FW_NW_DST_MASK |
           FW_TP_SRC | FW_TP_DST)
  return (wc & ~ign) == 0
