"""
Reference model of the OpenFlow 1.0 flow table state machine (section 4.6
"Flow Table Modification Messages", 3.5 timeouts, 5.4.2 flow removed),
independent of POX.  Entries are plain dicts; matches are wire dicts; match
relations come from pvm.ref.ofmatch.
"""
from pvm.ref import ofmatch as OM

ADD, MODIFY, MODIFY_STRICT, DELETE, DELETE_STRICT = range(5)
FF_SEND_FLOW_REM = 1
FF_CHECK_OVERLAP = 2
FF_EMERG = 4
RR_IDLE, RR_HARD, RR_DELETE = 0, 1, 2
ET_FLOW_MOD_FAILED = 3
FMFC_OVERLAP = 1
FMFC_ALL_TABLES_FULL = 0
PORT_NONE = 0xffff


class Table (object):
  def __init__ (self, max_entries=None):
    self.entries = []
    self.seq = 0
    self.max_entries = max_entries

  def _new (self, fm, now):
    self.seq += 1
    return dict(match=fm["match"], priority=fm["priority"],
                actions=fm["actions"], cookie=fm["cookie"],
                idle=fm["idle_timeout"], hard=fm["hard_timeout"],
                flags=fm["flags"], created=now, used=now, packets=0, bytes=0,
                seq=self.seq)

  @staticmethod
  def _has_out (e, port):
    if port == PORT_NONE: return True
    return any(a["type"] == 0 and a["port"] == port for a in e["actions"])

  def flow_mod (self, fm, now):
    """Returns (removed_with_reason [(entry, reason)], errors [(type, code)])."""
    cmd = fm["command"]
    removed = []; errors = []
    if cmd in (MODIFY, MODIFY_STRICT):
      if cmd == MODIFY:
        hit = [e for e in self.entries if OM.subsumes(fm["match"], e["match"])]
      else:
        hit = [e for e in self.entries
               if e["priority"] == fm["priority"]
               and OM.same_strict(fm["match"], e["match"])]
      if hit:
        for e in hit:
          e["actions"] = fm["actions"]
        return removed, errors
      cmd = ADD
    if cmd == ADD:
      if fm["flags"] & FF_CHECK_OVERLAP:
        # "conflicting entries with the same priority": an entry without
        # wildcards ranks above every priority value (1.0, section 3.4), so it
        # shares its rank only with other such entries
        def rank (m, prio):
          return "exact" if OM.is_exact(m) else prio
        for e in self.entries:
          if rank(e["match"], e["priority"]) == rank(fm["match"], fm["priority"]) \
             and OM.overlaps(fm["match"], e["match"]):
            errors.append((ET_FLOW_MOD_FAILED, FMFC_OVERLAP))
            return removed, errors
      rest = [e for e in self.entries
              if not (e["priority"] == fm["priority"] and
                      OM.same_strict(fm["match"], e["match"]))]
      # an identical entry is replaced and needs no room; a new one does
      if self.max_entries is not None and len(rest) >= self.max_entries:
        errors.append((ET_FLOW_MOD_FAILED, FMFC_ALL_TABLES_FULL))
        return removed, errors
      self.entries = rest
      self.entries.append(self._new(fm, now))
      return removed, errors
    if cmd in (DELETE, DELETE_STRICT):
      keep = []
      for e in self.entries:
        if cmd == DELETE:
          m = OM.subsumes(fm["match"], e["match"])
        else:
          m = (e["priority"] == fm["priority"]
               and OM.same_strict(fm["match"], e["match"]))
        if m and self._has_out(e, fm["out_port"]):
          removed.append((e, RR_DELETE))
        else:
          keep.append(e)
      self.entries = keep
      return removed, errors
    return removed, errors

  def lookup (self, fields):
    m = [e for e in self.entries if OM.matches(e["match"], fields)]
    if not m: return []
    ex = [e for e in m if OM.is_exact(e["match"])]
    if ex: return ex
    top = max(e["priority"] for e in m)
    return [e for e in m if e["priority"] == top]

  def sweep (self, now):
    """Entries expiring at a sweep at time now: [(entry, set of admissible
    reasons)]."""
    out = []; keep = []
    for e in self.entries:
      reasons = set()
      if e["idle"] > 0 and now - e["used"] > e["idle"]: reasons.add(RR_IDLE)
      if e["hard"] > 0 and now - e["created"] > e["hard"]: reasons.add(RR_HARD)
      if reasons: out.append((e, reasons))
      else: keep.append(e)
    self.entries = keep
    return out
