"""
OpenFlow 1.0 actions applied to raw frames (section 3.3 / 5.2.4 of the
specification), independent of POX: header rewrites with IPv4 / TCP / UDP
checksum maintenance, VLAN push/modify/strip.  Output actions are returned
as ("out", port_spec, frame_bytes, max_len) steps for the caller to expand
according to port rules.
"""
import struct

from pvm.ref import inet, frames

OFPP_IN_PORT = 0xfff8
OFPP_TABLE = 0xfff9
OFPP_NORMAL = 0xfffa
OFPP_FLOOD = 0xfffb
OFPP_ALL = 0xfffc
OFPP_CONTROLLER = 0xfffd
OFPP_LOCAL = 0xfffe
OFPP_NONE = 0xffff
OFPP_MAX = 0xff00

PC_PORT_DOWN = 1 << 0
PC_NO_STP = 1 << 1
PC_NO_RECV = 1 << 2
PC_NO_RECV_STP = 1 << 3
PC_NO_FLOOD = 1 << 4
PC_NO_FWD = 1 << 5
PC_NO_PACKET_IN = 1 << 6

STP_MAC = bytes.fromhex("0180c2000000")


def _l2 (raw):
  """(tagged, tci, ethertype, l3 offset)"""
  t = struct.unpack_from("!H", raw, 12)[0]
  if t == 0x8100 and len(raw) >= 18:
    tci, t2 = struct.unpack_from("!HH", raw, 14)
    return True, tci, t2, 18
  return False, 0, t, 14


def _fix_ip (b, off):
  ihl = (b[off] & 15) * 4
  b[off + 10:off + 12] = b"\0\0"
  c = inet.csum(bytes(b[off:off + ihl]))
  b[off + 10:off + 12] = struct.pack("!H", c)


def _fix_l4 (b, off, udp_zero_stays):
  """Recompute TCP/UDP checksum of the IPv4 packet at off (not fragments)."""
  ihl = (b[off] & 15) * 4
  tl = struct.unpack_from("!H", b, off + 2)[0]
  ff = struct.unpack_from("!H", b, off + 6)[0]
  if (ff & 0x1fff) or (ff & 0x2000): return
  proto = b[off + 9]
  l4 = off + ihl
  end = min(len(b), off + tl)
  src = bytes(b[off + 12:off + 16]); dst = bytes(b[off + 16:off + 20])
  if proto == 6 and end - l4 >= 20:
    b[l4 + 16:l4 + 18] = b"\0\0"
    c = inet.l4_csum4(src, dst, 6, bytes(b[l4:end]))
    b[l4 + 16:l4 + 18] = struct.pack("!H", c)
  elif proto == 17 and end - l4 >= 8:
    old = bytes(b[l4 + 6:l4 + 8])
    if old == b"\0\0" and udp_zero_stays: return
    b[l4 + 6:l4 + 8] = b"\0\0"
    c = inet.l4_csum4(src, dst, 17, bytes(b[l4:end]))
    if c == 0: c = 0xffff
    b[l4 + 6:l4 + 8] = struct.pack("!H", c)


def _ip_off (raw):
  tagged, tci, et, off = _l2(raw)
  if et != 0x0800 or len(raw) < off + 20: return None
  if raw[off] >> 4 != 4: return None
  ihl = (raw[off] & 15) * 4
  if ihl < 20 or len(raw) < off + ihl: return None
  return off


def _l4_off (raw, off):
  ihl = (raw[off] & 15) * 4
  ff = struct.unpack_from("!H", raw, off + 6)[0]
  if (ff & 0x1fff) or (ff & 0x2000): return None, None
  proto = raw[off + 9]
  l4 = off + ihl
  tl = struct.unpack_from("!H", raw, off + 2)[0]
  end = min(len(raw), off + tl)
  if proto == 6 and end - l4 >= 20: return proto, l4
  if proto == 17 and end - l4 >= 8: return proto, l4
  return None, None


def apply_one (raw, a, udp_zero_stays=True):
  """Apply a non-output action (dict as in pvm.ref.ofwire) to raw bytes."""
  t = a["type"]
  b = bytearray(raw)
  if len(b) < 14: return bytes(b)
  tagged, tci, et, off = _l2(raw)
  if t == 1:      # set_vlan_vid
    vid = a["vlan_vid"] & 0xfff
    if tagged:
      b[14:16] = struct.pack("!H", (tci & 0xf000) | vid)
    else:
      b[12:12] = struct.pack("!HH", 0x8100, vid)
  elif t == 2:    # set_vlan_pcp
    pcp = a["vlan_pcp"] & 7
    if tagged:
      b[14:16] = struct.pack("!H", (tci & 0x1fff) | (pcp << 13))
    else:
      b[12:12] = struct.pack("!HH", 0x8100, pcp << 13)
  elif t == 3:    # strip_vlan
    if tagged: del b[12:16]
  elif t == 4: b[6:12] = a["dl_addr"]
  elif t == 5: b[0:6] = a["dl_addr"]
  elif t in (6, 7, 8):
    o = _ip_off(raw)
    if o is not None:
      if t == 6: b[o + 12:o + 16] = struct.pack("!L", a["nw_addr"])
      elif t == 7: b[o + 16:o + 20] = struct.pack("!L", a["nw_addr"])
      else: b[o + 1] = a["nw_tos"]
      _fix_ip(b, o)
      if t in (6, 7): _fix_l4(b, o, udp_zero_stays)
  elif t in (9, 10):
    o = _ip_off(raw)
    if o is not None:
      proto, l4 = _l4_off(raw, o)
      if l4 is not None:
        p = l4 + (0 if t == 9 else 2)
        b[p:p + 2] = struct.pack("!H", a["tp_port"])
        _fix_l4(b, o, udp_zero_stays)
  return bytes(b)


def run (raw, actions, udp_zero_stays=True):
  """
  Returns the list of output steps [(port_spec, frame bytes, max_len)] in
  order; the frame is the packet as modified so far.
  """
  steps = []
  cur = raw
  for a in actions:
    if a["type"] == 0:
      steps.append((a["port"], cur, a.get("max_len", 0)))
    elif a["type"] == 11:
      steps.append((a["port"], cur, 0))
    else:
      cur = apply_one(cur, a, udp_zero_stays)
  return steps


def expand (port_spec, in_port, ports):
  """
  Physical ports a frame goes out of for an output to port_spec.
  ports: {port_no: config bits} (PORT_DOWN also stands for link down).
  Returns list of port numbers, or one of the strings 'controller', 'table',
  'none'.
  """
  def ok (p):
    return p in ports and not ports[p] & (PC_NO_FWD | PC_PORT_DOWN)
  if port_spec < OFPP_MAX:
    return [port_spec] if port_spec != in_port and ok(port_spec) else []
  if port_spec == OFPP_IN_PORT:
    return [in_port] if ok(in_port) else []
  if port_spec == OFPP_FLOOD:
    return [p for p in sorted(ports) if p != in_port and ok(p)
            and not ports[p] & PC_NO_FLOOD]
  if port_spec == OFPP_ALL:
    return [p for p in sorted(ports) if p != in_port and ok(p)]
  if port_spec == OFPP_CONTROLLER: return "controller"
  if port_spec == OFPP_TABLE: return "table"
  return "none"


def accepts (port_cfg, raw):
  """Is a frame arriving on a port with this config accepted at all?"""
  stp = raw[0:6] == STP_MAC
  if port_cfg & PC_NO_RECV and not stp: return False
  if port_cfg & PC_NO_RECV_STP and stp: return False
  return True


def checksums_valid (raw):
  """List of problems with IPv4 / TCP / UDP checksums and lengths in raw."""
  probs = []
  o = _ip_off(raw)
  if o is None: return probs
  ihl = (raw[o] & 15) * 4
  if not inet.verify(raw[o:o + ihl]): probs.append("ipv4 header checksum")
  tl = struct.unpack_from("!H", raw, o + 2)[0]
  if tl > len(raw) - o: probs.append("ipv4 total length beyond frame")
  proto, l4 = _l4_off(raw, o)
  if l4 is not None:
    end = min(len(raw), o + tl)
    seg = raw[l4:end]
    src = raw[o + 12:o + 16]; dst = raw[o + 16:o + 20]
    if proto == 6:
      if inet.ones_sum(inet.pseudo4(src, dst, 6, len(seg)) + seg) != 0xffff:
        probs.append("tcp checksum")
    else:
      if seg[6:8] != b"\0\0" and \
         inet.ones_sum(inet.pseudo4(src, dst, 17, len(seg)) + seg) != 0xffff:
        probs.append("udp checksum")
      if struct.unpack_from("!H", seg, 4)[0] != len(seg):
        probs.append("udp length")
  return probs
