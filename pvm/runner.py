"""
E1: ./check <ID> [--tier quick|thorough] [--replay FILE]

Splits a check into shards, runs each in a fresh interpreter, merges the
reports, classifies monitor firings against known_findings.json, writes the
evidence file and (for a new violation) a replay file.

Exit codes: 0 held on everything explored; 1 VIOLATION (new); 2 INCONCLUSIVE.
"""
import argparse
import hashlib
import importlib
import json
import os
import subprocess
import sys
import tempfile
import time
from concurrent.futures import ThreadPoolExecutor

HERE = os.path.dirname(os.path.dirname(os.path.abspath(__file__)))
PY = os.environ.get("VERIF_PYTHON", "/venv/bin/python")
if not os.path.exists(PY): PY = sys.executable

sys.path.insert(0, HERE)
from pvm.report import load_hashes


def load_known ():
  p = os.path.join(HERE, "known_findings.json")
  if not os.path.exists(p): return []
  with open(p) as f:
    return json.load(f)


def worker_env ():
  env = dict(os.environ)
  env["PYTHONDONTWRITEBYTECODE"] = "1"
  env["PYTHONPATH"] = HERE
  env.setdefault("VERIF_REPO", "/repo")
  env.pop("NOXREPO_POX_VERIF", None)
  return env


def run_shard (cid, spec, tmpdir, idx, timeout):
  sp = os.path.join(tmpdir, "spec%d.json" % idx)
  op = os.path.join(tmpdir, "out%d.json" % idx)
  with open(sp, "w") as f: json.dump(spec, f)
  t0 = time.time()
  try:
    # (a shard whose spec says so runs with assertions stripped, python -O)
    opt = ["-O"] if spec.get("no_asserts") else []
    p = subprocess.run([PY, "-X", "faulthandler"] + opt +
                       ["-m", "pvm.worker", cid, sp, op],
                       env=worker_env(), cwd=HERE, timeout=timeout,
                       stdout=subprocess.PIPE, stderr=subprocess.PIPE)
  except subprocess.TimeoutExpired as e:
    return dict(idx=idx, status="timeout", wall=time.time() - t0,
                err=(e.stderr or b"")[-2000:].decode("utf8", "replace"))
  if p.returncode != 0 or not os.path.exists(op):
    return dict(idx=idx, status="crash", rc=p.returncode,
                wall=time.time() - t0,
                err=p.stderr[-4000:].decode("utf8", "replace"))
  with open(op) as f:
    d = json.load(f)
  d["hashes"] = load_hashes(op + ".hashes")
  d["idx"] = idx
  d["status"] = "ok"
  d["wall"] = time.time() - t0
  return d


def main (argv=None):
  ap = argparse.ArgumentParser()
  ap.add_argument("id")
  ap.add_argument("--tier", default=os.environ.get("VERIF_TIER", "quick"),
                  choices=["quick", "thorough"])
  ap.add_argument("--replay", default=None)
  ap.add_argument("--jobs", type=int,
                  default=int(os.environ.get("VERIF_JOBS", "16")))
  ap.add_argument("--no-evidence", action="store_true")
  args = ap.parse_args(argv)
  cid = args.id.upper()
  seed = int(os.environ.get("VERIF_SEED", "0") or 0)
  t0 = time.time()

  mod = importlib.import_module("pvm.checks." + cid.lower())

  replay_mode = args.replay is not None
  if not replay_mode:
    # replay files describe the latest run only
    rdir = os.path.join(HERE, "replays", cid)
    if os.path.isdir(rdir):
      for fn in os.listdir(rdir):
        if fn.endswith(".json"):
          try: os.unlink(os.path.join(rdir, fn))
          except OSError: pass
  if replay_mode:
    with open(args.replay) as f:
      rp = json.load(f)
    specs = [dict(replay=rp["witness"], key=rp.get("key"),
                  verbose_logs=bool((rp.get("spec") or {}).get("verbose_logs")),
                  no_asserts=bool((rp.get("spec") or {}).get("no_asserts")))]
  else:
    specs = mod.plan(args.tier, seed)
    for i, s in enumerate(specs):
      s.setdefault("tier", args.tier)
      s.setdefault("seed", seed)
      s.setdefault("shard", i)
      s.setdefault("nshards", len(specs))
      # every fourth shard runs with the log level at DEBUG (see env.boot)
      s.setdefault("verbose_logs", os.environ.get("PVM_VERBOSE_LOGS", "") == "all"
                   or (i % 4 == 3 and os.environ.get("PVM_VERBOSE_LOGS", "") != "none"))
      # ... and every fourth (another one) with assertions stripped, as
      # `python -O pox.py` runs a controller
      s.setdefault("no_asserts", os.environ.get("PVM_NO_ASSERTS", "") == "all"
                   or (i % 4 == 1 and os.environ.get("PVM_NO_ASSERTS", "") != "none"))

  default_to = getattr(mod, "TIMEOUT", {}).get(args.tier, 900
                                                if args.tier == "quick"
                                                else 7200)
  results = []
  with tempfile.TemporaryDirectory(prefix="pvm-" + cid + "-") as tmpdir:
    with ThreadPoolExecutor(max_workers=max(1, args.jobs)) as ex:
      futs = [ex.submit(run_shard, cid, s, tmpdir, i,
                        s.get("timeout", default_to))
              for i, s in enumerate(specs)]
      for f in futs:
        results.append(f.result())

  if os.environ.get("PVM_TIMING"):
    for r in sorted(results, key=lambda r: -r.get("wall", 0))[:12]:
      print("  shard %d %s %.1fs %s" % (r["idx"], r["status"], r.get("wall", 0),
            json.dumps({k: v for k, v in specs[r["idx"]].items()
                        if k not in ("tier", "seed", "nshards")})[:160]))

  # ---- merge ----
  evaluations = 0
  hashes = set()
  overflow = 0
  counters = {}
  samples = []
  violations = {}
  inconclusive = []
  extra = {}
  for r in results:
    if r["status"] != "ok":
      inconclusive.append("shard %d %s: %s" % (r["idx"], r["status"],
                                               r.get("err", "")[-600:]))
      continue
    evaluations += r["evaluations"]
    hashes |= r["hashes"]
    overflow += r["hash_overflow"]
    for k, v in r["counters"].items():
      if k.startswith("max:"):
        counters[k] = max(counters.get(k, 0), v)
      else:
        counters[k] = counters.get(k, 0) + v
    for s in r["samples"]:
      if len(samples) < 8: samples.append(s)
    for k, v in r["violations"].items():
      # (the shard's spec goes into the replay file: a witness that only
      #  fails after the cases that preceded it in its shard can then be
      #  reproduced by re-running that shard)
      v["spec"] = specs[r["idx"]] if r["idx"] < len(specs) else None
      o = violations.get(k)
      if o is None:
        violations[k] = v
      else:
        o["count"] += v["count"]
        if len(json.dumps(v["witness"])) < len(json.dumps(o["witness"])):
          o["witness"] = v["witness"]; o["what"] = v["what"]
          o["spec"] = v["spec"]
    inconclusive.extend(r["inconclusive"])
    for k, v in (r.get("extra") or {}).items():
      extra.setdefault(k, v)

  required = getattr(mod, "REQUIRED", [])
  if not replay_mode:
    for c in required:
      if counters.get(c, 0) <= 0:
        inconclusive.append("required monitor counter %r is zero" % (c,))

  # ---- classify ----
  known = load_known()
  known_keys = {(k["property"], k["key"]): k for k in known
                if k.get("status") == "known"}
  new = []
  known_hit = []
  for k in sorted(violations):
    v = violations[k]
    e = known_keys.get((cid, k))
    if e is not None:
      known_hit.append((k, v, e))
    else:
      new.append((k, v))

  for k, v, e in known_hit:
    print("KNOWN-FINDING: property=%s %s [%s] (seen %d times this run)" %
          (cid, e.get("what", ""), k, v["count"]))

  rc = 0
  replay_paths = []
  for k, v in new:
    rdir = os.path.join(HERE, "replays", cid)
    os.makedirs(rdir, exist_ok=True)
    h = hashlib.sha1(k.encode()).hexdigest()[:12]
    path = os.path.join(rdir, h + ".json")
    if not replay_mode:
      with open(path, "w") as f:
        json.dump(dict(property=cid, key=k, what=v["what"],
                       witness=v["witness"], seed=seed, tier=args.tier,
                       count=v["count"], spec=v.get("spec")), f, indent=1)
    else:
      path = args.replay
    replay_paths.append(path)
    print("VIOLATION property=%s replay=%s" % (cid, path))
    print("  key: %s" % k)
    print("  what: %s" % v["what"][:1200])
    rc = 1

  if rc == 0 and inconclusive:
    for r in inconclusive[:10]:
      print("INCONCLUSIVE property=%s reason=%s" % (cid, r))
    rc = 2

  wall = time.time() - t0
  if not replay_mode and not args.no_evidence:
    cov = dict(evaluations=evaluations,
               distinct_nontrivial=len(hashes),
               rule=getattr(mod, "RULE", ""),
               samples=samples,
               exhaustive=False,
               shards=len(specs),
               shards_ok=sum(1 for r in results if r["status"] == "ok"),
               distinct_count_overflow=overflow,
               monitor_counters=counters,
               required_counters=required,
               known_findings_seen=[k for k, _, _ in known_hit],
               new_violation_keys=[k for k, _ in new],
               inconclusive=inconclusive[:10])
    cov.update(extra)
    ev = dict(property_id=cid, tier=args.tier, seed=seed,
              level=getattr(mod, "LEVEL", "exploration"),
              coverage=cov,
              assumptions=getattr(mod, "ASSUMPTIONS", []),
              wall_s=round(wall, 2),
              violations=len(new))
    os.makedirs(os.path.join(HERE, "evidence"), exist_ok=True)
    with open(os.path.join(HERE, "evidence", cid + ".json"), "w") as f:
      json.dump(ev, f, indent=1, sort_keys=True)

  print("%s %s tier=%s seed=%d evaluations=%d distinct=%d shards=%d "
        "known=%d new=%d wall=%.1fs" %
        (cid, {0: "HELD", 1: "VIOLATED", 2: "INCONCLUSIVE"}[rc], args.tier,
         seed, evaluations, len(hashes), len(specs), len(known_hit),
         len(new), wall))
  if counters:
    print("  counters: " + ", ".join("%s=%s" % kv
                                     for kv in sorted(counters.items())))
  return rc


if __name__ == "__main__":
  sys.exit(main())
