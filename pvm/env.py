"""
Worker-side bootstrap: put the repository under test on sys.path and import
pox in a way that does not start threads.

Everything that touches POX internals in order to *drive* it (not to judge
it) goes through here or through an adapter module, so that a renamed
private attribute produces INCONCLUSIVE (AdapterError) and not a VIOLATION.
"""
import os
import sys

REPO = os.environ.get("VERIF_REPO", "/repo")


class AdapterError(Exception):
  """The harness could not find what it needs to drive the code."""


class Inconclusive(Exception):
  pass


_booted = False


LOG_STATS = {"on": False, "records": 0, "unformattable": 0}


def boot (quiet_logs=True, verbose_logs=False):
  """
  Import pox.core without creating a core object.  Must be called before
  anything imports unittest.
  """
  global _booted
  if _booted: return
  _booted = True
  sys.dont_write_bytecode = True
  if REPO not in sys.path:
    sys.path.insert(0, REPO)
  if 'unittest' in sys.modules or 'nose' in sys.modules:
    raise Inconclusive("unittest imported before pox.core")
  import pox.core
  if pox.core.core is not None:
    raise Inconclusive("pox.core.core exists after import")
  if os.path.realpath(os.path.dirname(os.path.dirname(pox.__file__))) != \
     os.path.realpath(REPO):
    raise Inconclusive("pox imported from %s, not %s" % (pox.__file__, REPO))
  if quiet_logs:
    import logging
    logging.getLogger().addHandler(logging.NullHandler())
    logging.getLogger().setLevel(logging.CRITICAL + 10)
    logging.raiseExceptions = False
  if verbose_logs:
    # what `log.level --DEBUG` does: every log call of the code under test is
    # made and its message formatted (into nowhere).  What the code does must
    # not depend on it.
    import logging
    class Sink (logging.Handler):
      def emit (self, record):
        LOG_STATS["records"] += 1
        self.format(record)
      def handleError (self, record):
        LOG_STATS["unformattable"] += 1
    h = Sink()
    h.setFormatter(logging.Formatter("%(name)s %(levelname)s %(message)s"))
    logging.getLogger().addHandler(h)
    logging.getLogger().setLevel(logging.DEBUG)
    LOG_STATS["on"] = True


def make_core (threaded=False, epoll=False, silent=True):
  """
  Create the process-wide core with a scheduler that has no threads unless
  `threaded` is set.  One per process.
  """
  boot()
  import pox.core
  if pox.core.core is not None:
    raise Inconclusive("second core in one process")
  # pox.core refers to the scheduler class as pox.core.recoco.Scheduler
  # (the pox.lib.recoco package namespace)
  try:
    ns = pox.core.recoco
    RealScheduler = ns.Scheduler
  except AttributeError as e:
    raise AdapterError("pox.core.recoco.Scheduler: %r" % (e,))
  if not threaded:
    def factory (*args, **kw):
      kw['startInThread'] = False
      kw['threaded_selecthub'] = False
      kw.setdefault('daemon', True)
      return RealScheduler(*args, **kw)
    try:
      ns.Scheduler = factory
      import io, contextlib
      with contextlib.redirect_stdout(io.StringIO()):
        core = pox.core.initialize(threaded_selecthub=False,
                                   epoll_selecthub=epoll,
                                   handle_signals=False)
    finally:
      ns.Scheduler = RealScheduler
    import threading
    if core.scheduler._thread is not None or \
       core.scheduler._selectHub._thread is not None:
      raise AdapterError("scheduler started threads although asked not to")
  else:
    import io, contextlib
    with contextlib.redirect_stdout(io.StringIO()):
      core = pox.core.initialize(threaded_selecthub=True,
                                 epoll_selecthub=epoll,
                                 handle_signals=False)
  return core
