"""
C06 - the cooperative scheduler runs every task step exactly once, in
isolation.

Generated task programs over the yield vocabulary (reschedule, numeric and
Sleep timers relative/absolute, Select with and without data and timeout,
Recv, block + wake by another task, sub-task calls that return or raise,
raise, Timer objects) run on the real recoco Scheduler/SelectHub driven
single-threaded under a virtual clock (engine E2), with the select()-based
and the epoll-based hub.  The task bodies themselves log every resumption
(task, step, virtual time, value received); each program ends in a long
sentinel sleep so that a spurious extra wake-up shows up as an early resume.
"""
import random
import traceback

from pvm import simnet

ID = "C06"
LEVEL = "exploration"
RULE = ("a case is a set of 1-6 task programs (lists of steps from the yield "
        "vocabulary, priorities 0.3/1) plus timers and external data "
        "arrivals; small programs over a reduced vocabulary are enumerated, "
        "larger ones drawn from VERIF_SEED; non-trivial = at least two tasks "
        "interact (wake, data, sub-task) or a timer recurs; distinct = "
        "distinct case")
ASSUMPTIONS = ["virtual time: timers fire when the driver reaches their "
               "deadline; real-time accuracy is out of scope",
               "the hand-off between real threads is C07's; here the hub runs "
               "inline, or in its threaded configuration with the driver making "
               "its thread's passes (one legal interleaving of the two threads)",
               "fairness over unbounded runs is not decided: every runnable "
               "task must have run by quiescence of a bounded program"]
REQUIRED = ["programs", "fires_of_recurring_timers_with_interval_zero", "redundant_wakes_of_a_queued_task", "steps_checked", "timed_resumes", "select_timeouts",
            "select_ready", "wakes", "subtask_returns", "subtask_raises",
            "tasks_raised", "timer_fires", "timers_cancelled", "quiescent_checks",
            "programs_natural_drive", "natural_select_timeouts",
            "nested_subtask_returns", "nested_subtask_raises",
            "late_started_timers", "absolute_timers", "tasks_raised_non_exception",
            "select_with_non_list_collections",
            "timer_callbacks_returning_a_value", "programs_on_the_scheduler_thread",
            "recv_timeouts", "select_keyword_timeouts", "select_several_ready",
            "select_writable", "tasks_failed_in_blocking_op",
            "blocks_via_sleep_without_time", "sleeps_to_a_past_deadline",
            "subtask_falsy_returns", "plain_task_functions",
            "timers_that_may_not_stop_themselves",
            "programs_on_real_descriptors",
            "select_same_descriptor_for_reading_and_writing",
            "descriptors_closed_right_after_their_wait",
            "descriptor_numbers_reused",
            "programs_with_the_hub_as_its_own_thread",
            "programs_with_very_many_tasks"]
TIMEOUT = {"quick": 1200, "thorough": 9000}

_st = {}
HORIZON = 400.0
SENTINEL = 1000.0


def get_world (epoll, hubmode=None):
  w = _st.get("w")
  if w is None:
    w = simnet.World(epoll=epoll)
    if hubmode == "threaded": w.hub_as_its_own_thread()
    _st["w"] = w
    _st["epoll"] = epoll
    _st["hubmode"] = hubmode
    sched = w.sched
    real_cycle = sched.cycle
    def cycle ():
      seen = set()
      for t in list(sched._ready):
        if id(t) in seen: _st.setdefault("dups", []).append(repr(t))
        seen.add(id(t))
      return real_cycle()
    sched.cycle = cycle
  elif _st["epoll"] != epoll or _st.get("hubmode") != hubmode:
    raise simnet.Inconclusive("one hub mode per process")
  return w


def same_value (got, want):
  """A sub-task's result reaches its caller as it is: 0 is not None, nor
  False, nor 0.0."""
  return type(got) is type(want) and got == want


class _Horizon (BaseException):
  pass


class TaskAbort (BaseException):
  pass


def run_program (case, rep):
  import pox.lib.recoco.recoco as rc
  w = get_world(case["epoll"], case.get("hubmode"))
  if case.get("hubmode") == "threaded": rep.count("programs_with_the_hub_as_its_own_thread")
  clock = w.clock
  sched = w.sched
  def fire (key, what):
    rep.violation("C06 " + key, what, case)
  rep.count("programs")
  import threading
  saved_thread = sched._thread
  if case.get("inthread"):
    # as in production, the code that wakes tasks runs on the scheduler's
    # own thread: schedule() takes its direct branch, not the ScheduleTask one
    sched._thread = threading.current_thread()
    rep.count("programs_on_the_scheduler_thread")
  # the hub's wake-up pipe must never be read while it is empty (the read
  # would block the thread that runs the scheduler): watched for the
  # programs with very many tasks, where the number of pending pings passes
  # the size of one read
  import pox.lib.util as U
  import os as _os, select as _sel
  saved_os = U.os
  if case.get("mass"):
    blocked = []
    class OsShim (object):
      def __getattr__ (self, n): return getattr(_os, n)
      def read (self, fd, n):
        if not _sel.select([fd], [], [], 0)[0]:
          blocked.append(fd)
          raise BlockingIOError("read of an empty wake-up pipe")
        return _os.read(fd, n)
    U.os = OsShim()
    rep.count("programs_with_very_many_tasks")
  try:
    r = _run_program(case, rep, w, clock, sched, fire, rc)
    if case.get("mass") and blocked:
      fire("the wake-up pipe is read while empty (would block the scheduler thread)",
           "%d tasks" % len(case["tasks"]))
    return r
  finally:
    U.os = saved_os
    sched._thread = saved_thread
    if case.get("realfd") and _st.get("w") is w:
      # (also after a violation: nothing of this program stays behind)
      for t in list(w.hub._tasks.keys()):
        del w.hub._tasks[t]
      while not w.hub._incoming.empty():
        w.hub._incoming.get()
      close_real(w, *_st.pop("real", ({}, {}, False)))


def _run_program (case, rep, w, clock, sched, fire, rc):
  _st["dups"] = []
  errs = []
  tasks = {}
  state = dict(running=None)
  socks = {}
  finished = set()
  past_sentinel = []
  externals = []      # (time, fn)
  blocked = set(); resumes = {}; wakes_to = {}; pending_wake = set()
  t_start = clock.now
  nt = [False]

  # With "realfd" the descriptors are real ones (socket pairs): those reach
  # the hub's own select function -- select.select or the epoll emulation --
  # instead of being answered by the stand-in.
  real = bool(case.get("realfd"))
  peers = {}
  w.stats["strict_real"] = real
  _st["real"] = (socks, peers, real)
  if real: rep.count("programs_on_real_descriptors")

  def sock (name):
    if name not in socks:
      if real:
        import socket
        a, b = socket.socketpair()
        a.setblocking(False); b.setblocking(False)
        socks[name] = a; peers[a] = b
      else:
        socks[name] = simnet.FakeSocket(name)
    return socks[name]

  def feed (s, p):
    if real: peers[s].send(p)
    else: s.feed(p)

  def block (s):
    """Fills s's send buffer: not writable until unblock()."""
    if real:
      try:
        while True: s.send(b"x" * 65536)
      except BlockingIOError:
        pass
    else:
      s.send_script = ["eagain_blocked"]
      try: s.send(b"x")
      except Exception: pass

  def unblock (s):
    if real:
      try:
        while peers[s].recv(1 << 20): pass
      except BlockingIOError:
        pass
    else:
      s.unblock()

  def done_with (*ss):
    """What a program does with a connection it has finished with."""
    if not (real and case.get("close_after")): return
    for s in ss:
      for name, x in list(socks.items()):
        if x is s: del socks[name]
      p = peers.pop(s, None)
      s.close()
      if p is not None: p.close()
      rep.count("descriptors_closed_right_after_their_wait")

  def enter (tid):
    if state["running"] is not None:
      errs.append(("steps of two tasks overlap", "%r while %r runs" %
                   (tid, state["running"])))
    state["running"] = tid
  def leave ():
    state["running"] = None

  def nested (tag, plan, use_tf):
    """The sub-task's own sub-task call, judged like the caller's."""
    ip = plan["inner"]
    itag = tuple(tag) + ("i",)
    try:
      if use_tf: iv = yield tf_sub(itag, ip)
      else: iv = yield rc.Again(sub(itag, ip))
      if ip["end"] == "raise":
        errs.append(("sub-task exception did not reach its caller",
                     "nested call %r got value %r" % (itag, iv)))
      elif not same_value(iv, ip["value"]):
        errs.append(("sub-task result did not reach its caller",
                     "nested call %r got %r expected %r" % (itag, iv, ip["value"])))
      else:
        rep.count("nested_subtask_returns")
    except ValueError as e:
      if ip["end"] != "raise" or repr(itag) not in str(e):
        errs.append(("caller received another sub-task's exception",
                     "nested call %r: %r" % (itag, e)))
      else:
        rep.count("nested_subtask_raises")
      if plan.get("propagate"): raise

  def sub (tag, plan):
    """Sub-task body: some blocking ops, then return a value or raise."""
    if plan.get("inner"):
      yield rc.Again(nested(tag, plan, False))
    for d in plan["ops"]:
      enter(tag); leave()
      t0 = clock.now
      yield rc.Sleep(d)
      enter(tag)
      if clock.now < t0 + d - 1e-9:
        errs.append(("sub-task resumed before its requested time",
                     "%.3f < %.3f" % (clock.now, t0 + d)))
      leave()
    if plan["end"] == "ret":
      yield plan["value"]
    elif plan["end"] == "raise":
      raise ValueError("sub-task %s fails" % (tag,))

  @rc.task_function
  def tf_sub (tag, plan):
    if plan.get("inner"):
      yield rc.Again(nested(tag, plan, True))
    for d in plan["ops"]:
      yield rc.Sleep(d)
    if plan["end"] == "raise":
      raise ValueError("sub-task %s fails" % (tag,))
    yield plan["value"]

  @rc.task_function
  def tf_plain (tag, plan):
    # an ordinary function behind the decorator: its return value is the
    # result (it cannot block)
    if plan["end"] == "raise":
      raise ValueError("sub-task %s fails" % (tag,))
    return plan["value"]

  def body (tid, steps):
    for k, st in enumerate(steps):
      kind = st[0]
      t0 = clock.now
      leave()
      rep.count("steps_checked")
      if kind == "y0":
        v = yield 0
        enter(tid)
        if v is not None:
          errs.append(("plain reschedule received a stale value",
                       "task %s step %d got %r" % (tid, k, v)))
      elif kind in ("num", "sleep", "sleep_abs"):
        d = st[1]
        if kind == "num": v = yield d
        elif kind == "sleep": v = yield rc.Sleep(d)
        else: v = yield rc.Sleep(t0 + d, absoluteTime=True)
        enter(tid)
        rep.count("timed_resumes")
        if kind == "sleep_abs" and d <= 0:
          # a deadline that has already passed: resumed at once, not lost
          rep.count("sleeps_to_a_past_deadline")
          if clock.now > t0 + 1e-6 and case.get("drive") != "natural":
            errs.append(("sleep to a past deadline did not resume at once",
                         "task %s step %d: +%.3f" % (tid, k, clock.now - t0)))
        if clock.now < t0 + d - 1e-9:
          errs.append(("task resumed before its requested time",
                       "task %s step %d (%s %.2f): resumed at +%.3f" %
                       (tid, k, kind, d, clock.now - t0)))
        if clock.now > t0 + max(d, 0) + 1e-6 and d > 0 and case.get("drive") != "natural":
          errs.append(("timed wait resumed late in virtual time",
                       "task %s step %d: %.3f late" % (tid, k, clock.now - t0 - d)))
      elif kind == "sel_to":
        s = sock("%s/%d" % (tid, k))
        # (descriptor collections as list / tuple / set, timeout positional)
        shape = (list, tuple, frozenset)[(tid + k) % 3]
        if shape is not list: rep.count("select_with_non_list_collections")
        if (tid + k) % 2:
          v = yield rc.Select(shape([s]), shape([]), shape([s]), timeout=st[1])
          rep.count("select_keyword_timeouts")
        else:
          v = yield rc.Select(shape([s]), shape([]), shape([s]), st[1])
        enter(tid)
        rep.count("select_timeouts")
        if clock.now < t0 + st[1] - 1e-9:
          errs.append(("select with timeout returned early without I/O",
                       "task %s step %d at +%.3f of %.3f" %
                       (tid, k, clock.now - t0, st[1])))
        if v is None or any(len(x) for x in v):
          errs.append(("select timeout did not return empty lists", repr(v)))
        done_with(s)
      elif kind in ("sel_data", "recv"):
        s = sock("%s/%d" % (tid, k))
        payload = b"d-%s-%d" % (str(tid).encode(), k)
        externals.append((t0 + st[1], lambda s=s, p=payload: feed(s, p)))
        nt[0] = True
        if kind == "sel_data":
          other = sock("%s/%d/quiet" % (tid, k))
          shape = (list, tuple)[(tid + k) % 2]
          v = yield rc.Select(shape([other, s]), shape([]), shape([]), st[2])
          enter(tid)
          rep.count("select_ready")
          if v is None or list(v[0]) != [s] or v[1] or v[2]:
            errs.append(("select did not resume with exactly the ready "
                         "descriptors", "task %s step %d got %r" % (tid, k, v)))
          if clock.now < t0 + st[1] - 1e-9:
            errs.append(("select returned before data arrived", ""))
          done_with(s, other)
        else:
          v = yield rc.Recv(s)
          enter(tid)
          rep.count("select_ready")
          if v != payload:
            errs.append(("Recv did not return the data that arrived",
                         "task %s step %d got %r" % (tid, k, v)))
          done_with(s)
      elif kind == "recv_to":
        # a receive with a timeout on a socket nothing arrives on: resumes at
        # the timeout, with None, once
        s = sock("%s/%d" % (tid, k))
        v = yield rc.Recv(s, timeout=st[1])
        enter(tid)
        rep.count("recv_timeouts")
        if clock.now < t0 + st[1] - 1e-9:
          errs.append(("receive with timeout returned early without I/O",
                       "task %s step %d at +%.3f of %.3f" % (tid, k, clock.now - t0, st[1])))
        if v is not None:
          errs.append(("receive that timed out returned data", repr(v)))
        done_with(s)
      elif kind == "sel_two":
        # two descriptors of one Select become ready at the same instant
        a = sock("%s/%d/a" % (tid, k)); b = sock("%s/%d/b" % (tid, k))
        q = sock("%s/%d/q" % (tid, k))
        externals.append((t0 + st[1], lambda a=a, b=b: (feed(a, b"A"), feed(b, b"B"))))
        nt[0] = True
        v = yield rc.Select([a, q, b], [], [], st[2])
        enter(tid)
        rep.count("select_several_ready")
        if v is None or sorted(map(id, v[0])) != sorted([id(a), id(b)]) or v[1] or v[2]:
          errs.append(("select did not resume with exactly the ready descriptors",
                       "task %s step %d (two ready) got %r" % (tid, k, v)))
        done_with(a, b, q)
      elif kind == "sel_w":
        # waiting for writability: the socket's send buffer is full until an
        # external drains it
        s = sock("%s/%d" % (tid, k))
        block(s)
        q = sock("%s/%d/q" % (tid, k))
        externals.append((t0 + st[1], lambda s=s: unblock(s)))
        nt[0] = True
        v = yield rc.Select([q], [s], [], st[2])
        enter(tid)
        rep.count("select_writable")
        if v is None or list(v[1]) != [s] or v[0] or v[2]:
          errs.append(("select did not resume with exactly the ready descriptors",
                       "task %s step %d (writable) got %r" % (tid, k, v)))
        if clock.now < t0 + st[1] - 1e-9:
          errs.append(("select reported a blocked socket writable", ""))
        done_with(s, q)
      elif kind == "sel_rw":
        # one descriptor waited on for reading and for writing at once (by
        # one Select, or by a second task's Select in the same hub pass): its
        # send buffer is full, data arrives
        s = sock("%s/%d" % (tid, k))
        block(s)
        externals.append((t0 + st[1], lambda s=s: feed(s, b"R")))
        nt[0] = True
        v = yield rc.Select([s], [s], [], st[2])
        enter(tid)
        rep.count("select_same_descriptor_for_reading_and_writing")
        if v is None or list(v[0]) != [s] or v[1] or v[2]:
          errs.append(("select did not resume with exactly the ready descriptors",
                       "task %s step %d (read+write wait, readable) got %r" % (tid, k, v)))
        if clock.now < t0 + st[1] - 1e-9:
          errs.append(("select returned before data arrived", ""))
        # ... and now it drains: writable as well
        t1 = clock.now
        externals.append((t1 + st[1], lambda s=s: unblock(s)))
        try: s.recv(10)
        except Exception: pass
        leave()
        v = yield rc.Select([s], [s], [], st[2])
        enter(tid)
        if v is None or list(v[1]) != [s] or v[0] or v[2]:
          errs.append(("select did not resume with exactly the ready descriptors",
                       "task %s step %d (read+write wait, writable) got %r" % (tid, k, v)))
        if clock.now < t1 + st[1] - 1e-9:
          errs.append(("select reported a blocked socket writable", ""))
        done_with(s)
      elif kind == "reuse":
        # a connection is finished with and closed, the next one is opened
        # (and, the way descriptors are handed out, gets the same number)
        # and waited on without the hub having run in between
        s1 = sock("%s/%d/1" % (tid, k))
        externals.append((t0 + st[1], lambda s=s1: feed(s, b"one")))
        nt[0] = True
        v = yield rc.Recv(s1)
        enter(tid)
        if v != b"one":
          errs.append(("Recv did not return the data that arrived",
                       "task %s step %d got %r" % (tid, k, v)))
        fd1 = s1.fileno()
        if real:
          for name, x in list(socks.items()):
            if x is s1: del socks[name]
          peers.pop(s1).close(); s1.close()
        s2 = sock("%s/%d/2" % (tid, k))
        if real and s2.fileno() == fd1: rep.count("descriptor_numbers_reused")
        t1 = clock.now
        externals.append((t1 + st[1], lambda s=s2: feed(s, b"two")))
        leave()
        v = yield rc.Recv(s2)
        enter(tid)
        rep.count("select_ready")
        if v != b"two":
          errs.append(("Recv did not return the data that arrived",
                       "task %s step %d (second connection) got %r" % (tid, k, v)))
        done_with(s2)
      elif kind == "bad_op":
        # a blocking operation that fails when the scheduler executes it: the
        # task is descheduled, nobody else is affected
        enter(tid)
        rep.count("tasks_failed_in_blocking_op")
        finished.add(tid)
        leave()
        class Broken (rc.BlockingOperation):
          def execute (self_, task, scheduler):
            if st[1] == "base": raise TaskAbort("operation of task %s fails" % (tid,))
            raise RuntimeError("operation of task %s fails" % (tid,))
        v = yield Broken()
        enter(tid)
        errs.append(("task resumed after its blocking operation failed",
                     "task %s step %d got %r" % (tid, k, v)))
      elif kind == "block":
        # unschedule; somebody wakes us
        blocked.add(tid)
        if (tid + k) % 2:
          rep.count("blocks_via_sleep_without_time")
          v = yield rc.Sleep()
        else:
          v = yield False
        enter(tid)
        blocked.discard(tid); pending_wake.discard(tid)
        rep.count("wakes")
        nt[0] = True
        resumes[tid] = resumes.get(tid, 0) + 1
        if resumes[tid] > wakes_to.get(tid, 0):
          errs.append(("blocked task resumed without being woken",
                       "task %s step %d: %d resumes, %d wake-ups sent" %
                       (tid, k, resumes[tid], wakes_to.get(tid, 0))))
      elif kind == "wake":
        # wake task st[2] -- only if it is blocked right now (waking a task
        # that sits in a timer or select is a usage error, not a scheduler one)
        enter(tid)
        tgt = tasks.get(st[2])
        if tgt is not None and st[2] in blocked and tgt not in sched._ready \
           and st[2] not in pending_wake:
          wakes_to[st[2]] = wakes_to.get(st[2], 0) + 1
          pending_wake.add(st[2])
          if st[3] == "schedule": sched.schedule(tgt)
          else: sched.fast_schedule(tgt)
        leave()
        v = yield 0
        enter(tid)
      elif kind == "poke":
        # schedule() for a task that is in the ready queue already (it
        # yielded 0, or its wait just ended): documented as harmless - the
        # task must not end up queued twice
        enter(tid)
        tgt = tasks.get(st[1])
        # (only as a task does it in a running system, on the scheduler's own
        #  thread, where schedule() looks at the queue there and then; from
        #  any other thread the look happens later, and a task that has gone
        #  to sleep by then is woken - the caller's mistake, not a defect)
        import threading as _th
        if tgt is not None and st[1] != tid and tgt in sched._ready \
           and sched._thread is _th.current_thread():
          sched.schedule(tgt)
          rep.count("redundant_wakes_of_a_queued_task")
          nt[0] = True
        leave()
        v = yield 0
        enter(tid)
      elif kind in ("again", "tf"):
        plan = st[1]
        nt[0] = True
        ip = plan.get("inner")
        exp_raise = plan["end"] == "raise"
        exp_tag = (tid, k)
        min_time = sum(plan["ops"])
        if ip:
          min_time = sum(ip["ops"])
          if ip["end"] == "raise" and plan.get("propagate"):
            exp_raise = True; exp_tag = (tid, k, "i")
          else:
            min_time += sum(plan["ops"])
        try:
          if kind == "again": v = yield rc.Again(sub((tid, k), plan))
          elif plan.get("plain"):
            rep.count("plain_task_functions")
            v = yield tf_plain((tid, k), plan)
          else: v = yield tf_sub((tid, k), plan)
          enter(tid)
          if exp_raise:
            errs.append(("sub-task exception did not reach its caller",
                         "task %s step %d got value %r" % (tid, k, v)))
          elif not same_value(v, plan["value"]):
            errs.append(("sub-task result did not reach its caller",
                         "task %s step %d got %r expected %r" %
                         (tid, k, v, plan["value"])))
          else:
            rep.count("subtask_returns")
            if not plan["value"]: rep.count("subtask_falsy_returns")
        except ValueError as e:
          enter(tid)
          if not exp_raise or str(e) != "sub-task %s fails" % (exp_tag,):
            errs.append(("caller received another sub-task's exception",
                         "task %s step %d: %r" % (tid, k, e)))
          else:
            rep.count("subtask_raises")
        if clock.now < t0 + min_time - 1e-9:
          errs.append(("caller resumed before its sub-task finished", ""))
      elif kind == "raise":
        enter(tid)
        rep.count("tasks_raised")
        finished.add(tid)
        leave()
        if len(st) > 1 and st[1] == "base":
          # a failure that is not an Exception subclass (sys.exit() in a task
          # is one): "a task that raises is descheduled without affecting the
          # others" makes no exception for those
          rep.count("tasks_raised_non_exception")
          raise TaskAbort("task %s aborts on purpose" % (tid,))
        raise RuntimeError("task %s fails on purpose" % (tid,))
      else:
        raise KeyError(kind)
    finished.add(tid)
    leave()
    yield rc.Sleep(SENTINEL)
    past_sentinel.append((tid, clock.now))
    yield False

  timers = []
  TIMER_RETURNS = [None, True, 0, 0.0, "", 1, (), 0j, False]
  def make_timer (spec):
    fires = []
    tm = dict(spec=spec, fires=fires, created=clock.now, cancelled_at=None)
    def cb ():
      fires.append(clock.now)
      rep.count("timer_fires")
      if spec["interval"] == 0: rep.count("fires_of_recurring_timers_with_interval_zero")
      if spec.get("stop_after") and len(fires) >= spec["stop_after"]:
        return False
      # only the object False asks a self-stoppable timer to stop; other
      # return values (a count of 0, an empty result, ...) are just results
      rv = TIMER_RETURNS[spec.get("ret", 0)]
      if rv is not None: rep.count("timer_callbacks_returning_a_value")
      return rv
    tkw = {}
    if spec.get("not_self_stoppable"):
      tkw["selfStoppable"] = False
      rep.count("timers_that_may_not_stop_themselves")
    if spec.get("absolute"):
      # fire at a wall-clock instant (one-shot only)
      t = rc.Timer(clock.now + spec["interval"], cb, absoluteTime=True,
                   scheduler=sched)
      rep.count("absolute_timers")
    elif spec.get("start_delay") is not None:
      # created idle, started later: the interval counts from start()
      t = rc.Timer(spec["interval"], cb, recurring=spec["recurring"],
                   scheduler=sched, started=False, **tkw)
      def go ():
        tm["created"] = clock.now
        t.start(sched)
        rep.count("late_started_timers")
      tm["created"] = clock.now + spec["start_delay"]
      externals.append((clock.now + spec["start_delay"], go))
    else:
      t = rc.Timer(spec["interval"], cb, recurring=spec["recurring"],
                   scheduler=sched, **tkw)
    tm["timer"] = t
    if spec.get("cancel_at") is not None:
      def cancel ():
        t.cancel(); tm["cancelled_at"] = clock.now
        rep.count("timers_cancelled")
      externals.append((clock.now + spec["cancel_at"], cancel))
    timers.append(tm)

  import io, contextlib
  sink = io.StringIO()
  try:
    with contextlib.redirect_stdout(sink), contextlib.redirect_stderr(sink):
      for tid, p in enumerate(case["tasks"]):
        t = rc.Task(target=body, args=(tid, p["steps"]))
        t.priority = p.get("prio", 1)
        tasks[tid] = t
      for tid, t in tasks.items():
        t.start(sched, fast=True)
      for spec in case.get("timers", []):
        make_timer(spec); nt[0] = True
      # drive: external events in time order, then to the horizon
      steps0 = w.steps
      end = t_start + HORIZON
      natural = case.get("drive") == "natural"
      if natural:
        # The hub computes its own select() timeout from the registered
        # deadlines; the select stand-in lets exactly that much virtual time
        # pass (stopping early only when an external event makes something
        # ready, as a real select would).  This is what judges the hub's
        # timeout arithmetic; the stepped driver below never lets a select
        # time out and reads the deadlines itself.
        vs = w.hub._select_func
        def des_select (rl, wl, xl, timeout=None):
          rl = list(rl); wl = list(wl); xl = list(xl)
          remaining = timeout if timeout is not None else 1e9
          while True:
            if case.get("hubmode") == "threaded":
              # while the hub's thread waits in select the scheduler's thread
              # has the processor: whatever is ready runs now, not after the
              # wait (what it registers reaches the hub through the pinger)
              while sched._ready and w.steps - steps0 <= 60000:
                sched.cycle(); w.steps += 1
            res = vs(rl, wl, xl, 0)
            if res[0] or res[1] or res[2]: return res
            externals.sort(key=lambda e: e[0])
            te = externals[0][0] if externals else None
            t_end = clock.now + remaining
            if te is not None and te <= t_end:
              if te > clock.now:
                remaining -= te - clock.now
                clock.now = te
              tm, fn = externals.pop(0)
              fn()
              continue
            if t_end > end:
              # the program's horizon comes first: the select is abandoned
              # (a real one would simply still be waiting)
              clock.now = end
              raise _Horizon()
            clock.now = t_end
            rep.count("natural_select_timeouts")
            return [], [], []
        w.hub._select_func = des_select
        try:
          try:
            while clock.now < end and w.steps - steps0 <= 60000:
              if sched._ready: sched.cycle()
              else: w.hub_pass()
              w.steps += 1
          except _Horizon:
            pass
        finally:
          w.hub._select_func = vs
        w.run()
      else:
        w.run()
      guard = 0
      while not natural and clock.now < end and guard < 3000:
        guard += 1
        if w.steps - steps0 > 60000: break
        externals.sort(key=lambda e: e[0])
        te = externals[0][0] if externals else None
        nd = w.next_deadline()
        cand = [x for x in (te, nd, end) if x is not None]
        t = max(min(cand), clock.now)
        # (a deadline that is due at this very instant is expired too)
        w.advance(t - clock.now)
        while externals and externals[0][0] <= clock.now + 1e-12:
          tm, fn = externals.pop(0)
          fn()
          w.run()
          externals.sort(key=lambda e: e[0])
        if te is None and nd is None: 
          w.advance(end - clock.now)
  except (Exception, TaskAbort):
    fire("scheduler raises", traceback.format_exc()[-800:])
    _st.pop("w", None)
    raise simnet.Inconclusive("an exception escaped the scheduler; shard "
                              "abandoned after reporting the violation")
  # ---- judge
  if clock.now < t_start + HORIZON - 1e-9:
    fire("scheduler does not reach quiescence (step budget)",
         "%d scheduler cycles for this program; virtual time stuck at +%.2f" %
         (w.steps - steps0, clock.now - t_start))
    _st.pop("w", None)
    raise simnet.Inconclusive("scheduler wedged; shard abandoned after "
                              "reporting the violation")
  if errs:
    fire(errs[0][0], "; ".join("%s: %s" % e for e in errs[:3])); return True
  if _st["dups"]:
    fire("task queued twice at once", repr(_st["dups"][:2])); return True
  if past_sentinel:
    fire("task resumed without cause (ran past its sentinel sleep)",
         repr(past_sentinel[:3])); return True
  rep.count("quiescent_checks")
  blocked_ok = set(blocked)     # still waiting for a wake-up nobody sent
  for tid in tasks:
    if tid not in finished and tid not in blocked_ok:
      fire("a runnable task was not run to completion by quiescence",
           "task %r (steps %r) finished %r" %
           (tid, [s[0] for s in case["tasks"][tid]["steps"]], sorted(finished)))
      return True
  if sched._ready:
    fire("ready queue not empty at quiescence", repr(list(sched._ready)))
    return True
  for tm in timers:
    sp = tm["spec"]; f = tm["fires"]; c0 = tm["created"]
    iv = sp["interval"]
    end = tm["cancelled_at"] if tm["cancelled_at"] is not None else t_start + HORIZON
    if not sp["recurring"]:
      exp = 1 if c0 + iv <= end else 0
      if sp.get("cancel_at") is not None and sp["cancel_at"] <= iv: exp = 0
      if len(f) != exp:
        fire("one-shot timer fired %d times" % len(f),
             "interval %.2f cancel_at %r fires %r" %
             (iv, sp.get("cancel_at"), [x - c0 for x in f])); return True
    else:
      if tm["cancelled_at"] is not None and any(x > tm["cancelled_at"] + 1e-9 for x in f):
        fire("recurring timer fired after it was cancelled",
             "cancelled at +%.2f fires %r" %
             (tm["cancelled_at"] - c0, [x - c0 for x in f])); return True
      if sp.get("stop_after") and len(f) > sp["stop_after"]:
        fire("timer fired again after its callback returned False",
             "%d fires, stop after %d" % (len(f), sp["stop_after"])); return True
      for a, b in zip([c0] + f, f):
        if b - a < iv - 1e-9:
          fire("recurring timer fired early",
               "spacing %.3f < interval %.3f" % (b - a, iv)); return True
      lim = sp.get("stop_after")
      # (an interval of zero: the timer fires again at once, as often as its
      #  callback lets it)
      expect_min = int((end - c0) / iv + 1e-9) if iv > 0 else (lim or 0) + 1
      if lim: expect_min = min(expect_min, lim)
      if len(f) < expect_min - 1:
        fire("recurring timer stopped firing",
             "%d fires in %.1f s at interval %.2f" % (len(f), end - c0, iv))
        return True
    if f and f[0] < c0 + iv - 1e-9:
      fire("timer fired before its time", "%.3f < %.3f" % (f[0] - c0, iv))
      return True
  # cleanup: the sentinel sleepers stay registered in the hub; forget them
  for t in list(w.hub._tasks.keys()):
    del w.hub._tasks[t]
  while not w.hub._incoming.empty():
    w.hub._incoming.get()
  for tm in timers:
    tm["timer"].cancel()
  return nt[0]


def close_real (w, socks, peers, real):
  """One more hub pass without the program's descriptors (so that the select
  function forgets them the way it does when a program stops waiting on
  them), then they are closed."""
  if not real: return
  try:
    w.hub._select(w.hub._tasks, {})
  except Exception:
    pass
  for s in list(socks.values()) + list(peers.values()):
    try: s.close()
    except Exception: pass


def do_case (case, rep):
  try:
    nt = run_program(case, rep)
  except simnet.Inconclusive:
    raise
  except Exception:
    rep.violation("C06 harness-visible exception",
                  traceback.format_exc()[-900:], case)
    nt = True
  rep.case(repr((case["tasks"], case.get("timers"), case.get("drive"),
                 case.get("realfd"), case.get("close_after"), case.get("hubmode"))).encode(),
           nontrivial=bool(nt))


def rand_step (rng, tid, ntasks, blocks):
  r = rng.random()
  if r < 0.15: return ["y0"]
  if r < 0.18: return ["poke", rng.randrange(ntasks)]
  if r < 0.30: return ["num", rng.choice([0.5, 1, 2.5, 7])]
  if r < 0.42: return ["sleep", rng.choice([0.25, 1, 3, 10.5])]
  if r < 0.48: return ["sleep_abs", rng.choice([0.5, 2, 6, 0, -1, -30])]
  if r < 0.58: return ["sel_to", rng.choice([0.5, 2, 5])]
  if r < 0.68: return ["sel_data", rng.choice([0.5, 1.5, 4]), rng.choice([None, 50])]
  if r < 0.72: return ["recv", rng.choice([0.5, 2])]
  if r < 0.75: return ["recv_to", rng.choice([0.5, 2, 5])]
  if r < 0.78:
    r2 = rng.random()
    if r2 < 0.25: return ["sel_rw", rng.choice([0.5, 1.5]), rng.choice([None, 50])]
    if r2 < 0.5: return ["reuse", rng.choice([0.5, 1.5])]
    return ["sel_two", rng.choice([0.5, 1.5]), rng.choice([None, 50])]
  if r < 0.81: return ["sel_w", rng.choice([0.5, 1.5, 4]), rng.choice([None, 50])]
  if r < 0.92:
    plan = dict(ops=[rng.choice([0.5, 1, 2]) for _ in range(rng.randrange(0, 3))],
                end=rng.choice(["ret", "ret", "raise"]),
                value=rng.choice(["v-%d-%d" % (tid, rng.getrandbits(16))] * 3 +
                                 [0, 0.0, "", [], False, True, 1]))
    if rng.random() < 0.15:
      plan["plain"] = True; plan["ops"] = []
      return ["tf", plan]
    if rng.random() < 0.4:
      plan["inner"] = dict(ops=[rng.choice([0.5, 1]) for _ in range(rng.randrange(0, 2))],
                           end=rng.choice(["ret", "raise", "raise"]),
                           value="i-%d-%d" % (tid, rng.getrandbits(16)))
      plan["propagate"] = rng.random() < 0.5
    return [rng.choice(["again", "tf"]), plan]
  return ["y0"]


def gen_random (rng, n):
  for _ in range(n):
    nt = rng.randrange(1, 7)
    tasks = []
    for tid in range(nt):
      steps = [rand_step(rng, tid, nt, None) for _ in range(rng.randrange(0, 6))]
      tasks.append(dict(steps=steps, prio=rng.choice([1, 1, 0.3])))
    # wake pairs: A blocks, B (after some delay) wakes it
    for _ in range(rng.randrange(0, 3)):
      if nt < 2: break
      a, b = rng.sample(range(nt), 2)
      tok = "w%d" % rng.getrandbits(20)
      tasks[a]["steps"].insert(rng.randrange(0, len(tasks[a]["steps"]) + 1),
                               ["block", tok])
      pos = rng.randrange(0, len(tasks[b]["steps"]) + 1)
      tasks[b]["steps"][pos:pos] = [["sleep", rng.choice([20, 30, 45])],
                                    ["wake", tok, a, rng.choice(["schedule", "fast"])]]
    force_inthread = False
    # a task that gives way a few times and then waits, and another that
    # schedule()s it meanwhile (it is queued already: nothing may come of it)
    if nt >= 2 and rng.random() < 0.3:
      a, b = rng.sample(range(nt), 2)
      k = rng.randrange(1, 4)
      tasks[a]["steps"][0:0] = [["y0"]] * k + [rng.choice([["sleep", 3], ["num", 2.5],
                                                        ["sel_to", 2], ["sleep", 10.5]])]
      tasks[b]["steps"][0:0] = [["poke", a]] * (k + 1)
      force_inthread = True
    if rng.random() < 0.25:
      tid = rng.randrange(nt)
      tasks[tid]["steps"].append(rng.choice([["raise"], ["raise"], ["raise", "base"],
                                            ["bad_op", "exc"], ["bad_op", "base"]]))
    timers = []
    for _ in range(rng.choice([0, 0, 1, 2])):
      rec = rng.random() < 0.6
      sp = dict(interval=rng.choice([0.5, 1, 3, 7.5]), recurring=rec)
      r = rng.random()
      if r < 0.4: sp["cancel_at"] = rng.choice([0.25, 2, 10, 20.25])
      elif r < 0.6: sp["start_delay"] = rng.choice([0.5, 2, 5, 11])
      elif r < 0.7 and not rec: sp["absolute"] = True
      if rec and rng.random() < 0.3: sp["stop_after"] = rng.randrange(1, 5)
      if rec and rng.random() < 0.12:
        # "as often as possible until told to stop": interval 0, stopped by
        # its own callback after a few rounds
        sp = dict(interval=0, recurring=True, stop_after=rng.randrange(2, 6))
        timers.append(sp); continue
      if rng.random() < 0.5: sp["ret"] = rng.randrange(8)
      if rec and rng.random() < 0.2:
        # a recurring timer that may not stop itself: a callback returning
        # False changes nothing
        sp["not_self_stoppable"] = True; sp.pop("stop_after", None)
        sp["ret"] = 8
      timers.append(sp)
    case = dict(epoll=False, tasks=tasks, timers=timers)
    if rng.random() < 0.5 or force_inthread: case["inthread"] = True
    if rng.random() < 0.4:
      case["realfd"] = True
      if rng.random() < 0.6: case["close_after"] = True
    yield case
    continue
    # a task that blocks on a wake which arrives only after another task died
    yield dict(epoll=False, tasks=tasks, timers=timers)


def gen_small ():
  """All programs of two tasks with up to two steps over a reduced vocabulary."""
  import itertools
  V = [["y0"], ["num", 1], ["sleep", 2], ["sel_to", 1], ["sel_data", 1.5, None],
       ["again", dict(ops=[1], end="ret", value="x")],
       ["again", dict(ops=[], end="raise", value="x")],
       ["tf", dict(ops=[0.5], end="ret", value="y")], ["raise"], ["raise", "base"],
       ["again", dict(ops=[0.5], end="ret", value="z", propagate=False,
                      inner=dict(ops=[0.5], end="raise", value="q"))],
       ["tf", dict(ops=[], end="ret", value="z", propagate=True,
                   inner=dict(ops=[], end="raise", value="q"))],
       ["sel_rw", 1.5, None], ["sel_w", 0.5, None], ["reuse", 1]]
  progs = [[]] + [[a] for a in V] + [[a, b] for a in V for b in V if a[0] != "raise"]
  for p1 in progs:
    for p2 in progs:
      yield dict(epoll=False, tasks=[dict(steps=p1, prio=1), dict(steps=p2, prio=1)],
                 timers=[])


def plan (tier, seed):
  if tier == "quick":
    return ([dict(mode="small", epoll=e, shard=i, nshards=4) for e in (False, True)
             for i in range(4)] +
            [dict(mode="rand", epoll=e, n=250, sub=i) for e in (False, True)
             for i in range(4)] +
            [dict(mode="small", epoll=False, shard=i, nshards=4, hubmode="threaded")
             for i in range(2)] +
            [dict(mode="rand", epoll=e, n=250, sub=10 + i, hubmode="threaded")
             for e in (False, True) for i in range(2)] +
            [dict(mode="mass", epoll=False), dict(mode="mass", epoll=False, hubmode="threaded")])
  return ([dict(mode="small", epoll=e, shard=i, nshards=2) for e in (False, True)
           for i in range(2)] +
          [dict(mode="rand", epoll=e, n=12000, sub=i) for e in (False, True)
           for i in range(14)] +
          [dict(mode="small", epoll=False, shard=i, nshards=2, hubmode="threaded")
           for i in range(2)] +
          [dict(mode="rand", epoll=e, n=12000, sub=20 + i, hubmode="threaded")
           for e in (False, True) for i in range(6)] +
          [dict(mode="mass", epoll=False), dict(mode="mass", epoll=False, hubmode="threaded"),
           dict(mode="mass", epoll=True)])


def gen_mass ():
  """Very many tasks that all sleep: the pings their start and their timer
  registrations send add up to (and pass) the 1024 octets one read of the
  wake-up pipe takes."""
  for n in list(range(508, 516)) + list(range(1020, 1028)) + [341, 342, 2048]:
    for step in (["sleep", 1], ["num", 2.5]):
      for drive in (None, "natural"):
        c = dict(epoll=False, tasks=[dict(steps=[list(step)], prio=1) for _ in range(n)],
                 timers=[], mass=True)
        if drive: c["drive"] = drive
        yield c


IO_STEPS = ("sel_to", "sel_data", "recv", "recv_to", "sel_two", "sel_w", "sel_rw", "reuse")
n_small = [0]

def run (spec, rep):
  if spec["mode"] == "mass":
    for case in gen_mass():
      case["epoll"] = spec["epoll"]
      if spec.get("hubmode"): case["hubmode"] = spec["hubmode"]
      do_case(case, rep)
    return
  if spec["mode"] == "small":
    g = (c for i, c in enumerate(gen_small()) if i % spec["nshards"] == spec["shard"])
  else:
    rng = random.Random("c06/%d/%d" % (spec["seed"], spec["sub"]))
    g = gen_random(rng, spec["n"])
  first = True
  for case in g:
    case["epoll"] = spec["epoll"]
    if spec.get("hubmode"): case["hubmode"] = spec["hubmode"]
    do_case(case, rep)
    if first: rep.sample(case); first = False
    c2 = dict(case); c2["drive"] = "natural"
    do_case(c2, rep)
    rep.count("programs_natural_drive")
    if spec["mode"] == "small" and any(st[0] in IO_STEPS for t in case["tasks"]
                                       for st in t["steps"]):
      # the enumerated programs that wait for I/O, on real descriptors too
      n_small[0] += 1
      c3 = dict(case, realfd=True)
      if n_small[0] % 2: c3["close_after"] = True
      if n_small[0] % 4 >= 2: c3["drive"] = "natural"
      do_case(c3, rep)


def replay (witness, rep):
  do_case(witness, rep)
