"""
C04 - the flow table evolves as the OpenFlow 1.0 FLOW_MOD / timeout state
machine.

Byte-level flow_mods (independent encoder) into a real SoftwareSwitch
through OFConnection, frames on the data plane, a virtual clock and explicit
expiry sweeps.  After every step the table is read back over the wire (flow
stats request) and compared, together with every message the switch emitted,
with the reference state machine pvm.ref.oftable.
"""
import itertools
import random
import traceback

from pvm import simnet
from pvm.ref import ofwire, ofmatch as OM, oftable as OT, frames as F

ID = "C04"
LEVEL = "exploration"
RULE = ("a case is a history over {ADD, MODIFY, MODIFY_STRICT, DELETE, "
        "DELETE_STRICT} x 5 overlapping matches x priorities {1,2} x flags "
        "{SEND_FLOW_REM, CHECK_OVERLAP} x out_port filter x timeouts {0,3,7} "
        "interleaved with frames, clock advances and expiry sweeps; all "
        "histories up to length 2 (quick) / 3 (thorough) over a 60-symbol "
        "alphabet plus a fixed probing suffix are enumerated, random "
        "histories to length 60; non-trivial = at least one command touched "
        "an existing entry or an entry timed out; distinct = distinct history")
ASSUMPTIONS = ["pvm/ref/oftable.py + ofmatch.py state the 1.0 semantics",
               "not demanded: reason when idle and hard expire in one sweep, "
               "cookie after MODIFY, order of flow_removed within one sweep, "
               "behaviour at now - t == timeout exactly (never produced), "
               "which of several equal-priority matching entries counts a "
               "packet (learnt from the observed counters)",
               "emergency entries are not exercised (the switch rejects them)"]
REQUIRED = ["steps", "tables_compared", "replaced", "modified", "deleted",
            "expired_idle", "expired_hard", "flow_removed_checked",
            "overlap_errors", "packets_counted", "idle_refreshed",
            "bounded_table_cases", "table_full_errors", "reconnects",
            "matches_in_another_spelling", "overlap_check_passed_at_equal_priority"]
TIMEOUT = {"quick": 900, "thorough": 7200}

FW = OM


def mk (wc, **kw):
  m = dict(wildcards=wc, in_port=0, dl_src=b"\0" * 6, dl_dst=b"\0" * 6,
           dl_vlan=0, dl_vlan_pcp=0, dl_type=0, nw_tos=0, nw_proto=0,
           nw_src=0, nw_dst=0, tp_src=0, tp_dst=0)
  m.update(kw)
  return m


ALLW = OM.FW_ALL
def ipw (src_w, dst_w, extra_clear=0):
  """wildcards: everything wildcarded except dl_type, with given nw widths"""
  wc = ALLW & ~OM.FW_DL_TYPE & ~OM.FW_NW_SRC_MASK & ~OM.FW_NW_DST_MASK
  wc |= (src_w << OM.FW_NW_SRC_SHIFT) | (dst_w << OM.FW_NW_DST_SHIFT)
  return wc & ~extra_clear

MATCHES = [
  mk(ipw(32, 24), dl_type=0x0800, nw_dst=0x0a000000),               # 10/8
  mk(ipw(32, 16), dl_type=0x0800, nw_dst=0x0a010000),               # 10.1/16
  mk(ipw(32, 8, OM.FW_NW_PROTO), dl_type=0x0800, nw_dst=0x0a010200,
     nw_proto=6),                                                   # 10.1.2/24 tcp
  mk(ipw(24, 32), dl_type=0x0800, nw_src=0x0a000000),               # src 10/8
  mk(ALLW & ~OM.FW_IN_PORT, in_port=1),                             # in_port 1
  mk(ALLW),                                                         # everything
]
ACTIONS = [[dict(type=0, port=2, max_len=0)],
           [dict(type=0, port=3, max_len=0)],
           [dict(type=0, port=2, max_len=0), dict(type=0, port=3, max_len=0)],
           # actions that change the frame's length on its way out: an entry
           # counts the bytes of the packets that *matched* it
           [dict(type=1, vlan_vid=7), dict(type=0, port=2, max_len=0)],
           [dict(type=3), dict(type=0, port=3, max_len=0)],
           # a drop rule, and outputs to reserved ports (which an out_port
           # filter may name too)
           [],
           [dict(type=0, port=0xfffb, max_len=0)],
           [dict(type=0, port=0xfff8, max_len=0), dict(type=0, port=2, max_len=0)]]

_src = bytes.fromhex("020000000001"); _dst = bytes.fromhex("020000000002")
FRAMES = [
  (1, F.eth(_dst, _src, 0x0800, F.ipv4(0x0a090909, 0x0a010203, 6,
            F.tcp(1000, 80, b"x" * 20, src=0x0a090909, dst=0x0a010203)))),
  (1, F.eth(_dst, _src, 0x0800, F.ipv4(0x0a090909, 0x0a010909, 17,
            F.udp(1000, 4000, b"y" * 11, src=0x0a090909, dst=0x0a010909)))),
  (4, F.eth(_dst, _src, 0x0800, F.ipv4(0xc0a80001, 0x0a020001, 6,
            F.tcp(1, 2, b"", src=0xc0a80001, dst=0x0a020001)))),
  (4, F.eth(_dst, _src, 0x0806, F.arp(1, _src, 0x0a000001, b"\0" * 6,
                                      0x0a000002))),
  (1, F.eth(_dst, _src, 0x0800, F.ipv4(0x0a090909, 0x0a010203, 17,
            F.udp(7, 9, b"t" * 30, src=0x0a090909, dst=0x0a010203)),
            vlan=(3, 0, 100))),
  # short datagrams padded to the minimum Ethernet frame size: the padding is
  # part of the frame the entry (and the port) received
  (4, F.eth(_dst, _src, 0x0800, F.ipv4(0xc0a80001, 0x0a020001, 6,
            F.tcp(1, 2, b"", src=0xc0a80001, dst=0x0a020001))) + b"\0" * 6),
  (1, F.eth(_dst, _src, 0x0800, F.ipv4(0x0a090909, 0x0a010909, 17,
            F.udp(1000, 4000, b"y", src=0x0a090909, dst=0x0a010909))) + b"\0" * 17),
]

# other packets of FRAMES[0]'s conversation on the same port: its answer
# (addresses and ports exchanged) and a second connection one port number up
# on both sides (1001 -> 81, which the tp_dst=81 entry below is for)
from pvm.gen import framegen as _fg
FRAMES += [(1, _fg.twin(FRAMES[0][1])), (1, _fg.mirror(FRAMES[0][1])),
           (1, _fg.mirror(FRAMES[1][1]))]
assert all(f for _, f in FRAMES)

# an entry without any wildcard (it ranks above every wildcarded entry
# whatever its priority field says): the exact match of FRAMES[0]
_ex = OM.extract(FRAMES[0][1], FRAMES[0][0])
MATCHES.append(mk(0, **{k: (int.from_bytes(v, "big") if k in ("nw_src", "nw_dst")
                            and isinstance(v, bytes) else v)
                        for k, v in _ex.items()}))

EXACT = len(MATCHES) - 1

# pairs that do NOT overlap at equal priority (an overlap check that always
# says "overlap" must be seen to be wrong), and one that overlaps only
# through a field that is not applicable
MATCHES += [
  mk(ipw(32, 16), dl_type=0x0800, nw_dst=0x0a020000),               # 10.2/16 (disjoint from 10.1/16)
  mk(ipw(32, 32, OM.FW_NW_PROTO | OM.FW_TP_DST), dl_type=0x0800, nw_proto=6, tp_dst=80),
  mk(ipw(32, 32, OM.FW_NW_PROTO | OM.FW_TP_DST), dl_type=0x0800, nw_proto=6, tp_dst=81),
  mk(ALLW & ~OM.FW_DL_TYPE, dl_type=0x0806),                        # ARP (disjoint from all IP ones)
  mk(ALLW & ~OM.FW_DL_VLAN, dl_vlan=100),
]

# pairs kept apart only by a field in which one of the two has the value 0
# (0 is a value like any other: best-effort TOS, ICMP echo reply, priority
# code point 0, VLAN 0)
ZERO_FROM = len(MATCHES)
MATCHES += [
  mk(ALLW & ~OM.FW_DL_TYPE & ~OM.FW_NW_TOS, dl_type=0x0800, nw_tos=0),
  mk(ALLW & ~OM.FW_DL_TYPE & ~OM.FW_NW_TOS, dl_type=0x0800, nw_tos=0x20),
  mk(ALLW & ~OM.FW_DL_TYPE & ~OM.FW_NW_PROTO & ~OM.FW_TP_SRC, dl_type=0x0800,
     nw_proto=1, tp_src=0),
  mk(ALLW & ~OM.FW_DL_TYPE & ~OM.FW_NW_PROTO & ~OM.FW_TP_SRC, dl_type=0x0800,
     nw_proto=1, tp_src=8),
  mk(ALLW & ~OM.FW_DL_VLAN_PCP, dl_vlan_pcp=0),
  mk(ALLW & ~OM.FW_DL_VLAN_PCP, dl_vlan_pcp=5),
  mk(ALLW & ~OM.FW_DL_VLAN, dl_vlan=0),
  mk(ALLW & ~OM.FW_DL_TYPE & ~OM.FW_NW_PROTO, dl_type=0x0800, nw_proto=0),
  mk(ALLW & ~OM.FW_DL_TYPE & ~OM.FW_NW_PROTO, dl_type=0x0800, nw_proto=17),
]
ZERO_POOL = list(range(ZERO_FROM, len(MATCHES))) + [11]   # 11: dl_vlan=100

# (the priority field of an entry without wildcards is "not meaningful" in
#  1.0, and whether two such entries that differ only in it are the same entry
#  is not something the statement settles: the exact entry always carries the
#  same priority here)

STATS_REQ = ofwire.enc_message("stats_request", dict(
  xid=0x7777, type=1, flags=0,
  body=dict(match=MATCHES[5], table_id=0xff, out_port=0xffff)))


def respell (m, how, salt):
  """
  The same match written differently on the wire: address bits below the
  prefix length set (1), junk in fields that are wildcarded (2), a wildcard
  width above 32 for an ignored address (3).  None of it is part of the match.
  """
  m = dict(m)
  wc = m["wildcards"]
  if how == 1:
    for f, sh in (("nw_src", OM.FW_NW_SRC_SHIFT), ("nw_dst", OM.FW_NW_DST_SHIFT)):
      w = min((wc >> sh) & 63, 32)
      if w: m[f] = m[f] | ((0x5a5a5a5a ^ salt) & ((1 << w) - 1))
  elif how == 2:
    for f, bit, val in (("in_port", OM.FW_IN_PORT, 7), ("dl_vlan", OM.FW_DL_VLAN, 99),
                        ("tp_src", OM.FW_TP_SRC, 1234), ("tp_dst", OM.FW_TP_DST, 4321),
                        ("nw_proto", OM.FW_NW_PROTO, 17), ("nw_tos", OM.FW_NW_TOS, 0x20),
                        ("dl_vlan_pcp", OM.FW_DL_VLAN_PCP, 5)):
      if wc & bit: m[f] = val
    if wc & OM.FW_DL_SRC: m["dl_src"] = b"\x02\x11\x22\x33\x44\x55"
    if wc & OM.FW_DL_DST: m["dl_dst"] = b"\x02\x66\x77\x88\x99\xaa"
  elif how == 3:
    for sh in (OM.FW_NW_SRC_SHIFT, OM.FW_NW_DST_SHIFT):
      if (wc >> sh) & 63 == 32: wc |= (rng_width(salt) << sh)
    m["wildcards"] = wc
  return m


def rng_width (salt):
  return 33 + salt % 31


def key_of (match, priority):
  c = OM.canon(match)
  return (tuple(sorted(c.items())), priority)


class Run (object):
  def __init__ (self, rep, case):
    self.rep = rep; self.case = case
    self.clock = simnet.VClock(1000.0)
    self.clock.install()
    kw = {}
    if case.get("max_entries"):
      kw["max_entries"] = case["max_entries"]
      rep.count("bounded_table_cases")
    self.sw = simnet.DirectSwitch(dpid=4, ports=4, max_buffers=0,
                                  miss_send_len=128, **kw)
    self.model = OT.Table(max_entries=case.get("max_entries"))
    self.slot = 1000
    self.xid = 100
    self.flags = set()
    self.bad = False

  def fire (self, key, what):
    self.bad = True
    self.rep.violation("C04 " + key, what, self.case)

  def at_half (self):
    # the sub-second phase of each command / packet is part of the case
    # (time never runs backwards within a slot)
    pp = self.case.get("pp") or [0.5]
    self._pi = getattr(self, "_pi", -1) + 1
    t = self.slot + pp[self._pi % len(pp)]
    if t > self.clock.now: self.clock.now = t

  def drain (self):
    b = self.sw.take_bytes()
    try:
      return ofwire.dec_stream(b)
    except ofwire.WireError as e:
      self.fire("switch emitted undecodable bytes", "%r: %s" % (e, b[:80].hex()))
      return []

  # -- steps
  def do_fm (self, op):
    _, cmd, mi, prio, flags, out_port, idle, hard, ai = op[:9]
    self.at_half()
    self.xid += 1
    match = MATCHES[mi]
    if len(op) > 9 and op[9]:
      match = respell(match, op[9], self.xid)
      self.rep.count("matches_in_another_spelling")
    fm = dict(xid=self.xid, match=match, cookie=self.xid, command=cmd,
              idle_timeout=idle, hard_timeout=hard, priority=prio,
              buffer_id=0xffffffff, out_port=out_port, flags=flags,
              actions=ACTIONS[ai])
    before = {key_of(e["match"], e["priority"]): e for e in self.model.entries}
    try:
      self.sw.feed(ofwire.enc_message("flow_mod", fm))
    except Exception:
      self.fire("flow_mod processing raises", traceback.format_exc()[-600:])
      return
    removed, errors = self.model.flow_mod(fm, self.clock.now)
    after = {key_of(e["match"], e["priority"]): e for e in self.model.entries}
    for k, e in after.items():
      if k in before and before[k] is not e:
        self.rep.count("replaced"); self.flags.add("nt")
      if k in before and before[k] is e and cmd in (1, 2):
        self.rep.count("modified"); self.flags.add("nt")
        e.setdefault("cookie_alt", set()).add(fm["cookie"])
    if removed:
      self.rep.count("deleted", len(removed)); self.flags.add("nt")
    if not errors and cmd == 0 and (flags & OT.FF_CHECK_OVERLAP) and \
       any(e["priority"] == prio and key_of(e["match"], e["priority"]) != key_of(match, prio)
           for e in before.values()):
      # an entry of the same priority exists and the new one does not overlap it
      self.rep.count("overlap_check_passed_at_equal_priority")
    if errors:
      if any(c == OT.FMFC_ALL_TABLES_FULL for (t, c) in errors):
        self.rep.count("table_full_errors")
      else:
        self.rep.count("overlap_errors")
    self.expect_messages(removed_of(removed), errors, fm["xid"],
                         "%s flow_mod" % ["ADD", "MODIFY", "MODIFY_STRICT",
                                          "DELETE", "DELETE_STRICT"][cmd])

  def do_pkt (self, op):
    _, fi = op
    self.at_half()
    in_port, raw = FRAMES[fi]
    fields = OM.extract(raw, in_port)
    winners = self.model.lookup(fields)
    self.sw.take_out()
    try:
      self.sw.inject(in_port, raw)
    except Exception:
      self.fire("frame processing raises", traceback.format_exc()[-600:])
      return
    out = self.sw.take_out()
    msgs = self.drain()
    pins = [m for m in msgs if m["name"] == "packet_in"]
    other = [m for m in msgs if m["name"] != "packet_in"]
    if other:
      self.fire("traffic produced a %s message" % other[0]["name"], repr(other[0])[:300])
    if not winners:
      if len(pins) != 1 or out:
        self.fire("miss handling", "packet-ins %d, output %r" % (len(pins), out))
      return
    if pins:
      self.fire("packet-in although an entry matches", "")
    self.pending_pkt = (winners, len(raw))
    self.rep.count("packets_counted")

  def do_tick (self, op):
    self.slot += op[1]

  def do_sweep (self, op):
    self.slot += 1
    sp = self.case.get("sp") or [0.0]
    self._si = getattr(self, "_si", -1) + 1
    self.clock.now = self.slot + sp[self._si % len(sp)]
    self._swept = True
    try:
      self.sw.switch.table.remove_expired_entries()
    except Exception:
      self.fire("expiry sweep raises", traceback.format_exc()[-600:])
      return
    exp = self.model.sweep(self.clock.now)
    for e, reasons in exp:
      self.flags.add("nt")
      if OT.RR_IDLE in reasons: self.rep.count("expired_idle")
      if OT.RR_HARD in reasons: self.rep.count("expired_hard")
    self.expect_messages(exp, [], None, "expiry sweep")
    self.slot += 0   # next ops at slot + 0.5

  def expect_messages (self, removed, errors, xid, where):
    """removed: [(entry, set(reasons))]"""
    msgs = self.drain()
    want = [(e, r) for e, r in removed if e["flags"] & OT.FF_SEND_FLOW_REM]
    got_fr = [m for m in msgs if m["name"] == "flow_removed"]
    got_err = [m for m in msgs if m["name"] == "error"]
    rest = [m for m in msgs if m["name"] not in ("flow_removed", "error")]
    if rest:
      self.fire("%s produced a %s message" % (where, rest[0]["name"]), "")
    unmatched = list(got_fr)
    for e, reasons in want:
      k = key_of(e["match"], e["priority"])
      cand = [m for m in unmatched if key_of(m["match"], m["priority"]) == k]
      if not cand:
        self.fire("%s: no flow-removed for an entry that asked for one" % where,
                  "entry prio %d match %r; got %d flow_removed" %
                  (e["priority"], OM.canon(e["match"]), len(got_fr)))
        continue
      m = cand[0]; unmatched.remove(m)
      self.rep.count("flow_removed_checked")
      dur = int(self.clock.now - e["created"])
      cookies = {e["cookie"]} | e.get("cookie_alt", set())
      problems = []
      if m["reason"] not in reasons: problems.append("reason %d not in %r" % (m["reason"], sorted(reasons)))
      if m["packet_count"] != e["packets"]: problems.append("packet_count %d != %d" % (m["packet_count"], e["packets"]))
      if m["byte_count"] != e["bytes"]: problems.append("byte_count %d != %d" % (m["byte_count"], e["bytes"]))
      if m["duration_sec"] != dur: problems.append("duration_sec %d != %d" % (m["duration_sec"], dur))
      if m["idle_timeout"] != e["idle"]: problems.append("idle_timeout %d != %d" % (m["idle_timeout"], e["idle"]))
      if m["cookie"] not in cookies: problems.append("cookie %d" % m["cookie"])
      if problems:
        self.fire("%s: flow-removed content (%s)" %
                  (where, problems[0].split(" ")[0]), "; ".join(problems))
    if unmatched:
      m = unmatched[0]
      self.fire("%s: unexpected flow-removed" % where,
                "prio %d reason %d match %r (expected %d notifications)" %
                (m["priority"], m["reason"], OM.canon(m["match"]), len(want)))
    ge = sorted((m["type"], m["code"]) for m in got_err)
    if ge != sorted(errors):
      self.fire("%s: error messages differ" % where,
                "got %r expected %r" % (ge, sorted(errors)))
    else:
      for m in got_err:
        if xid is not None and m["xid"] != xid:
          self.fire("%s: error carries wrong xid" % where, "%d vs %d" % (m["xid"], xid))

  def compare_tables (self, after):
    # (the probe happens at the instant the step before it left the clock at)
    try:
      self.sw.feed(STATS_REQ)
    except Exception:
      self.fire("flow stats request raises", traceback.format_exc()[-600:])
      return
    msgs = self.drain()
    reps = [m for m in msgs if m["name"] == "stats_reply" and m["type"] == 1]
    if len(reps) != 1 or len(msgs) != 1:
      self.fire("flow stats probe answered with %r" % [m["name"] for m in msgs], "")
      return
    obs = {}
    for e in reps[0]["body"]:
      k = key_of(e["match"], e["priority"])
      if k in obs:
        self.fire("two installed entries with identical match and priority",
                  repr(k)[:300]); return
      obs[k] = e
    # settle a pending packet among several admissible entries
    pend = getattr(self, "pending_pkt", None)
    if pend is not None:
      self.pending_pkt = None
      winners, n = pend
      hit = [w for w in winners
             if key_of(w["match"], w["priority"]) in obs and
             obs[key_of(w["match"], w["priority"])]["packet_count"] == w["packets"] + 1]
      if len(hit) == 1 or (len(winners) == 1):
        w = hit[0] if hit else winners[0]
        w["packets"] += 1; w["bytes"] += n
        if w["idle"] and self.clock.now > w["used"]:
          self.rep.count("idle_refreshed")
        w["used"] = self.clock.now
      else:
        self.fire("packet not counted on exactly one admissible entry",
                  "admissible %r; increments seen on %d" %
                  ([(w["priority"], OM.canon(w["match"])) for w in winners],
                   len(hit)))
        return
    mod = {key_of(e["match"], e["priority"]): e for e in self.model.entries}
    self.rep.count("tables_compared")
    if set(obs) != set(mod):
      extra = [k for k in obs if k not in mod]
      missing = [k for k in mod if k not in obs]
      self.fire("installed entries differ after %s" % after,
                "switch has %d entries, reference %d; extra %r; missing %r" %
                (len(obs), len(mod), extra[:2], missing[:2]))
      return
    for k, e in mod.items():
      o = obs[k]
      cookies = {e["cookie"]} | e.get("cookie_alt", set())
      problems = []
      if [ofwire.enc_action(a) for a in o["actions"]] != \
         [ofwire.enc_action(a) for a in e["actions"]]:
        problems.append("actions")
      if o["packet_count"] != e["packets"]: problems.append("packet_count %d != %d" % (o["packet_count"], e["packets"]))
      if o["byte_count"] != e["bytes"]: problems.append("byte_count %d != %d" % (o["byte_count"], e["bytes"]))
      if o["idle_timeout"] != e["idle"]: problems.append("idle_timeout")
      if o["hard_timeout"] != e["hard"]: problems.append("hard_timeout")
      if o["cookie"] not in cookies: problems.append("cookie")
      if o["duration_sec"] != int(self.clock.now - e["created"]):
        problems.append("duration_sec %d != %d" %
                        (o["duration_sec"], int(self.clock.now - e["created"])))
      if problems:
        self.fire("entry %s differs after %s" %
                  (problems[0].split(" ")[0], after), "; ".join(problems))
        return


def removed_of (removed):
  return [(e, {r}) for e, r in removed]


def run_history (case, rep):
  r = Run(rep, case)
  try:
    for op in case["ops"]:
      if r.bad: break
      rep.count("steps")
      if op[0] == "fm": r.do_fm(op); name = "flow_mod"
      elif op[0] == "pkt": r.do_pkt(op); name = "traffic"
      elif op[0] == "reconnect":
        # the controller connection goes away and a new one takes its place;
        # the table (and whatever listens to it) stays
        r.sw.reconnect(); rep.count("reconnects"); name = "reconnect"
      elif op[0] == "tick": r.do_tick(op); continue
      elif op[0] == "sweep": r.do_sweep(op); name = "expiry sweep"
      if not r.bad: r.compare_tables(name)
  finally:
    r.clock.uninstall()
  return bool(r.flags)


def do_case (case, rep):
  try:
    nt = run_history(case, rep)
  except Exception:
    rep.violation("C04 harness-visible exception",
                  traceback.format_exc()[-900:], case)
    nt = True
  rep.case(repr((case["ops"], case.get("max_entries"))).encode(), nontrivial=nt)


def alphabet ():
  A = []
  SFR = OT.FF_SEND_FLOW_REM; CO = OT.FF_CHECK_OVERLAP
  for mi in (0, 1, 2, 4, 6):
    for prio in ((1, 2) if mi != EXACT else (1,)):
      A.append(["fm", 0, mi, prio, SFR, 0xffff, 3, 0, 0])
      A.append(["fm", 0, mi, prio, SFR, 0xffff, 0, 7, 0])
      A.append(["fm", 0, mi, prio, SFR | CO, 0xffff, 0, 0, 2])
      A.append(["fm", 1, mi, prio, 0, 0xffff, 0, 0, 1])
      A.append(["fm", 2, mi, prio, SFR, 0xffff, 3, 7, 1])
      A.append(["fm", 4, mi, prio, 0, 0xffff, 0, 0, 0])
    A.append(["fm", 3, mi, 0, 0, 0xffff, 0, 0, 0])
    A.append(["fm", 3, mi, 0, 0, 3, 0, 0, 0])
  A.append(["fm", 0, 0, 2, SFR, 0xffff, 0, 7, 3])
  A.append(["fm", 0, 5, 1, SFR, 0xffff, 0, 7, 4])
  A += [["pkt", 0], ["pkt", 1], ["pkt", 4], ["tick", 4], ["sweep"], ["reconnect"]]
  return A

SUFFIX = [["pkt", 0], ["tick", 2], ["sweep"], ["pkt", 1], ["tick", 3],
          ["sweep"], ["tick", 4], ["sweep"], ["fm", 3, 5, 0, 0, 0xffff, 0, 0, 0]]


def gen_exhaustive (n, shard, nshards):
  A = alphabet()
  i = 0
  for combo in itertools.product(A, repeat=n):
    i += 1
    if i % nshards != shard: continue
    yield dict(ops=[list(x) for x in combo] + SUFFIX)


def gen_random (rng, count, maxlen):
  SFR = OT.FF_SEND_FLOW_REM; CO = OT.FF_CHECK_OVERLAP
  for _ in range(count):
    ops = []
    # every fourth history keeps to the pairs only a zero value separates
    zero = rng.random() < 0.25
    for _ in range(rng.randrange(3, maxlen)):
      r = rng.random()
      if r < 0.55:
        cmd = rng.choice([0, 0, 0, 1, 2, 3, 4])
        mi = rng.randrange(len(MATCHES))
        if zero and rng.random() < 0.8: mi = rng.choice(ZERO_POOL)
        ops.append(["fm", cmd, mi,
                    1 if mi == EXACT else rng.choice([1, 2, 2, 0x8000, 0, 0xffff]),
                    rng.choice([0, SFR, SFR, SFR | CO, CO]),
                    # the out_port filter applies to the delete commands only;
                    # on add/modify the field is noise and must be ignored
                    rng.choice([0xffff, 0xffff, 2, 3, 0xfffb, 0xfff8, 0xfffd, 0]) if cmd in (3, 4)
                    else rng.choice([0xffff, 0xffff, 0xffff, 2, 3, 0, 0xfffd]),
                    rng.choice([0, 0, 3, 7]), rng.choice([0, 0, 3, 7]),
                    rng.randrange(len(ACTIONS)),
                    rng.choice([0, 0, 0, 1, 2, 3])])
      elif r < 0.78:
        ops.append(["pkt", rng.randrange(len(FRAMES))])
      elif r < 0.8:
        ops.append(["reconnect"])
      elif r < 0.9:
        ops.append(["tick", rng.choice([1, 2, 3, 4, 8])])
      else:
        ops.append(["sweep"])
    case = dict(ops=ops + SUFFIX[-4:])
    if rng.random() < 0.5:
      case["pp"] = [rng.choice([0.1, 0.5, 0.9]) for _ in range(rng.randrange(1, 6))]
      case["sp"] = [rng.choice([0.0, 0.3, 0.7]) for _ in range(rng.randrange(1, 4))]
    if rng.random() < 0.3: case["max_entries"] = rng.choice([1, 2, 3, 4])
    yield case


def plan (tier, seed):
  if tier == "quick":
    return ([dict(mode="exh", n=1, shard=0, nshards=1)] +
            [dict(mode="exh", n=2, shard=i, nshards=10) for i in range(10)] +
            [dict(mode="rand", count=150, maxlen=40, sub=i) for i in range(5)])
  return ([dict(mode="exh", n=2, shard=i, nshards=4) for i in range(4)] +
          [dict(mode="exh", n=3, shard=i, nshards=48) for i in range(48)] +
          [dict(mode="rand", count=8000, maxlen=60, sub=i) for i in range(32)])


def run (spec, rep):
  if spec["mode"] == "exh":
    g = gen_exhaustive(spec["n"], spec["shard"], spec["nshards"])
  else:
    rng = random.Random("c04/%d/%d" % (spec["seed"], spec["sub"]))
    g = gen_random(rng, spec["count"], spec["maxlen"])
  first = True
  for case in g:
    do_case(case, rep)
    if first: rep.sample(case); first = False
    if spec["mode"] == "exh":
      # the same history against a table with room for one entry only
      c2 = dict(case); c2["max_entries"] = 1
      do_case(c2, rep)


def replay (witness, rep):
  do_case(witness, rep)
