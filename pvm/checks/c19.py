"""
C19 - discovered topology is the physical one; flooding is pruned to a tree.

(a) probe codec: the real discovery probe for arbitrary 64-bit datapath ids
    and 16-bit ports is fed back through the real packet-in handler.
(b) tree function: _calc_spanning_tree() on enumerated multigraphs, judged
    by an independent union-find oracle.
(c) end to end: real switches, real discovery and spanning_tree components
    on the virtual-time network; links cut and restored (one or both
    directions), switches connecting and disconnecting; adjacency, link
    event stream, NO_FLOOD bits on the switches and an actual flooded frame
    are checked after every change.
"""
import itertools
import random
import struct
import traceback

from pvm import simnet
from pvm.ref import ofwire, frames as F, ofmatch as OM

ID = "C19"
LEVEL = "exploration"
RULE = ("(a) (dpid, port, receiver dpid, receiver port) over boundary and "
        "random values; (b) every multigraph on 3 switches with up to 2 "
        "parallel links per pair and each direction independently present "
        "(4096), sampled/enumerated larger ones in the thorough tier, random "
        "graphs to 12 switches; (c) histories of link cut/restore (both "
        "directions in one sweep or separately, one-way) and switch "
        "connect/disconnect on 2-4 switches; non-trivial = graph has a cycle "
        "or a one-way link, or a history changes the tree; distinct = "
        "distinct case")
ASSUMPTIONS = ["(c) waits link_timeout + check period + one probe cycle of "
               "virtual time after each change before judging",
               "frames between switches are delivered within 0.5 virtual "
               "seconds"]
REQUIRED = ["histories_with_a_staged_bring_up", "ports_enabled_after_the_switch_connected", "host_frames_that_reached_the_controller_beside_the_probes", "histories_with_discovery_options", "probes", "graphs", "graphs_with_cycles", "graphs_with_oneway",
            "histories", "changes_judged", "flood_probes", "link_events",
            "both_directions_one_sweep", "quiet_periods_checked", "ports_hot_plugged",
            "histories_with_dpids_equal_to_port_numbers",
            "histories_with_spanning_tree_options", "histories_with_a_flood_everything_flow",
            "withdrawals_checked_at_disconnect", "ports_deleted", "ports_readded",
            "reconnects_before_the_old_connection_closed",
            "ports_that_kept_announcing_changes",
            "histories_with_a_link_on_the_highest_port_number",
            "probes_padded_to_the_ethernet_minimum"]
TIMEOUT = {"quick": 1500, "thorough": 10800}

_st = {}


def world ():
  w = _st.get("w")
  if w is None:
    w = simnet.World()
    w.start_openflow()
    _st["w"] = w
  return w


# --------------------------------------------------------------------------
# (a) probe codec

def run_probe (case, rep):
  w = world()
  def fire (key, what):
    rep.violation("C19 probe: " + key, what, case)
  import pox.openflow.discovery as D
  import pox.openflow as pof
  import pox.openflow.libopenflow_01 as of
  from pox.lib.addresses import EthAddr
  disc = _st.get("disc_a")
  if disc is None:
    disc = D.Discovery.__new__(D.Discovery)
    disc._eat_early_packets = False
    disc._explicit_drop = False
    disc._install_flow = False
    disc.adjacency = {}
    _st["disc_a"] = disc
    sender = D.LLDPSender.__new__(D.LLDPSender)
    sender._ttl = 120
    _st["sender_a"] = sender
  sender = _st["sender_a"]
  dpid, port, rdpid, rport = case["dpid"], case["port"], case["rdpid"], case["rport"]
  rep.count("probes")
  class Con (object):
    def __init__ (self, d): self.dpid = d; self.connect_time = 1
    def send (self, x): pass
  core = w.core
  added = []
  try:
    for d in (dpid, rdpid):
      if d not in core.openflow.connections:
        c = Con(d); core.openflow._connect(c); added.append(d)
    try:
      po_bytes = sender.create_packet_out(dpid, port, EthAddr(b"\x02\0\0\0\0\x01"))
    except Exception:
      fire("building the probe raises", traceback.format_exc()[-500:]); return
    try:
      m, _ = ofwire.dec_message(po_bytes)
    except ofwire.WireError as e:
      fire("probe packet_out undecodable", repr(e)); return
    if m["name"] != "packet_out" or [a.get("port") for a in m["actions"]] != [port]:
      fire("probe is not sent out of the probed port",
           "actions %r" % m["actions"]); return
    frame = m["data"]
    ev = pof.PacketIn(Con(rdpid), of.ofp_packet_in(in_port=rport, data=frame))
    disc.adjacency.clear()
    got = []
    h = lambda e: got.append((e.added, tuple(e.link)))
    disc.addListener(D.LinkEvent, h)
    try:
      disc._handle_openflow_PacketIn(ev)
    except Exception:
      fire("handling the probe raises", traceback.format_exc()[-500:]); return
    finally:
      disc.removeListener(h)
    want = (dpid, port, rdpid, rport)
    links = [tuple(l) for l in disc.adjacency]
    if (dpid, port) == (rdpid, rport):
      if links: fire("a port's own probe recorded as a link", repr(links))
      return
    if links != [want]:
      fire("recorded link differs from the probed one",
           "probe %r recorded %r" % (want, links)); return
    if got != [(True, want)]:
      fire("link event differs", repr(got))
  finally:
    for d in added:
      core.openflow._disconnect(d)


# --------------------------------------------------------------------------
# (b) tree function

class UF (object):
  def __init__ (self): self.p = {}
  def find (self, x):
    self.p.setdefault(x, x)
    while self.p[x] != x:
      self.p[x] = self.p[self.p[x]]; x = self.p[x]
    return x
  def union (self, a, b):
    ra, rb = self.find(a), self.find(b)
    if ra == rb: return False
    self.p[ra] = rb
    return True


def run_graph (case, rep):
  w = world()
  def fire (key, what):
    rep.violation("C19 tree: " + key, what, case)
  import pox.openflow.discovery as D
  import pox.openflow.spanning_tree as ST
  core = w.core
  stub = _st.get("stub")
  if stub is None:
    class Stub (object):
      adjacency = {}
      send_cycle_time = 5
      def is_edge_port (self, d, p): return True
    stub = Stub()
    if core.hasComponent("openflow_discovery"):
      raise simnet.Inconclusive("discovery already registered in this process")
    core.register("openflow_discovery", stub)
    _st["stub"] = stub
  links = [tuple(l) for l in case["links"]]     # directed (d1,p1,d2,p2)
  stub.adjacency = {D.Discovery.Link(*l): 0.0 for l in links}
  rep.count("graphs")
  try:
    tree = ST._calc_spanning_tree()
  except Exception:
    fire("raises", traceback.format_exc()[-600:]); return False
  ls = set(links)
  bidir = set()
  for (a, p, b, q) in ls:
    if (b, q, a, p) in ls: bidir.add(frozenset([(a, p), (b, q)]))
  oneway = len(ls) > 2 * len(bidir)
  if oneway: rep.count("graphs_with_oneway")
  comp = UF()
  switches = set()
  for (a, p, b, q) in ls: switches.add(a); switches.add(b)
  nb = 0
  cyc = False
  for e in bidir:
    (a, p), (b, q) = tuple(e)
    if not comp.union(a, b): cyc = True
  if cyc: rep.count("graphs_with_cycles")
  # judge the returned tree
  edges = set()
  for u, outs in tree.items():
    for (v, p) in outs:
      back = [q for (x, q) in tree.get(v, ()) if x == u]
      if len(back) != 1:
        fire("tree edge not mirrored at the other switch",
             "%r -> (%r, port %r); other side has %r" % (u, v, p, back))
        return True
      if frozenset([(u, p), (v, back[0])]) not in bidir:
        fire("tree uses a link that is not bidirectional (or mixes the "
             "ports of two parallel links)",
             "%r.%r <-> %r.%r; bidirectional links %r" %
             (u, p, v, back[0], sorted(tuple(sorted(e)) for e in bidir)))
        return True
      edges.add(frozenset([(u, p), (v, back[0])]))
  t = UF()
  for e in edges:
    (a, p), (b, q) = tuple(e)
    if not t.union(a, b):
      fire("tree contains a cycle", "edges %r" %
           sorted(tuple(sorted(e)) for e in edges)); return True
  pairs = set()
  for e in edges:
    (a, p), (b, q) = tuple(e)
    k = frozenset([a, b])
    if k in pairs:
      fire("two parallel links of one switch pair both in the tree", repr(k))
      return True
    pairs.add(k)
  for s in switches:
    for s2 in switches:
      if (comp.find(s) == comp.find(s2)) != (t.find(s) == t.find(s2)):
        if comp.find(s) == comp.find(s2):
          fire("tree does not span a connected component",
               "switches %r and %r are connected by bidirectional links but "
               "not by the tree; tree edges %r" %
               (s, s2, sorted(tuple(sorted(e)) for e in edges)))
        else:
          fire("tree connects switches that are not connected", "%r %r" % (s, s2))
        return True
  return cyc or oneway


# --------------------------------------------------------------------------
# (c) end to end

def gen_port (sw, no):
  # (the switch's own default port names only fit numbers below 1000 into the
  #  16-octet name field)
  return sw.generate_port(no, name=None if no < 1000 else "p%x" % no)


class Topo (object):
  def __init__ (self, w, n, dpid_base, initial_ports=4, hub=False, port_map=None, staged=None):
    self.hub = hub
    self.port_map = port_map or {}
    self.pad = False
    self.padded = 0
    self.initial_ports = initial_ports
    self.w = w
    self.n = n
    self.dpids = [dpid_base + i for i in range(n)]
    self.sw = {}
    self.phys = {}       # (i, port) -> (j, port)   physical wiring
    self.up = {}         # (i, port) -> bool: direction from (i,port) works
    self.queue = []
    self.flood_seen = None
    self.staged = staged or ()
    for i in range(n):
      self.connect(i)

  def connect (self, i):
    c, s = self.w.connect_switch_socket("t%d" % i)
    ports = self.initial_ports
    if self.port_map:
      # the same switch with other port numbers (the highest one a physical
      # port can have among them)
      import pox.datapaths.switch as swm
      tmp = swm.SoftwareSwitch(self.dpids[i], ports=0)
      ports = [gen_port(tmp, self.port_map.get(k, k))
               for k in range(1, self.initial_ports + 1)]
    sp = simnet.SwitchPeer(self.w, self.dpids[i], s, ports=ports,
                           max_buffers=0)
    sp.on_out = (lambda peer, port, raw, i=i: self.emitted(i, port, raw))
    self.sw[i] = sp
    # a staged bring-up: the ports towards other switches are administratively
    # down when the switch connects (its features reply says so) and are
    # enabled later, each announced by a port-status message
    for pno in getattr(self, "staged", ()):
      if pno in sp.switch.ports: sp.switch.ports[pno].config |= 1
    sp.hello()
    self.w.run()
    if self.hub:
      # what a hub-like forwarding component installs: everything is flooded
      # unless a more specific entry says otherwise (the probes must be caught
      # by discovery's own entry, or they travel on and fake links)
      import pox.openflow.libopenflow_01 as of
      con = self.w.core.openflow.getConnection(self.dpids[i])
      if con is not None:
        con.send(of.ofp_flow_mod(priority=1, actions=[of.ofp_action_output(port=of.OFPP_FLOOD)]))
        self.w.run()

  def disconnect (self, i):
    sp = self.sw.pop(i)
    sp.worker.close()
    self.w.run()

  def wire (self, i, p, j, q):
    self.phys[(i, p)] = (j, q); self.phys[(j, q)] = (i, p)
    self.up[(i, p)] = True; self.up[(j, q)] = True

  def emitted (self, i, port, raw):
    if self.flood_seen is not None and raw[12:14] != b"\x88\xcc":
      pass
    tgt = self.phys.get((i, port))
    if tgt is None or not self.up.get((i, port)): return
    if tgt[0] not in self.sw: return
    if self.pad and len(raw) < 60:
      # what a network card does to a short frame on the way out
      raw = raw + b"\0" * (60 - len(raw))
      self.padded += 1
    self.queue.append((tgt[0], tgt[1], raw))

  def deliver (self):
    n = 0
    while self.queue and n < 10000:
      j, q, raw = self.queue.pop(0)
      # (a cable that ends at a port the switch does not have - it was
      #  hot-plugged before the switch reconnected with its initial ports
      #  only - delivers nothing)
      if j in self.sw and q in self.sw[j].switch.ports:
        if self.flood_seen is not None and raw[12:14] == b"\x88\xb5":
          self.flood_seen.setdefault(j, 0)
          self.flood_seen[j] += 1
        self.sw[j].inject(q, raw)
        self.w.run()
      n += 1

  def settle (self, dt):
    t = 0.0
    while t < dt:
      self.w.advance(0.5)
      self.deliver()
      t += 0.5

  def directed_links (self):
    out = set()
    for (i, p), (j, q) in self.phys.items():
      if self.up[(i, p)] and i in self.sw and j in self.sw \
         and p in self.sw[i].switch.ports and q in self.sw[j].switch.ports \
         and not (self.sw[i].switch.ports[p].config & 1) \
         and not (self.sw[j].switch.ports[q].config & 1):
        out.add((self.dpids[i], p, self.dpids[j], q))
    return out

  def close (self):
    for i in list(self.sw):
      try: self.sw[i].worker.close()
      except Exception: pass
    self.sw.clear()
    self.w.run()
    self.w.advance(20)


TOPOS = {
  "pair": (2, [(0, 1, 1, 1)]),
  "pair2": (2, [(0, 1, 1, 1), (0, 2, 1, 2)]),
  "line3": (3, [(0, 1, 1, 1), (1, 2, 2, 1)]),
  "tri": (3, [(0, 1, 1, 1), (1, 2, 2, 1), (2, 2, 0, 2)]),
  "square": (4, [(0, 1, 1, 1), (1, 2, 2, 1), (2, 2, 3, 1), (3, 2, 0, 2)]),
  "tri_par": (3, [(0, 1, 1, 1), (0, 3, 1, 3), (1, 2, 2, 1), (2, 2, 0, 2)]),
  # a cable between two ports of one switch (a patch cord plugged back in)
  "pair_self": (2, [(0, 1, 1, 1), (0, 3, 0, 4)]),
}


def launch_components (w, link_timeout=None, st_opts=None, disc_opts=None):
  st_opts = dict(st_opts or {})
  disc_opts = dict(disc_opts or {})
  if _st.get("launched"):
    if _st.get("lt") != link_timeout or _st.get("st") != st_opts or _st.get("do") != disc_opts:
      raise simnet.Inconclusive("one discovery configuration per process")
    return
  _st["lt"] = link_timeout; _st["st"] = st_opts; _st["do"] = disc_opts
  import pox.openflow.discovery as D
  import pox.openflow.spanning_tree as ST
  if w.core.hasComponent("openflow_discovery"):
    raise simnet.Inconclusive("stub discovery registered in this process")
  if link_timeout: D.launch(link_timeout=link_timeout, **disc_opts)
  else: D.launch(**disc_opts)
  ST.launch(**st_opts)
  w.run()
  _st["launched"] = True
  _st["events"] = []
  w.core.openflow_discovery.addListenerByName(
    "LinkEvent", lambda e: _st["events"].append((e.added, tuple(e.link))))


def run_history (case, rep):
  w = world()
  launch_components(w, case.get("link_timeout"), case.get("st_opts"), case.get("disc_opts"))
  if case.get("st_opts"): rep.count("histories_with_spanning_tree_options")
  if case.get("disc_opts"): rep.count("histories_with_discovery_options")
  def fire (key, what):
    rep.violation("C19 e2e: " + key, what, case)
  core = w.core
  disc = core.openflow_discovery
  n, wires = TOPOS[case["topo"]]
  _st["dpid"] = _st.get("dpid", 0x3000) + 16
  base = _st["dpid"]
  if case.get("small_dpids"):
    # datapath ids 1..n: the same small numbers the ports carry
    base = 1
    rep.count("histories_with_dpids_equal_to_port_numbers")
  pmap = {int(k): v for k, v in (case.get("port_map") or {}).items()}
  pm = lambda x: pmap.get(x, x)
  if pmap: rep.count("histories_with_a_link_on_the_highest_port_number")
  topo = Topo(w, n, base,
              initial_ports=case.get("initial_ports", 4), hub=bool(case.get("hub")),
              port_map=pmap,
              staged=sorted(set(pm(p_) for w_ in wires for p_ in (w_[1], w_[3])))
              if case.get("staged") else None)
  if case.get("staged"): rep.count("histories_with_a_staged_bring_up")
  if case.get("hub"): rep.count("histories_with_a_flood_everything_flow")
  topo.pad = bool(case.get("pad"))
  for (i, p, j, q) in wires: topo.wire(i, pm(p), j, pm(q))
  mine = set(topo.dpids)
  ev0 = len(_st["events"])
  rep.count("histories")
  SETTLE = disc._link_timeout + disc._timeout_check_period + \
      disc.send_cycle_time + 3
  nt = False
  try:
    def spurious (since, allowed, when):
      """A link the harness left alone must not be announced removed."""
      for added, l in _st["events"][since:]:
        if added or (l[0] not in mine and l[2] not in mine): continue
        if tuple(l) not in allowed:
          fire("a live, continuously probed link was announced removed",
               "%s: %r" % (when, l))
          return True
      return False
    topo.settle(SETTLE)
    if not judge(topo, fire, rep, "initial discovery", mine, ev0): return True
    # nothing changes for a while: nothing may be announced
    mark = len(_st["events"])
    topo.settle(2 * SETTLE)
    rep.count("quiet_periods_checked")
    if spurious(ev0, set(), "initial discovery and a quiet period"): return True
    if not judge(topo, fire, rep, "after a quiet period", mine, ev0): return True
    for op in case["ops"]:
      k = op[0]
      if pmap and k in ("cut", "cut_both", "restore", "port_del", "port_add", "flap"):
        op = [op[0], op[1], pm(op[2])] + list(op[3:])
      mark = len(_st["events"])
      links_before = topo.directed_links()
      if k == "cut":                       # one direction of a link goes dark
        topo.up[(op[1], op[2])] = False
      elif k == "cut_both":
        a = (op[1], op[2]); b = topo.phys[a]
        topo.up[a] = False; topo.up[b] = False
        rep.count("both_directions_one_sweep")
      elif k == "restore":
        a = (op[1], op[2]); b = topo.phys[a]
        topo.up[a] = True; topo.up[b] = True
      elif k == "down":
        if op[1] in topo.sw and len(topo.sw) > 1:
          i_ = op[1]
          # its probes of this round are still on the wire when it goes away
          w.advance(disc.send_cycle_time)
          inflight = [f for f in topo.queue]
          topo.disconnect(i_)
          topo.deliver()
          if inflight: rep.count("probes_in_flight_at_disconnect")
          # withdrawn at once (not merely timed out later)
          rep.count("withdrawals_checked_at_disconnect")
          d_ = topo.dpids[i_]
          left = [tuple(l) for l in disc.adjacency if l[0] == d_ or l[2] == d_]
          if left:
            fire("links of a disconnected switch are still in the adjacency "
                 "right after it disconnected", repr(left[:3])); return True
      elif k == "port_del":
        i_, p_ = op[1], op[2]
        if i_ in topo.sw and p_ in topo.sw[i_].switch.ports:
          topo.sw[i_].switch.delete_port(p_); w.run()
          rep.count("ports_deleted")
      elif k == "port_add":
        i_, p_ = op[1], op[2]
        if i_ in topo.sw and p_ not in topo.sw[i_].switch.ports:
          topo.sw[i_].switch.add_port(gen_port(topo.sw[i_].switch, p_)); w.run()
          rep.count("ports_readded")
      elif k == "flap":
        # one port keeps announcing changes of itself (it renegotiates its
        # speed, say) several times a second, for longer than a link lives
        # without probes: the links of that switch and of all the others are
        # probed and kept all the same
        i_, p_ = op[1], op[2]
        if i_ in topo.sw and p_ in topo.sw[i_].switch.ports:
          sws = topo.sw[i_].switch
          port = sws.ports[p_]
          t = 0.0
          while t < SETTLE:
            port.curr ^= 1
            sws.send_port_status(port, 2)         # OFPPR_MODIFY
            w.run()
            w.advance(op[3]); topo.deliver()
            t += op[3]
            rep.count("port_status_modify_in_bursts")
          rep.count("ports_that_kept_announcing_changes")
      elif k == "reboot":
        # the switch restarts and is back (new connection, ports with their
        # default configuration) before anybody noticed that its old
        # connection is dead; that one goes away a little later
        if op[1] in topo.sw:
          old = topo.sw[op[1]]
          topo.connect(op[1])
          rep.count("reconnects_before_the_old_connection_closed")
          topo.settle(op[2] if len(op) > 2 else 1.0)
          try: old.worker.close()
          except Exception: pass
          w.run()
      elif k == "enable":
        # the ports that were down at connect time come up, one switch after
        # the other; from then on their links are probed like any other
        topo.staged = ()
        for i_ in sorted(topo.sw):
          sws = topo.sw[i_].switch
          for pno, port in sorted(sws.ports.items()):
            if port.config & 1:
              port.config &= ~1
              sws.send_port_status(port, 2)
              w.run()
          topo.settle(op[1] if len(op) > 1 else 0.5)
        rep.count("ports_enabled_after_the_switch_connected")
      elif k == "hostpkt":
        # ordinary traffic of a host reaches the controller (a table miss on
        # a host-facing port): an ARP request, an LLDP frame of somebody
        # else's, a unicast datagram.  None of discovery's business - and it
        # goes on listening for its own probes afterwards
        i_ = op[1]
        if i_ in topo.sw:
          hp = [p_ for p_ in (pm(4), pm(3)) if p_ in topo.sw[i_].switch.ports
                and (i_, p_) not in topo.phys]
          if hp:
            hsrc = b"\x02\0\0\0\x01" + bytes([0x10 + i_])
            frames_ = [F.eth(b"\xff" * 6, hsrc, 0x0806,
                             F.arp(1, hsrc, 0x0a000001, b"\0" * 6, 0x0a000002)),
                       F.eth(bytes.fromhex("0180c200000e"), hsrc, 0x88cc,
                             bytes.fromhex("0207040200000001" "04030231" "06020078" "0000")),
                       F.eth(b"\x02\0\0\0\x01\x99", hsrc, 0x0800,
                             F.ipv4(0x0a000001, 0x0a000002, 17,
                                    F.udp(7, 9, b"host", src=0x0a000001, dst=0x0a000002)))]
            for _ in range(op[3] if len(op) > 3 else 1):
              topo.sw[i_].inject(hp[0], frames_[op[2] % 3]); w.run(); topo.deliver()
            rep.count("host_frames_that_reached_the_controller_beside_the_probes")
      elif k == "hotplug":
        # ports that did not exist when the switch connected are added one
        # by one (each announced with a port-status message)
        for i in sorted(topo.sw):
          for pno in (pm(1), pm(2), pm(3), pm(4)):
            if pno not in topo.sw[i].switch.ports:
              # (add_port(<int>) itself is broken in the pinned tree: it hands
              #  the dpid to generate_port as the port name; not a C19 matter)
              topo.sw[i].switch.add_port(gen_port(topo.sw[i].switch, pno))
              w.run()
        rep.count("ports_hot_plugged")
      nt = True
      gone = links_before - topo.directed_links()
      topo.settle(SETTLE)
      rep.count("changes_judged")
      if spurious(mark, gone, "after %s" % (op,)): return True
      if k in ("hotplug", "enable"):
        # ... and the new links stay
        if not judge(topo, fire, rep, "after %s" % (op,), mine, ev0): return True
        mark2 = len(_st["events"])
        topo.settle(2 * SETTLE)
        if spurious(mark2, set(), "quiet period after hot-plugging ports"): return True
      if not judge(topo, fire, rep, "after %s" % (op,), mine, ev0): return True
  except Exception:
    fire("exception", traceback.format_exc()[-800:])
  finally:
    if topo.padded: rep.count("probes_padded_to_the_ethernet_minimum", topo.padded)
    topo.close()
  return nt


def judge (topo, fire, rep, when, mine, ev0):
  w = topo.w
  core = w.core
  disc = core.openflow_discovery
  # 1. adjacency == directed links over which probes travel
  adj = set(tuple(l) for l in disc.adjacency if l[0] in mine or l[2] in mine)
  want = topo.directed_links()
  if adj != want:
    extra = sorted(adj - want); missing = sorted(want - adj)
    fire("adjacency differs from the links probes travel over (%s)" %
         ("stale link kept" if extra else "live link missing"),
         "%s: extra %r missing %r" % (when, extra, missing))
    return False
  # 2. link events alternate add/remove per link, starting with add
  state = {}
  for added, l in _st["events"][ev0:]:
    if l[0] not in mine and l[2] not in mine: continue
    rep.count("link_events")
    prev = state.get(l)
    if prev is None and not added:
      fire("link announced removed before it was announced added", repr(l))
      return False
    if prev is not None and prev == added:
      fire("link announced %s twice in a row" % ("added" if added else "removed"),
           repr(l)); return False
    state[l] = added
  for l, added in state.items():
    if added != (l in want):
      fire("last link event disagrees with the adjacency", "%r added=%r" % (l, added))
      return False
  # 3. flooding: NO_FLOOD bits on the switches leave a spanning forest of the
  #    bidirectional graph plus every port without a link
  bidir = set()
  for (a, p, b, q) in want:
    if (b, q, a, p) in want: bidir.add(frozenset([(a, p), (b, q)]))
  cfg = {}
  for i, sp in topo.sw.items():
    for no, port in sp.switch.ports.items():
      cfg[(topo.dpids[i], no)] = bool(port.config & 16)     # NO_FLOOD
  linked = set()
  for (a, p, b, q) in want: linked.add((a, p)); linked.add((b, q))
  for (d, no), nf in cfg.items():
    if (d, no) not in linked and nf:
      fire("flooding disabled on a port that has no link",
           "%s: switch %#x port %d" % (when, d, no)); return False
  comp = UF(); t = UF()
  for e in bidir:
    (a, p), (b, q) = tuple(e); comp.union(a, b)
  tree_edges = [e for e in bidir if all(not cfg.get(x, False) for x in e)]
  for e in tree_edges:
    (a, p), (b, q) = tuple(e)
    if not t.union(a, b):
      fire("flood-enabled inter-switch ports contain a loop",
           "%s: %r" % (when, sorted(tuple(sorted(e)) for e in tree_edges)))
      return False
  live = [topo.dpids[i] for i in topo.sw]
  for a in live:
    for b in live:
      if comp.find(a) == comp.find(b) and t.find(a) != t.find(b):
        fire("flood-enabled ports do not span a connected component",
             "%s: switches %#x and %#x are linked both ways but flooding "
             "cannot get from one to the other; NO_FLOOD ports %r" %
             (when, a, b, sorted(k for k, v in cfg.items() if v)))
        return False
  # 4. an actual flooded frame reaches every switch of the component once
  ALLM = dict(wildcards=OM.FW_ALL, in_port=0, dl_src=b"\0" * 6, dl_dst=b"\0" * 6,
              dl_vlan=0, dl_vlan_pcp=0, dl_type=0, nw_tos=0, nw_proto=0,
              nw_src=0, nw_dst=0, tp_src=0, tp_dst=0)
  m = dict(ALLM); m["dl_type"] = 0x88b5; m["wildcards"] = OM.FW_ALL & ~OM.FW_DL_TYPE
  fm = ofwire.enc_message("flow_mod", dict(
    xid=1, match=m, cookie=0, command=0, idle_timeout=0, hard_timeout=0,
    priority=5, buffer_id=0xffffffff, out_port=0xffff, flags=0,
    actions=[dict(type=0, port=0xfffb, max_len=0)]))
  for i, sp in topo.sw.items():
    sp.conn.read  # noqa (real connection object)
    sp.switch.rx_message(sp.conn, __import__("pox.openflow.libopenflow_01",
                         fromlist=["x"]).ofp_flow_mod.unpack_new(fm)[1])
  src = sorted(topo.sw)[0]
  if 4 not in topo.sw[src].switch.ports:
    return True            # (no host-facing port yet to send the probe from)
  topo.flood_seen = {}
  frame = F.eth(b"\xff" * 6, b"\x02\0\0\0\0\x77", 0x88b5, b"flood-probe")
  topo.sw[src].inject(4, frame)
  w.run()
  topo.deliver()
  seen = topo.flood_seen; topo.flood_seen = None
  rep.count("flood_probes")
  for i in topo.sw:
    if i == src: continue
    same = comp.find(topo.dpids[i]) == comp.find(topo.dpids[src])
    cnt = seen.get(i, 0)
    if same and cnt != 1:
      fire("a flooded frame reached a switch of its component %s" %
           ("more than once" if cnt > 1 else "not at all"),
           "%s: switch index %d received it %d times" % (when, i, cnt))
      return False
  if seen.get(src, 0):
    fire("a flooded frame came back to its origin", when); return False
  return True


# --------------------------------------------------------------------------

def do_case (case, rep):
  try:
    if case["kind"] == "probe": run_probe(case, rep); nt = True
    elif case["kind"] == "graph": nt = run_graph(case, rep)
    else: nt = run_history(case, rep)
  except (simnet.Inconclusive, simnet.AdapterError):
    raise
  except Exception:
    rep.violation("C19 harness-visible exception",
                  traceback.format_exc()[-900:], case)
    nt = True
  rep.case(repr(sorted(case.items(), key=lambda kv: kv[0])).encode(),
           nontrivial=bool(nt))


def gen_probes (rng, n):
  D = [0, 1, (1 << 48) - 1, 1 << 48, (1 << 48) + 1, 1 << 63, (1 << 64) - 1,
       0xa, 0x10, 0xabcdef]
  P = [1, 2, 9, 10, 255, 256, 0xfeff, 0xff00, 4660]
  for d in D:
    for p in P:
      yield dict(kind="probe", dpid=d, port=p, rdpid=rng.choice(D), rport=rng.choice(P))
  # one class per length of the textual form (the probe carries the dpid as
  # hex text and the port as decimal text): 1..16 hex digits
  def by_digits (k):
    return rng.randrange(16 ** (k - 1), 16 ** k)
  for k in range(1, 17):
    for _ in range(3):
      yield dict(kind="probe", dpid=by_digits(k), port=rng.choice(P),
                 rdpid=by_digits(rng.randrange(1, 17)), rport=rng.choice(P))
  for _ in range(n):
    yield dict(kind="probe", dpid=by_digits(rng.randrange(1, 17)),
               port=rng.choice([rng.randrange(1, 10), rng.randrange(10, 100),
                                rng.randrange(100, 1000), rng.randrange(1, 0xff01)]),
               rdpid=rng.getrandbits(rng.choice([8, 12, 48, 64])),
               rport=rng.randrange(1, 0xff01))


def graph_from_bits (nsw, par, bits):
  """pairs x parallel links x 2 directions"""
  links = []
  k = 0
  nextport = {s: 1 for s in range(1, nsw + 1)}
  for a in range(1, nsw + 1):
    for b in range(a + 1, nsw + 1):
      for j in range(par):
        pa = nextport[a]; nextport[a] += 1
        pb = nextport[b]; nextport[b] += 1
        if bits & (1 << k): links.append([a, pa, b, pb])
        k += 1
        if bits & (1 << k): links.append([b, pb, a, pa])
        k += 1
  return links


def gen_graphs (spec, rng):
  mode = spec["g"]
  if mode == "s3p2":
    for bits in range(spec["shard"], 1 << 12, spec["nshards"]):
      yield dict(kind="graph", links=graph_from_bits(3, 2, bits))
  elif mode == "s4p2":
    for bits in range(spec["shard"], 1 << 24, spec["nshards"]):
      yield dict(kind="graph", links=graph_from_bits(4, 2, bits))
  elif mode == "s5p1":
    for bits in range(spec["shard"], 1 << 20, spec["nshards"]):
      yield dict(kind="graph", links=graph_from_bits(5, 1, bits))
  elif mode == "s4p2_sample":
    for _ in range(spec["n"]):
      yield dict(kind="graph", links=graph_from_bits(4, 2, rng.getrandbits(24)))
  else:
    for _ in range(spec["n"]):
      nsw = rng.randrange(2, 13)
      links = []
      nextport = {s: 1 for s in range(1, nsw + 1)}
      dens = rng.choice([0.15, 0.3, 0.6])
      ids = rng.sample(range(1, 200), nsw)
      for x in range(nsw):
        for y in range(x + 1, nsw):
          for _j in range(rng.choice([1, 1, 2])):
            if rng.random() < dens:
              a, b = ids[x], ids[y]
              pa = nextport[x + 1]; nextport[x + 1] += 1
              pb = nextport[y + 1]; nextport[y + 1] += 1
              r = rng.random()
              if r < 0.7: links += [[a, pa, b, pb], [b, pb, a, pa]]
              elif r < 0.85: links.append([a, pa, b, pb])
              else: links.append([b, pb, a, pa])
      yield dict(kind="graph", links=links)


def gen_histories (rng, n, link_timeout=None, st_opts=None, disc_opts=None):
  names = sorted(TOPOS)
  for _ in range(n):
    tname = rng.choice(names)
    nsw, wires = TOPOS[tname]
    ops = []
    cut = set()
    for _ in range(rng.randrange(1, 5)):
      r = rng.random()
      wi = rng.choice(wires)
      if r < 0.3 and wi[:2] not in cut:
        ops.append(["cut_both", wi[0], wi[1]]); cut.add(wi[:2])
      elif r < 0.5 and wi[:2] not in cut:
        end = rng.choice([(wi[0], wi[1]), (wi[2], wi[3])])
        ops.append(["cut", end[0], end[1]]); cut.add(wi[:2])
      elif r < 0.75 and cut:
        c = rng.choice(sorted(cut)); cut.discard(c)
        ops.append(["restore", c[0], c[1]])
      elif r < 0.8:
        ops.append(["flap", wi[0], rng.choice([wi[1], 3, 4]), rng.choice([0.1, 0.2, 0.45])])
      elif r < 0.85:
        ops.append(["down", rng.randrange(nsw)])
      elif r < 0.93:
        ops.append(["up", rng.randrange(nsw)])
        if rng.random() < 0.3: ops.append(["reboot", rng.randrange(nsw), rng.choice([0.5, 2.0, 6.0])])
      else:
        # a port is removed from a switch (announced by port-status), and put
        # back later
        ops.append(["port_del", wi[0], wi[1]])
        if rng.random() < 0.7: ops.append(["port_add", wi[0], wi[1]])
    case = dict(kind="e2e", topo=tname, ops=ops)
    if rng.random() < 0.25:
      case["initial_ports"] = rng.choice([0, 1])
      case["ops"] = [["hotplug"]] + ops
    elif rng.random() < 0.25:
      case["staged"] = True
      case["ops"] = [["enable", rng.choice([0.5, 2.0, 0])]] + ops
    if link_timeout: case["link_timeout"] = link_timeout
    if rng.random() < 0.35: case["small_dpids"] = True
    if rng.random() < 0.5: case["pad"] = True
    if rng.random() < 0.25:
      # 0xfeff is the highest number a physical port can have (OFPP_MAX,
      # 0xff00, is the *number* of port numbers: the switch, the spanning
      # tree and Open vSwitch all take ports to be below it)
      case["port_map"] = {str(rng.choice([1, 2])): 0xfeff}
    if rng.random() < 0.3: case["hub"] = True
    # (discovery told not to install its own flow relies on the probes missing
    #  the table: no flood-everything flow beside it)
    if (disc_opts or {}).get("no_flow"): case.pop("hub", None)
    if st_opts: case["st_opts"] = st_opts
    if disc_opts: case["disc_opts"] = disc_opts
    if rng.random() < (0.9 if disc_opts else 0.4):
      for _ in range(rng.randrange(1, 3)):
        case["ops"].insert(rng.randrange(len(case["ops"]) + 1),
                           ["hostpkt", rng.randrange(nsw), rng.randrange(3), rng.choice([1, 1, 3])])
    yield case


def plan (tier, seed):
  if tier == "quick":
    return ([dict(mode="probe", n=300, sub=0)] +
            [dict(mode="graph", g="s3p2", shard=i, nshards=2) for i in range(2)] +
            [dict(mode="graph", g="s4p2_sample", n=6000, sub=i) for i in range(2)] +
            [dict(mode="graph", g="rand", n=3000, sub=i) for i in range(2)] +
            [dict(mode="e2e", n=30, sub=i, lt=[None, 2, None, 4, None, 20, None, 3, None][i])
             for i in range(9)] +
            [dict(mode="e2e", n=20, sub=20 + i, lt=None, st=o)
             for i, o in enumerate([dict(no_flood=True), dict(hold_down=True),
                                    dict(no_flood=True, hold_down=True)])] +
            [dict(mode="e2e", n=15, sub=40 + i, lt=[None, 3, None][i], do=o)
             for i, o in enumerate([dict(eat_early_packets=True), dict(explicit_drop=False),
                                    dict(no_flow=True, eat_early_packets=True)])])
  return ([dict(mode="probe", n=200000, sub=0)] +
          [dict(mode="graph", g="s3p2", shard=0, nshards=1)] +
          [dict(mode="graph", g="s4p2", shard=i, nshards=96) for i in range(24)] +
          [dict(mode="graph", g="s5p1", shard=i, nshards=8) for i in range(8)] +
          [dict(mode="graph", g="rand", n=300000, sub=i) for i in range(16)] +
          [dict(mode="e2e", n=200, sub=i, lt=[None, 2, None, 4, 20, 3][i % 6])
           for i in range(48)] +
          [dict(mode="e2e", n=200, sub=100 + i, lt=[None, 3][i % 2], st=o)
           for i, o in enumerate([dict(no_flood=True), dict(hold_down=True),
                                  dict(no_flood=True, hold_down=True)] * 4)] +
          [dict(mode="e2e", n=200, sub=200 + i, lt=[None, 3][i % 2], do=o)
           for i, o in enumerate([dict(eat_early_packets=True), dict(explicit_drop=False),
                                  dict(no_flow=True, eat_early_packets=True),
                                  dict(no_flow=True)] * 3)])


def run (spec, rep):
  rng = random.Random("c19/%d/%s/%s/%d" % (spec["seed"], spec["mode"],
                                            spec.get("g", ""),
                                            spec.get("sub", spec.get("shard", 0))))
  if spec["mode"] == "probe": g = gen_probes(rng, spec["n"])
  elif spec["mode"] == "graph": g = gen_graphs(spec, rng)
  else: g = gen_histories(rng, spec["n"], spec.get("lt"), spec.get("st"), spec.get("do"))
  first = True
  for case in g:
    do_case(case, rep)
    if first: rep.sample(case); first = False


def replay (witness, rep):
  do_case(witness, rep)
