"""
C01 - the OpenFlow 1.0 wire codec is lossless and matches the specified
layout (plus Nicira extensions, see c01_nx).

For every generated object: pack() -> bytes; len(bytes) == len(obj) ==
length field; bytes == pvm.ref.ofwire encoding of the object's fields
(independent layout oracle); decoding (with garbage before and after)
consumes exactly those bytes, yields an equal object (library __eq__ AND
field-by-field), independent of what follows; re-encoding reproduces the
bytes.  Decoding is driven through unpack_new, the type->unpacker table used
by both connection classes, and the action / queue-property list parsers.
"""
import random
import struct
import traceback

from pvm.gen import ofgen
from pvm.ref import ofwire

ID = "C01"
LEVEL = "exploration"
RULE = ("a case is (kind, generator seed): one libopenflow_01/nicira object "
        "built from boundary-biased random field values (0,1,max,sign bit, "
        "max-1,random; strings empty/full/full-1; lists 0..many); every "
        "message/action/stats/queue class is swept; non-trivial = object "
        "packs to >8 bytes or has a variable part; distinct = distinct "
        "(kind, packed bytes)")
ASSUMPTIONS = ["pvm/ref/ofwire.py states the OpenFlow 1.0.0 layouts correctly",
               "a match embedded in a flow_mod is compared modulo the "
               "wildcard bits of fields whose prerequisites are unmet",
               "Nicira body layouts are checked for round trip and framing "
               "(header, length multiple of 8, NXM header), not field by "
               "field against an independent specification"]
REQUIRED = ["objects", "shards_run_with_assertions_stripped", "layout_compared", "roundtrips", "table_dispatch",
            "action_lists", "stats_bodies", "nicira_objects",
            "nx_layouts_checked", "earlier_objects_rechecked",
            "objects_reused_with_new_payload",
            "structured_bodies_changed_and_reencoded",
            "objects_compared_before_and_after_encoding",
            "nx_action_bodies_compared", "nx_message_bodies_compared",
            "nxm_numbers_compared", "decoded_as_last_message_in_buffer",
            "stats_of_unknown_types", "stats_replies_with_empty_lists",
            "cases_with_the_library_logger_installed",
            "decoded_after_a_failed_decode", "encoded_after_a_failed_encode"]
TIMEOUT = {"quick": 900, "thorough": 7200}

# wildcard bit constants (OpenFlow 1.0 spec)
FW_NW_SRC_MASK = 0x3f << 8
FW_NW_DST_MASK = 0x3f << 14
FW_TP = (1 << 6) | (1 << 7)
FW_NW_PROTO = 1 << 5
FW_NW_TOS = 1 << 21
FW_DL_TYPE = 1 << 4


def ignorable_wildcards (mf):
  """Wildcard bits of fields whose protocol prerequisites the match itself
  does not establish (the spec says such fields are ignored)."""
  wc = mf["wildcards"]
  dl_type = None if wc & FW_DL_TYPE else mf["dl_type"]
  if dl_type == 0x0800:
    proto = None if wc & FW_NW_PROTO else mf["nw_proto"]
    if proto in (1, 6, 17): return 0
    return FW_TP
  if dl_type == 0x0806:
    return FW_NW_TOS | FW_TP
  return FW_NW_TOS | FW_NW_PROTO | FW_NW_SRC_MASK | FW_NW_DST_MASK | FW_TP


class Ctx (object):
  def __init__ (self, rep, case):
    self.rep = rep; self.case = case
  def fire (self, cls, what, detail):
    self.rep.violation("C01 %s %s" % (cls, what), detail, self.case)


def hexs (b):
  b = bytes(b)
  return b.hex() if len(b) <= 160 else b[:160].hex() + "...(%d bytes)" % len(b)


def first_diff (a, b):
  for i in range(min(len(a), len(b))):
    if a[i] != b[i]: return i
  return min(len(a), len(b))


def safe_pack (ctx, obj, cname):
  try:
    return obj.pack()
  except Exception as e:
    tb = traceback.extract_tb(e.__traceback__)
    ctx.fire(cname, "pack raises %s" % type(e).__name__,
             "%r at %s:%s" % (e, tb[-1].name, tb[-1].lineno))
    return None


def safe_len (ctx, obj, cname):
  try:
    return len(obj)
  except Exception as e:
    ctx.fire(cname, "len raises %s" % type(e).__name__, repr(e))
    return None


def _norm_asked (x, top=True):
  """Two things the encoder is allowed to fill in on the caller's object: a
  field left at None (derived from the body), and the max_len of an output
  action to a port other than the controller (meaningless there; the library
  sends and stores 0)."""
  if isinstance(x, dict):
    d = {k: _norm_asked(v, False) for k, v in x.items()}
    if d.get("type") == 0 and "max_len" in d and d.get("port") != 0xfffd:
      d["max_len"] = 0
    return d
  if isinstance(x, (list, tuple)):
    return [_norm_asked(v, False) for v in x]
  return x


def _same_asked (before, after):
  b = _norm_asked(before); a = _norm_asked(after)
  if isinstance(b, list) and len(b) == 2 and isinstance(b[1], dict):
    for k, v in list(b[1].items()):
      if v is None: a[1][k] = None
  elif isinstance(b, dict):
    for k, v in list(b.items()):
      if v is None and isinstance(a, dict): a[k] = None
  return a == b


# -- message ---------------------------------------------------------------

_earlier = {}


def check_message (ctx, m, rng):
  # (noted before anything reads the object: a packet_in built without
  #  total_len derives it from its data)
  had_explicit_len = getattr(m, "_total_len", None) is not None
  import pox.openflow.libopenflow_01 as of
  from pox.openflow.util import make_type_to_unpacker_table
  cname = type(m).__name__
  # the caller's values, read before the encoder has touched the object
  try: asked = ofgen.message_fields(m)
  except Exception: asked = None
  b = safe_pack(ctx, m, cname)
  if b is None: return None
  ctx.rep.count("objects")
  if asked is not None:
    try:
      if not _same_asked(asked, ofgen.message_fields(m)):
        now = ofgen.message_fields(m)
        diff = [k for k in asked[1] if asked[1].get(k) != now[1].get(k)]
        ctx.fire(cname, "encoding changed the object's own fields",
                 "fields %r: %r -> %r" % (diff, {k: asked[1][k] for k in diff[:3]},
                                          {k: now[1].get(k) for k in diff[:3]}))
      ctx.rep.count("objects_compared_before_and_after_encoding")
    except Exception:
      pass
  n = safe_len(ctx, m, cname)
  if n is not None and n != len(b):
    ctx.fire(cname, "len(obj) != len(pack())", "%d vs %d" % (n, len(b)))
  if len(b) < 8:
    ctx.fire(cname, "packed shorter than a header", hexs(b)); return b
  if struct.unpack_from("!H", b, 2)[0] != len(b):
    ctx.fire(cname, "header length field != byte count",
             "field %d, bytes %d" % (struct.unpack_from("!H", b, 2)[0], len(b)))
  # layout oracle
  try:
    name, f = ofgen.message_fields(m)
    exp = ofwire.enc_message(name, f)
    if name == "flow_mod":
      ign = ignorable_wildcards(f["match"])
      got_wc = struct.unpack_from("!L", b, 8)[0]
      if (got_wc ^ f["match"]["wildcards"]) & ~ign == 0:
        f["match"]["wildcards"] = got_wc
        exp = ofwire.enc_message(name, f)
    ctx.rep.count("layout_compared")
    if exp != b:
      i = first_diff(exp, b)
      ctx.fire(cname, "layout differs from OpenFlow 1.0",
               "first difference at byte %d: got %s, spec %s" %
               (i, hexs(b[max(0, i - 4):i + 12]), hexs(exp[max(0, i - 4):i + 12])))
  except Exception as e:
    ctx.fire(cname, "reference encoder could not encode fields (%s)" %
             type(e).__name__, traceback.format_exc()[-400:])
  # decode with prefix and two different suffixes
  pre = ofgen.rbytes(rng, rng.choice([0, 0, 1, 5, 8]))
  fields = None
  for suffix in (b"", ofgen.rbytes(rng, rng.choice([1, 4, 8, 40])),
                 b"\x01\x0e\x00\x48" + b"\xff" * 12):
    raw = pre + b + suffix
    try:
      off, o2 = type(m).unpack_new(raw, len(pre))
    except Exception as e:
      tb = traceback.extract_tb(e.__traceback__)
      ctx.fire(cname, "unpack raises %s" % type(e).__name__,
               "%r at %s:%s (suffix %d bytes)" %
               (e, tb[-1].name, tb[-1].lineno, len(suffix)))
      return b
    if off != len(pre) + len(b):
      ctx.fire(cname, "decode consumed wrong number of bytes",
               "consumed %d, message is %d" % (off - len(pre), len(b)))
    try:
      if not (o2 == m) or (o2 != m):
        ctx.fire(cname, "decoded object not equal to original", hexs(b))
    except Exception as e:
      ctx.fire(cname, "__eq__ raises %s" % type(e).__name__, repr(e))
    try:
      f2 = ofgen.message_fields(o2)
      f1 = ofgen.message_fields(m)
      if f2 != f1:
        diff = [k for k in f1[1] if f1[1].get(k) != f2[1].get(k)]
        ctx.fire(cname, "decoded fields differ", "fields %r: %r vs %r" %
                 (diff, {k: f1[1][k] for k in diff[:3]},
                  {k: f2[1].get(k) for k in diff[:3]}))
      if fields is not None and f2 != fields:
        ctx.fire(cname, "decoded value depends on following bytes", hexs(b))
      fields = f2
    except Exception as e:
      ctx.fire(cname, "decoded object unreadable (%s)" % type(e).__name__,
               traceback.format_exc()[-300:])
    b2 = safe_pack(ctx, o2, cname)
    if b2 is not None and b2 != b:
      i = first_diff(b2, b)
      ctx.fire(cname, "re-encoding differs", "at byte %d: %s vs %s" %
               (i, hexs(b2[max(0, i - 4):i + 12]), hexs(b[max(0, i - 4):i + 12])))
  ctx.rep.count("roundtrips")
  from pvm.checks import c01_nx
  c01_nx.table_decode(ctx, cname, m, b, rng)
  c01_nx.after_a_failure(ctx, cname, m, b, rng)
  # objects decoded earlier are still what they were (no state shared between
  # instances of a message class, e.g. through a class-level list)
  old = _earlier.get(cname)
  if old is not None:
    ob, oo = old
    ctx.rep.count("earlier_objects_rechecked")
    b3 = safe_pack(ctx, oo, cname)
    if b3 is not None and b3 != ob:
      i = first_diff(b3, ob)
      ctx.fire(cname, "an object decoded earlier changed when another one was decoded",
               "at byte %d: %s vs %s" % (i, hexs(b3[max(0, i - 4):i + 12]),
                                         hexs(ob[max(0, i - 4):i + 12])))
  if b2 is not None: _earlier[cname] = (b, o2)
  # the same object used again with another payload: what it encodes must
  # follow its fields as they are now (nothing derived from the old payload
  # may linger)
  try:
    attr = "data" if isinstance(getattr(m, "data", None), bytes) else \
        "body" if isinstance(getattr(m, "body", None), bytes) else None
    explicit_len = had_explicit_len
    if attr is not None and not explicit_len and len(b) < 60000 \
       and len(getattr(m, attr)) > 0:
      old_payload = getattr(m, attr)
      if getattr(m, "_pvm_over", None): m._pvm_over.pop(attr, None)
      for new_payload in (old_payload + b"\x5a" * 5, old_payload[:len(old_payload) // 2]):
        setattr(m, attr, new_payload)
        ctx.rep.count("objects_reused_with_new_payload")
        b4 = safe_pack(ctx, m, cname + " (payload replaced)")
        if b4 is None: break
        name, fields = ofgen.message_fields(m)
        exp = ofwire.enc_message(name, fields)
        if b4 != exp:
          i = first_diff(b4, exp)
          ctx.fire(cname, "object reused with another payload encodes stale values",
                   "at byte %d: got %s, spec %s" %
                   (i, hexs(b4[max(0, i - 4):i + 12]), hexs(exp[max(0, i - 4):i + 12])))
          break
      setattr(m, attr, old_payload)
  except Exception as e:
    ctx.fire(cname, "object reuse check failed (%s)" % type(e).__name__,
             traceback.format_exc()[-300:])
  # dispatch through the table both connection classes use
  try:
    table = make_type_to_unpacker_table()
    t = b[1]
    off, o3 = table[t](b + b"\x01", 0)
    ctx.rep.count("table_dispatch")
    if off != len(b) or type(o3) is not type(m) or not (o3 == m):
      ctx.fire(cname, "type->unpacker table decodes differently",
               "offset %d type %s" % (off, type(o3).__name__))
  except Exception as e:
    ctx.fire(cname, "type->unpacker table raises %s" % type(e).__name__,
             repr(e))
  reuse_structured(ctx, m, cname, b)
  return b


def _bump (obj):
  """Change one scalar field of a statistics body / list element in place."""
  for f in ("port_no", "table_id", "queue_id", "out_port", "priority", "tx_bytes",
            "byte_count", "max_entries"):
    v = getattr(obj, f, None)
    if isinstance(v, int):
      setattr(obj, f, (v + 1) & 0xff)
      return True
  return False


def reuse_structured (ctx, m, cname, b):
  """
  The same statistics message used again after its body object was replaced,
  after an entry was appended to its list, after a field of an entry was
  changed: every encoding must describe the object as it is at that moment
  (header length = byte count, specified layout).
  """
  import pox.openflow.libopenflow_01 as of
  if not isinstance(m, (of.ofp_stats_request, of.ofp_stats_reply)): return
  if len(b) > 30000: return
  body = m.body
  steps = []
  try:
    if isinstance(body, (list, tuple)) and len(body) and hasattr(body[0], "pack"):
      def append ():
        e = _clone(body[0])
        _bump(e); m.body.append(e)
      def change (): _bump(m.body[0])
      def drop (): del m.body[-1]
      if isinstance(body, list): steps = [("an entry appended", append), ("an entry changed", change),
                                          ("an entry removed", drop)]
    elif hasattr(body, "pack") and not isinstance(body, bytes):
      def replace ():
        e = _clone(body)
        if not _bump(e): raise _Skip()
        m.body = e
      steps = [("the body object replaced", replace)]
  except Exception:
    return
  for what, fn in steps:
    try:
      fn()
    except _Skip:
      continue
    except Exception:
      # (cloning an entry is the harness's business; what it cannot clone it
      #  does not judge)
      return
    ctx.rep.count("structured_bodies_changed_and_reencoded")
    b5 = safe_pack(ctx, m, cname + " (%s)" % what)
    if b5 is None: return
    if len(b5) >= 8 and struct.unpack_from("!H", b5, 2)[0] != len(b5):
      ctx.fire(cname, "header length field != byte count after %s" % what,
               "field %d, bytes %d" % (struct.unpack_from("!H", b5, 2)[0], len(b5)))
      return
    try:
      name, fields = ofgen.message_fields(m)
      exp = ofwire.enc_message(name, fields)
    except Exception:
      return
    if b5 != exp:
      i = first_diff(b5, exp)
      ctx.fire(cname, "object reused after %s encodes stale values" % what,
               "at byte %d: got %s, spec %s" %
               (i, hexs(b5[max(0, i - 4):i + 12]), hexs(exp[max(0, i - 4):i + 12])))
      return


class _Skip (Exception): pass


def _clone (x):
  e = type(x)()
  raw = x.pack()
  if _takes_avail(e): e.unpack(raw, 0, len(raw))
  else: e.unpack(raw, 0)
  return e


def _takes_avail (e):
  import inspect
  try: return len(inspect.signature(e.unpack).parameters) >= 3
  except Exception: return False


# -- plain structures --------------------------------------------------------

def check_struct (ctx, obj, enc, fields_of, rng, unpack_kind="plain",
                  expect=None):
  """
  obj: libopenflow structure; enc(fields)->bytes reference encoder or None;
  unpack_kind: 'plain' (o.unpack(raw, off) -> off), 'action' (unpack_new),
  'stats' (o.unpack(raw, off, avail) -> off)
  """
  cname = type(obj).__name__
  try: asked = fields_of(obj) if enc is not None else None
  except Exception: asked = None
  b = safe_pack(ctx, obj, cname)
  if b is None: return None
  ctx.rep.count("objects")
  if asked is not None:
    try:
      if not _same_asked(asked, fields_of(obj)):
        ctx.fire(cname, "encoding changed the object's own fields",
                 "%r -> %r" % (asked, fields_of(obj)))
    except Exception:
      pass
  n = safe_len(ctx, obj, cname)
  if n is not None and n != len(b):
    ctx.fire(cname, "len(obj) != len(pack())", "%d vs %d" % (n, len(b)))
  if enc is not None:
    try:
      f = fields_of(obj)
      exp = enc(f)
      ctx.rep.count("layout_compared")
      if exp != b:
        i = first_diff(exp, b)
        ctx.fire(cname, "layout differs from OpenFlow 1.0",
                 "first difference at byte %d: got %s, spec %s" %
                 (i, hexs(b[max(0, i - 4):i + 12]),
                  hexs(exp[max(0, i - 4):i + 12])))
    except Exception as e:
      ctx.fire(cname, "reference encoder could not encode fields (%s)" %
               type(e).__name__, traceback.format_exc()[-400:])
  pre = ofgen.rbytes(rng, rng.choice([0, 0, 3, 8]))
  seen = None
  for suffix in (b"", ofgen.rbytes(rng, rng.choice([1, 8, 16]))):
    raw = pre + b + suffix
    try:
      if unpack_kind == "action":
        off, o2 = type(obj).unpack_new(raw, len(pre))
      elif unpack_kind == "stats":
        o2 = type(obj)()
        off = o2.unpack(pre + b, len(pre), len(b))
      else:
        o2 = type(obj)()
        off = o2.unpack(raw, len(pre))
    except Exception as e:
      tb = traceback.extract_tb(e.__traceback__)
      ctx.fire(cname, "unpack raises %s" % type(e).__name__,
               "%r at %s:%s" % (e, tb[-1].name, tb[-1].lineno))
      return b
    if off != len(pre) + len(b):
      ctx.fire(cname, "decode consumed wrong number of bytes",
               "consumed %d, structure is %d" % (off - len(pre), len(b)))
    try:
      if not (o2 == obj) or (o2 != obj):
        ctx.fire(cname, "decoded object not equal to original", hexs(b))
    except Exception as e:
      ctx.fire(cname, "__eq__ raises %s" % type(e).__name__, repr(e))
    if fields_of is not None:
      try:
        f1 = fields_of(obj); f2 = fields_of(o2)
        if f1 != f2:
          ctx.fire(cname, "decoded fields differ", "%r vs %r" % (f1, f2))
        if seen is not None and f2 != seen:
          ctx.fire(cname, "decoded value depends on following bytes", hexs(b))
        seen = f2
      except Exception as e:
        ctx.fire(cname, "decoded object unreadable (%s)" % type(e).__name__,
                 traceback.format_exc()[-300:])
    b2 = safe_pack(ctx, o2, cname)
    if b2 is not None and b2 != b:
      ctx.fire(cname, "re-encoding differs", "%s vs %s" % (hexs(b2), hexs(b)))
  ctx.rep.count("roundtrips")
  return b


def check_action_list (ctx, acts, rng):
  import pox.openflow.libopenflow_01 as of
  bs = []
  for a in acts:
    b = safe_pack(ctx, a, type(a).__name__)
    if b is None: return
    bs.append(b)
  blob = b"".join(bs)
  pre = ofgen.rbytes(rng, rng.choice([0, 4]))
  raw = pre + blob + ofgen.rbytes(rng, rng.choice([0, 8]))
  try:
    off, out = of._unpack_actions(raw, len(blob), len(pre))
  except Exception as e:
    tb = traceback.extract_tb(e.__traceback__)
    ctx.fire("_unpack_actions", "raises %s" % type(e).__name__,
             "%r at %s:%s kinds=%r" % (e, tb[-1].name, tb[-1].lineno,
                                       [type(a).__name__ for a in acts]))
    return
  ctx.rep.count("action_lists")
  if off != len(pre) + len(blob):
    ctx.fire("_unpack_actions", "consumed wrong number of bytes",
             "%d vs %d" % (off - len(pre), len(blob)))
  if len(out) != len(acts):
    ctx.fire("_unpack_actions", "wrong number of actions",
             "%d vs %d" % (len(out), len(acts)))
    return
  for a, o2, b in zip(acts, out, bs):
    if type(o2) is not type(a) and not (
        type(a).__name__ in ("ofp_action_generic",)):
      ctx.fire("_unpack_actions", "decoded to other class",
               "%s -> %s" % (type(a).__name__, type(o2).__name__))
    b2 = safe_pack(ctx, o2, type(o2).__name__)
    if b2 is not None and b2 != b:
      ctx.fire("_unpack_actions", "element re-encodes differently",
               "%s: %s vs %s" % (type(a).__name__, hexs(b2), hexs(b)))
    try:
      if ofgen.action_fields(o2) != ofgen.action_fields(a):
        ctx.fire("_unpack_actions", "element fields differ",
                 "%r vs %r" % (ofgen.action_fields(o2), ofgen.action_fields(a)))
    except Exception as e:
      ctx.fire("_unpack_actions", "element unreadable", repr(e))


def check_queue_props (ctx, props, rng):
  import pox.openflow.libopenflow_01 as of
  bs = []
  for p in props:
    b = safe_pack(ctx, p, type(p).__name__)
    if b is None: return
    bs.append(b)
  blob = b"".join(bs)
  pre = ofgen.rbytes(rng, rng.choice([0, 4]))
  try:
    off, out = of._unpack_queue_props(pre + blob + b"\0" * 8, len(blob), len(pre))
  except Exception as e:
    tb = traceback.extract_tb(e.__traceback__)
    ctx.fire("_unpack_queue_props", "raises %s" % type(e).__name__,
             "%r at %s:%s kinds=%r" % (e, tb[-1].name, tb[-1].lineno,
                                       [type(a).__name__ for a in props]))
    return
  if off != len(pre) + len(blob) or len(out) != len(props):
    ctx.fire("_unpack_queue_props", "consumed/produced wrong amount",
             "off %d n %d" % (off, len(out)))
    return
  for p, o2, b in zip(props, out, bs):
    b2 = safe_pack(ctx, o2, type(o2).__name__)
    if b2 is not None and b2 != b:
      ctx.fire("_unpack_queue_props", "element re-encodes differently",
               "%s vs %s" % (hexs(b2), hexs(b)))


def check_match_weak (ctx, m, rng):
  """pack(unpack(pack(m))) == pack(m), exact consumption."""
  import pox.openflow.libopenflow_01 as of
  for flow_mod in (False, True):
    try:
      b = m.pack(flow_mod=flow_mod)
    except Exception as e:
      ctx.fire("ofp_match", "pack raises %s (arbitrary match)" %
               type(e).__name__, repr(e)); return
    if len(b) != 40:
      ctx.fire("ofp_match", "packed length != 40", str(len(b)))
    m2 = of.ofp_match()
    try:
      off = m2.unpack(b"\xaa" + b + b"\xbb\xcc", 1, flow_mod=flow_mod)
    except Exception as e:
      ctx.fire("ofp_match", "unpack raises %s" % type(e).__name__, repr(e))
      return
    if off != 41:
      ctx.fire("ofp_match", "decode consumed wrong number of bytes", str(off))
    b2 = m2.pack(flow_mod=flow_mod)
    if flow_mod:
      # Inside a flow_mod the library deliberately rewrites the wildcard bits
      # of fields whose prerequisites the match does not meet (and does so
      # asymmetrically for dl_type 0x86dd); for prerequisite-violating
      # matches only framing is demanded there.  What must hold for every
      # other dl_type is that encoder and decoder agree: decoding what was
      # just decoded-and-encoded changes nothing any more.
      if getattr(m, "dl_type", None) == 0x86dd: continue
      try:
        m3 = of.ofp_match()
        m3.unpack(b2, 0, flow_mod=True)
        b3 = m3.pack(flow_mod=True)
      except Exception as e:
        ctx.fire("ofp_match", "second decode raises %s (flow_mod form)" %
                 type(e).__name__, repr(e)); continue
      ctx.rep.count("flow_mod_match_fixpoints")
      if b2 != b:
        # (the encoder has already normalised the inapplicable fields in b:
        #  decoding and encoding once more must leave it alone)
        i = first_diff(b, b2)
        ctx.fire("ofp_match", "encoder and decoder disagree (flow_mod form): "
                 "pack(unpack(pack(m))) != pack(m)",
                 "byte %d: %s vs %s" % (i, hexs(b), hexs(b2)))
      elif b3 != b2:
        i = first_diff(b2, b3)
        ctx.fire("ofp_match", "encoder and decoder disagree (flow_mod form): "
                 "pack(unpack(x)) != x for an x the library itself produced",
                 "byte %d: %s vs %s" % (i, hexs(b2), hexs(b3)))
      continue
    if b2 != b:
      i = first_diff(b, b2)
      ctx.fire("ofp_match", "pack(unpack(bytes)) != bytes (flow_mod=%s)" %
               flow_mod, "byte %d: %s vs %s" % (i, hexs(b), hexs(b2)))
  ctx.rep.count("objects"); ctx.rep.count("roundtrips")


# --------------------------------------------------------------------------

_QL = []
def _quiet_logger ():
  if not _QL:
    import logging
    l = logging.getLogger("pvm.libopenflow_01")
    l.propagate = False
    l.addHandler(logging.NullHandler())
    l.setLevel(logging.DEBUG)
    _QL.append(l)
  return _QL[0]


def do_case (case, rep):
  import pox.openflow.libopenflow_01 as of
  ctx = Ctx(rep, case)
  rng = random.Random(case["seed"])
  kind = case["kind"]
  packed = None
  nontrivial = True
  # a running controller gives the library a logger (of_01.launch does); the
  # codec has to encode and decode the same with and without one
  of._logger = _quiet_logger() if case.get("logger") else None
  if case.get("logger"): rep.count("cases_with_the_library_logger_installed")
  try:
    if kind.startswith("msg:"):
      m = ofgen.gen_message(rng, kind[4:])
      packed = check_message(ctx, m, rng)
      nontrivial = packed is not None and len(packed) > 8
    elif kind.startswith("stats_req:"):
      m = ofgen.gen_stats_request(rng, kind[10:])
      packed = check_message(ctx, m, rng)
      rep.count("stats_bodies")
      if not isinstance(m.body, (bytes,)):
        check_struct(ctx, m.body, None, lambda b: ofgen.stats_body_fields(b, False),
                     rng, "stats")
    elif kind.startswith("stats_rep:"):
      m = ofgen.gen_stats_reply(rng, kind[10:], n=case.get("n"))
      packed = check_message(ctx, m, rng)
      rep.count("stats_bodies")
      bodies = m.body if isinstance(m.body, list) else [m.body]
      if kind.endswith(":unknown"): rep.count("stats_of_unknown_types")
      if m.body == []: rep.count("stats_replies_with_empty_lists")
      for body in bodies[:2]:
        if isinstance(body, bytes): continue
        check_struct(ctx, body, None, lambda b: ofgen.stats_body_fields(b, True),
                     rng, "stats")
    elif kind == "match":
      m = ofgen.gen_match(rng, True)
      packed = check_struct(ctx, m, ofwire.enc_match, ofgen.match_fields, rng)
    elif kind == "match_any":
      m = ofgen.gen_match(rng, False)
      check_match_weak(ctx, m, rng)
      packed = m.pack()
    elif kind == "match_wire":
      raw = ofgen.rbytes(rng, 40)
      m = of.ofp_match()
      try:
        m.unpack(raw, 0)
        check_match_weak(ctx, m, rng)
      except Exception as e:
        ctx.fire("ofp_match", "unpack of arbitrary 40 bytes raises %s" %
                 type(e).__name__, repr(e))
      packed = raw
    elif kind.startswith("action:"):
      a = ofgen.gen_action(rng, kind[7:])
      packed = check_struct(ctx, a, ofwire.enc_action, ofgen.action_fields,
                            rng, "action")
      if packed is not None and len(packed) % 8:
        ctx.fire(type(a).__name__, "action length not a multiple of 8",
                 str(len(packed)))
    elif kind == "actions":
      acts = ofgen.gen_actions(rng, case.get("maxn", 8))
      check_action_list(ctx, acts, rng)
      packed = repr([type(a).__name__ for a in acts]).encode() + bytes(
        rng.getrandbits(8) for _ in range(4))
      nontrivial = len(acts) > 1
    elif kind == "maxactions":
      # action list up to the 64 KiB limit of the enclosing flow_mod
      budget = 65535 - 72
      acts = []
      used = 0
      while True:
        a = ofgen.gen_action(rng)
        if isinstance(a, of.ofp_action_generic): continue
        l = len(a)
        if used + l > budget: break
        acts.append(a); used += l
      m = of.ofp_flow_mod(xid=1, match=ofgen.gen_match(rng), actions=acts)
      packed = check_message(ctx, m, rng)
      rep.maxi("message_bytes", len(packed or b""))
    elif kind == "phy_port":
      p = ofgen.gen_phy_port(rng)
      packed = check_struct(ctx, p, ofwire.enc_phy_port, ofgen.phy_port_fields,
                            rng)
    elif kind == "queue":
      q = ofgen.gen_packet_queue(rng)
      packed = check_struct(ctx, q, ofwire.enc_queue, ofgen.packet_queue_fields,
                            rng)
      check_queue_props(ctx, q.properties, rng)
    elif kind.startswith("qprop:"):
      p = ofgen.gen_queue_prop(rng, kind[6:])
      packed = check_struct(ctx, p, ofwire.enc_queue_prop,
                            ofgen.queue_prop_fields, rng)
    elif kind.startswith("nx:"):
      from pvm.checks import c01_nx
      packed = c01_nx.do_nx(ctx, kind[3:], rng, case)
      rep.count("nicira_objects")
    else:
      raise KeyError(kind)
  except Exception:
    ctx.fire(kind, "harness-visible exception", traceback.format_exc()[-900:])
  rep.case(kind.encode() + b"|" + bytes(packed or b""), nontrivial=nontrivial)
  return packed


def kinds ():
  ks = ["msg:" + k for k in ofgen.MESSAGE_KINDS]
  ks += ["stats_req:" + k for k in ofgen.STATS_KINDS]
  ks += ["stats_rep:" + k for k in ofgen.STATS_KINDS]
  ks += ["match", "match", "match_any", "match_wire"]
  ks += ["action:" + k for k in ofgen.ACTION_KINDS]
  ks += ["actions", "actions", "phy_port", "queue"]
  ks += ["qprop:min_rate", "qprop:none", "qprop:generic"]
  return ks


def plan (tier, seed):
  from pvm.checks import c01_nx
  if tier == "quick":
    sp = [dict(mode="of", per=180, sub=i) for i in range(10)]
    sp += [dict(mode="nx", per=60, sub=i) for i in range(4)]
    sp += [dict(mode="max", n=4, sub=0)]
    return sp
  sp = [dict(mode="of", per=5000, sub=i) for i in range(48)]
  sp += [dict(mode="nx", per=4000, sub=i) for i in range(24)]
  sp += [dict(mode="max", n=25, sub=i) for i in range(8)]
  return sp


def run (spec, rep):
  from pvm.checks import c01_nx
  base = "c01/%d/%s/%d" % (spec["seed"], spec["mode"], spec["sub"])
  if spec["mode"] == "max":
    for i in range(spec["n"]):
      case = dict(kind="maxactions", seed="%s/%d" % (base, i))
      do_case(case, rep)
    return
  ks = kinds() if spec["mode"] == "of" else ["nx:" + k for k in c01_nx.kinds()]
  first = True
  for k in ks:
    for i in range(spec["per"]):
      case = dict(kind=k, seed="%s/%s/%d" % (base, k, i))
      if spec["sub"] % 3 == 1: case["logger"] = True
      p = do_case(case, rep)
      if first and p is not None and k.startswith("msg:flow_mod"):
        rep.sample(dict(case=case, packed=bytes(p)[:96])); first = False
  rep.extra["kinds_swept"] = len(ks)


def replay (witness, rep):
  do_case(witness, rep)
