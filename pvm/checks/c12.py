"""
C12 - the datapath applies actions and port rules as the specification
prescribes.

Frames (raw bytes), action lists and port configurations (set by port_mod
bytes) go into a real SoftwareSwitch both as packet_out and as flow-entry
hits; every frame it emits is serialised at emission time and compared
byte-for-byte with pvm.ref.ofactions applied to the raw frame; checksums are
re-verified independently; port counters are read back over the wire.
"""
import random
import struct
import traceback

from pvm import simnet
from pvm.gen import framegen
from pvm.ref import ofwire, ofmatch as OM, ofactions as OA, frames as F

ID = "C12"
LEVEL = "exploration"
RULE = ("a case is (frame, in_port, action list of length 0..6 over the 12 "
        "standard action types and the virtual ports, per-port config bits "
        "from {PORT_DOWN, NO_RECV, NO_RECV_STP, NO_FLOOD, NO_FWD, "
        "NO_PACKET_IN}, delivery as packet_out or as flow-entry hit); all "
        "action lists of length <= 2 over a reduced argument set are "
        "enumerated in the thorough tier, the rest is drawn from VERIF_SEED; "
        "non-trivial = at least one frame expected on the data plane after "
        "at least one rewrite, or a port rule suppressed an output; distinct "
        "= distinct case")
ASSUMPTIONS = ["pvm/ref/ofactions.py states the 1.0 action semantics",
               "only frames the library itself re-serialises unchanged are "
               "used (others are counted as non_canonical and left to "
               "C14/C15)",
               "order of emission over the ports of one FLOOD/ALL is free; "
               "a UDP checksum of 0 may stay 0 or be computed after a "
               "rewrite; rx counters may or may not count OFPP_TABLE "
               "re-injection"]
REQUIRED = ["frames_of_a_source_port_sweep", "cases", "emitted_frames_compared", "rewrites_checked",
            "checksums_verified", "flood_all_cases", "suppressed_by_port_rule",
            "ingress_dropped", "counters_compared", "controller_outputs",
            "flow_hits", "packet_outs",
            "frames_with_ports_only_inside_their_payload", "table_misses",
            "released_through_a_buffer_id", "released_by_a_flow_mod",
            "udp_checksums_that_come_out_as_zero_after_a_rewrite",
            "ports_plugged_in_while_running",
            "ports_plugged_in_administratively_down",
            "frames_handed_over_as_objects_assembled_from_fields"]
TIMEOUT = {"quick": 900, "thorough": 7200}

NPORTS = 5
EXTRA_PORT = 0xfeff   # (comes and goes while the switch runs; the highest
                      #  number a physical port can have)
DPID = 12
CFG_BITS = [OA.PC_PORT_DOWN, OA.PC_NO_RECV, OA.PC_NO_RECV_STP, OA.PC_NO_FLOOD,
            OA.PC_NO_FWD, OA.PC_NO_PACKET_IN]
MASK = 0x7f & ~OA.PC_NO_STP

ALLM = dict(wildcards=OM.FW_ALL, in_port=0, dl_src=b"\0" * 6, dl_dst=b"\0" * 6,
            dl_vlan=0, dl_vlan_pcp=0, dl_type=0, nw_tos=0, nw_proto=0,
            nw_src=0, nw_dst=0, tp_src=0, tp_dst=0)


def hw (p):
  return bytes.fromhex("02%06x%04x" % (DPID % 0x00ffff, p % 0xffff))


class Rig (object):
  def __init__ (self, buffers=0):
    self.sw = simnet.DirectSwitch(dpid=DPID, ports=NPORTS, max_buffers=buffers,
                                  miss_send_len=0xffff)
    self.buffers = buffers
    self.cfg = {p: 0 for p in range(1, NPORTS + 1)}
    self.tx = {p: [0, 0] for p in self.cfg}
    self.rx_lo = {p: [0, 0] for p in self.cfg}
    self.rx_hi = {p: [0, 0] for p in self.cfg}
    self.xid = 10

  def nx (self):
    self.xid += 1
    return self.xid

  def set_config (self, cfg):
    blob = b""
    for p, c in cfg.items():
      if self.cfg[p] != c:
        # only the bits selected by the mask may change: the mask names just
        # the bits that differ, and every second message carries ones in the
        # config bits the mask does NOT select (they must be ignored)
        self.nmods = getattr(self, "nmods", 0) + 1
        mask = (self.cfg[p] ^ c) & MASK
        config = c & mask
        if self.nmods % 2: config |= MASK & ~mask
        blob += ofwire.enc_message("port_mod", dict(
          xid=self.nx(), port_no=p, hw_addr=hw(p), config=config, mask=mask,
          advertise=0))
        self.cfg[p] = c
    if blob:
      self.sw.feed(blob)
      out = self.sw.take_bytes()
      for m in ofwire.dec_stream(out):
        if m["name"] not in ("port_status",):
          raise RuntimeError("port_mod answered with %s" % m["name"])

  def clear_flows (self):
    self.sw.feed(ofwire.enc_message("flow_mod", dict(
      xid=self.nx(), match=ALLM, cookie=0, command=3, idle_timeout=0,
      hard_timeout=0, priority=0, buffer_id=0xffffffff, out_port=0xffff,
      flags=0, actions=[])))
    self.sw.take_bytes()


_rig = {}


def canonical (raw):
  """
  Frames that the packet library is known to re-serialise differently even
  when the switch touches nothing are left to C14/C15.  The decision is made
  on the bytes by the reference parser, never by asking the library under
  test (a library that stops reproducing some class of valid frames must
  show up here as a wrong emission, not disappear as "non canonical").
  The classes: UDP sent without checksum, ICMP errors that quote a datagram,
  IPv6.
  """
  d = F.parse(raw)
  if d.get("l3type") == 0x86dd: return False
  ipd = d.get("ip")
  if ipd is not None:
    if "udp" in d and d["udp"]["csum"] == 0: return False
    if "udp" in d and 4789 in (d["udp"]["sport"], d["udp"]["dport"]):
      # what the library takes for a VXLAN header: it keeps the I flag and
      # the network identifier and nothing else of those eight octets, so
      # only headers with everything else zero come out as they went in
      h = raw[ipd["l4_off"] + 8:ipd["l4_off"] + 16]
      if len(h) == 8 and (h[0] & ~0x08 or h[1:4] != b"\0\0\0" or h[7]
                          or (not h[0] & 0x08 and h[4:7] != b"\0\0\0")):
        return False
      if len(h) == 8:
        # ... and behind it is an Ethernet frame of its own, with the same
        # question asked again
        inner = raw[ipd["l4_off"] + 16:ipd["end"]]
        if len(inner) >= 14 and not canonical(inner): return False
    if "icmp" in d and d["icmp"]["type"] in (3, 11):
      # ... unless the quote is a complete, valid datagram: that one the
      # library has no reason to alter
      return _complete_quote(raw[ipd["l4_off"] + 8:ipd["end"]])
  return True


def strip_trailer (frame):
  """The frame without what follows its own payload, for the payloads that
  say where they end: an IPv4 datagram (total length), an LLDPDU (end TLV),
  an 802.3 frame (length field)."""
  try:
    off = 12
    while frame[off:off + 2] == b"\x81\x00": off += 4
    t = struct.unpack_from("!H", frame, off)[0]
    off += 2
    if t < 0x600:
      return frame[:off + t] if off + t < len(frame) else frame
    if t == 0x88cc:
      p = off
      while p + 2 <= len(frame):
        h = struct.unpack_from("!H", frame, p)[0]
        p += 2 + (h & 0x1ff)
        if h >> 9 == 0: break
      return frame[:p] if p < len(frame) else frame
    d = F.parse(frame)
    ipd = d.get("ip")
    if ipd is not None and d.get("l3type") == 0x0800 and 0 < ipd["end"] < len(frame):
      return frame[:ipd["end"]]
  except Exception:
    pass
  return frame


def _complete_quote (q):
  from pvm.ref import inet
  if len(q) < 28 or q[0] != 0x45: return False
  tl = struct.unpack("!H", q[2:4])[0]
  if tl != len(q) or inet.csum(q[:20]) != 0: return False
  if struct.unpack("!H", q[6:8])[0] & 0x3fff: return False
  proto = q[9]
  if proto == 17:
    if struct.unpack("!H", q[24:26])[0] != tl - 20: return False
    if q[26:28] == b"\0\0": return False
  elif proto == 6:
    if tl < 40 or (q[32] >> 4) != 5: return False
  else:
    return False
  seg = q[20:]
  return inet.l4_csum4(q[12:16], q[16:20], proto,
                       seg[:6 if proto == 17 else 16] + b"\0\0" +
                       seg[8 if proto == 17 else 18:]) == \
      struct.unpack("!H", seg[6:8] if proto == 17 else seg[16:18])[0]


def expected_for (raw, actions, in_port, cfg, via, table_flow, stay):
  """
  Returns (outs [(port, bytes)], packet_ins [(reason, in_port, data)],
  rewrites_used bool, suppressed bool, table_reinjections int)
  """
  outs = []; pins = []; suppressed = False; reinj = 0
  steps = OA.run(raw, actions, stay)
  rew = any(a["type"] not in (0, 11) for a in actions)
  for spec, frame, max_len in steps:
    e = OA.expand(spec, in_port, cfg)
    if e == "controller":
      pins.append((1, in_port, frame, max_len))
    elif e == "table":
      if via != "packet_out": continue
      if in_port not in cfg: continue
      if not OA.accepts(cfg[in_port], frame): continue
      reinj += 1
      if table_flow is not None:
        for spec2, frame2, ml2 in OA.run(frame, table_flow, stay):
          e2 = OA.expand(spec2, in_port, cfg)
          if isinstance(e2, list):
            outs += [(p, frame2) for p in e2]
      else:
        if not cfg[in_port] & OA.PC_NO_PACKET_IN:
          pins.append((0, in_port, frame, 0xffff))
    elif e == "none":
      pass
    else:
      if spec >= OA.OFPP_MAX or True:
        full = OA.expand(spec, in_port, {p: 0 for p in cfg})
        if isinstance(full, list) and len(full) != len(e): suppressed = True
      outs += [(p, frame) for p in e]
  return outs, pins, rew, suppressed, reinj


BUFFERED = ("buffered_miss", "buffered_action")


def assembled (raw):
  """The frame as a packet object put together from header fields (what a
  host model or a component builds before it hands a frame to the switch)
  rather than parsed from bytes; None where that does not give the same
  octets back."""
  import pox.lib.packet as pkt
  src = pkt.ethernet(raw)
  def build (x):
    if x is None or isinstance(x, (bytes, bytearray)): return x
    y = type(x)()
    for k, v in vars(x).items():
      if k in ("prev", "next", "parsed", "raw"): continue
      try: setattr(y, k, v)
      except Exception: return None
    nxt = build(x.next)
    if x.next is not None and nxt is None: return None
    y.next = nxt
    if not isinstance(nxt, (bytes, bytearray)) and nxt is not None: nxt.prev = y
    return y
  try:
    p = build(src)
    if p is None or p.pack() != raw: return None
    # (packing fills in lengths and checksums; what is handed over is the
    #  object as its maker left it, so build it once more)
    return build(src)
  except Exception:
    return None

def run_case (case, rep):
  # (a switch with packet buffers for the deliveries that go through one)
  rk = "rb" if case["via"] in BUFFERED else "r"
  rig = _rig.get(rk)
  if rig is None:
    rig = Rig(64 if rk == "rb" else 0); _rig[rk] = rig
  def fire (key, what):
    _rig.pop(rk, None)        # model counters may be out of sync now
    rep.violation("C12 " + key, what, case)
  raw = case["frame"]; actions = case["actions"]; in_port = case["in_port"]
  via = case["via"]
  cfg = {int(k): v for k, v in case["cfg"].items()}
  # a port plugged in (or pulled out again) while the switch is running: it
  # takes part in FLOOD and ALL from the next frame on
  try:
    if case.get("plug") in ("add", "add_down") and EXTRA_PORT not in rig.cfg:
      phy = rig.sw.switch.generate_port(EXTRA_PORT, name="top")
      if case["plug"] == "add_down":
        # the port starts out administratively down (its description says so;
        # the link itself is fine) and is enabled by the port_mod that this
        # case's configuration calls for
        phy.config |= OA.PC_PORT_DOWN
        rep.count("ports_plugged_in_administratively_down")
      rig.sw.switch.add_port(phy)
      rig.sw.take_bytes()
      rig.cfg[EXTRA_PORT] = phy.config
      for d_ in (rig.tx, rig.rx_lo, rig.rx_hi): d_[EXTRA_PORT] = [0, 0]
      rep.count("ports_plugged_in_while_running")
    elif case.get("plug") == "del" and EXTRA_PORT in rig.cfg:
      rig.sw.switch.delete_port(EXTRA_PORT)
      rig.sw.take_bytes()
      for d_ in (rig.cfg, rig.tx, rig.rx_lo, rig.rx_hi): d_.pop(EXTRA_PORT, None)
  except Exception:
    fire("plugging a port raises", traceback.format_exc()[-500:]); return True
  if EXTRA_PORT in rig.cfg: cfg[EXTRA_PORT] = 0
  table_flow = case.get("table_flow")
  if not canonical(raw):
    rep.count("non_canonical_frames_skipped")
    return None
  rep.count("cases")
  if case.get("desc", {}).get("kind") in ("icmp_quote", "gre_ip"):
    rep.count("frames_with_ports_only_inside_their_payload")
  if case.get("desc", {}).get("kind") == "udp_zero_after":
    rep.count("udp_checksums_that_come_out_as_zero_after_a_rewrite")
  try:
    rig.set_config(cfg)
    rig.clear_flows()
    sw = rig.sw
    sw.take_out(); sw.take_bytes()
    if via == "packet_out":
      rep.count("packet_outs")
      blob = b""
      if table_flow is not None:
        blob += ofwire.enc_message("flow_mod", dict(
          xid=rig.nx(), match=ALLM, cookie=1, command=0, idle_timeout=0,
          hard_timeout=0, priority=5, buffer_id=0xffffffff, out_port=0xffff,
          flags=0, actions=table_flow))
      blob += ofwire.enc_message("packet_out", dict(
        xid=rig.nx(), buffer_id=0xffffffff, in_port=in_port, actions=actions,
        data=raw))
      sw.feed(blob)
      accepted = True
    elif via in ("miss",) + BUFFERED:
      # the frame arrives first: nothing matches it (or an entry hands it to
      # the controller); with buffers it is then released through its buffer
      # id with the action list, as a controller does after a packet-in
      first_actions = [dict(type=0, port=OA.OFPP_CONTROLLER, max_len=0xffff)]
      if via == "buffered_action":
        sw.feed(ofwire.enc_message("flow_mod", dict(
          xid=rig.nx(), match=ALLM, cookie=1, command=0, idle_timeout=0,
          hard_timeout=0, priority=5, buffer_id=0xffffffff, out_port=0xffff,
          flags=0, actions=first_actions)))
        pre = sw.take_bytes()
        if pre:
          fire("flow_mod rejected", pre[:40].hex()); return True
      accepted = OA.accepts(cfg[in_port], raw)
      obj = assembled(raw) if case.get("inject_obj") == "assembled" else None
      if obj is not None:
        rep.count("frames_handed_over_as_objects_assembled_from_fields")
        sw.switch.rx_packet(obj, in_port)
      elif case.get("inject_obj"):
        # (the frame handed over as a parsed object only)
        import pox.lib.packet as pkt
        sw.switch.rx_packet(pkt.ethernet(raw), in_port)
      else:
        sw.inject(in_port, raw)
      if accepted:
        # (the recorded finding about padding shows in the byte counter too:
        #  between the frame without its padding and the frame as received)
        rig.rx_lo[in_port][0] += 1; rig.rx_lo[in_port][1] += len(strip_trailer(raw))
        rig.rx_hi[in_port][0] += 1; rig.rx_hi[in_port][1] += len(raw)
      else:
        rep.count("ingress_dropped")
      first = ofwire.dec_stream(sw.take_bytes())
      first_out = sw.take_out()
      announced = accepted and (via == "buffered_action" or
                                not cfg[in_port] & OA.PC_NO_PACKET_IN)
      want = [(1 if via == "buffered_action" else 0, in_port, raw, len(raw))] \
          if announced else []
      got = [(m["reason"], m["in_port"], m["data"], m["total_len"]) for m in first
             if m["name"] == "packet_in"]
      bare = strip_trailer(raw)
      # (only where the switch has nothing but the parsed packet to go by: a
      #  frame that misses the table and came with its bytes is announced
      #  with those bytes)
      if want and bare != raw and got == [(want[0][0], in_port, bare, len(bare))] \
         and len(first) == 1 and not first_out \
         and (via == "buffered_action" or case.get("inject_obj")):
        # (the recorded finding about padding, seen in the packet-in)
        rep.violation("C12 Ethernet padding behind the frame's own payload is not part of what is emitted",
                      "packet-in for a frame of %d octets carries %d (total_len %d)" %
                      (len(raw), len(bare), len(bare)), case)
        want = [(want[0][0], in_port, bare, len(bare))]
      if first_out or got != want or len(first) != len(got):
        fire("frame that %s: packet-in differs" %
             ("misses the table" if via != "buffered_action" else
              "an entry sends to the controller"),
             "observed %r (+%d frames on the data plane), expected %r" %
             ([(m["name"], m.get("reason"), m.get("in_port"), len(m.get("data", b"")))
               for m in first], len(first_out),
              [(r, p, len(d)) for r, p, d, t in want]))
        return True
      rep.count("table_misses" if via != "buffered_action" else "controller_outputs")
      if via == "miss" or not announced:
        accepted = False        # nothing else is to come
      else:
        bid = first[0]["buffer_id"]
        if bid == 0xffffffff:
          # every buffer is taken (earlier lists left frames with the
          # controller): start over with a fresh switch next time
          rep.count("no_buffer_left")
          _rig.pop(rk, None)
          return None
        rep.count("released_through_a_buffer_id")
        if case.get("release") == "flow_mod":
          rep.count("released_by_a_flow_mod")
          sw.feed(ofwire.enc_message("flow_mod", dict(
            xid=rig.nx(), match=dict(ALLM, wildcards=OM.FW_ALL & ~OM.FW_IN_PORT, in_port=77),
            cookie=2, command=0, idle_timeout=0,
            hard_timeout=0, priority=6, buffer_id=bid, out_port=0xffff,
            flags=0, actions=actions)))
        else:
          sw.feed(ofwire.enc_message("packet_out", dict(
            xid=rig.nx(), buffer_id=bid, in_port=in_port, actions=actions, data=b"")))
    else:
      sw.feed(ofwire.enc_message("flow_mod", dict(
        xid=rig.nx(), match=ALLM, cookie=1, command=0, idle_timeout=0,
        hard_timeout=0, priority=5, buffer_id=0xffffffff, out_port=0xffff,
        flags=0, actions=actions)))
      pre = sw.take_bytes()
      if pre:
        fire("flow_mod rejected", pre[:40].hex()); return True
      accepted = OA.accepts(cfg[in_port], raw)
      obj = assembled(raw) if case.get("inject_obj") == "assembled" else None
      if obj is not None:
        rep.count("frames_handed_over_as_objects_assembled_from_fields")
        sw.switch.rx_packet(obj, in_port)
      else:
        sw.inject(in_port, raw)
      if accepted:
        rep.count("flow_hits")
        # (the recorded finding about padding shows in the byte counter too:
        #  between the frame without its padding and the frame as received)
        rig.rx_lo[in_port][0] += 1; rig.rx_lo[in_port][1] += len(strip_trailer(raw))
        rig.rx_hi[in_port][0] += 1; rig.rx_hi[in_port][1] += len(raw)
      else:
        rep.count("ingress_dropped")
  except Exception:
    fire("processing raises [%s]" % kinds(actions), traceback.format_exc()[-700:])
    return True
  out = sw.take_out()
  ctl = sw.take_bytes()
  try:
    msgs = ofwire.dec_stream(ctl)
  except ofwire.WireError as e:
    fire("switch emitted undecodable bytes", repr(e)); return True
  def seen (m, want):
    """A packet-in as (reason, port, frame): with a buffer granted only the
    first max_len bytes travel, the total length tells the rest."""
    d = m["data"]
    for i_, (r, p, f, ml) in enumerate(want):
      for g in (f, strip_trailer(f)):
        if m["buffer_id"] != 0xffffffff and len(g) > ml and d == g[:ml] \
           and m["total_len"] == len(g) and (r, p) == (m["reason"], m["in_port"]):
          # (each expected packet-in accounts for one observed one: two that
          #  are cut to the same few octets are told apart by their order)
          del want[i_]
          return (r, p, g)
    return (m["reason"], m["in_port"], d)
  want_pins = []
  if accepted:
    try: want_pins = expected_for(raw, actions, in_port, cfg,
                                  "packet_out" if via in BUFFERED else via,
                                  table_flow, True)[1]
    except Exception: want_pins = []
  want_pins = list(want_pins)
  pins_obs = [seen(m, want_pins) for m in msgs if m["name"] == "packet_in"]
  other = [m for m in msgs if m["name"] != "packet_in"]
  if other:
    fire("unexpected %s message [%s]" %
         ("error(%d,%d)" % (other[0]["type"], other[0]["code"])
          if other[0]["name"] == "error" else other[0]["name"], kinds(actions)),
         "")
    return True
  ok = False
  last = None
  for stay in (True, False):
    if not accepted:
      e_out, e_pin, rew, supp, reinj = [], [], False, False, 0
    else:
      e_out, e_pin, rew, supp, reinj = expected_for(
        raw, actions, in_port, cfg, "packet_out" if via in BUFFERED else via,
        table_flow, stay)
      e_pin = [x[:3] for x in e_pin]
    last = (e_out, e_pin)
    if sorted(out) == sorted(e_out) and sorted(pins_obs) == sorted(e_pin):
      ok = True; break
    # the same, but with the octets behind the IPv4 datagram (Ethernet
    # padding of a short frame) missing from what comes out: a recorded
    # finding; everything else about these frames is still judged
    e_out2 = [(p_, strip_trailer(b_)) for p_, b_ in e_out]
    e_pin2 = [(r_, p_, strip_trailer(b_)) for r_, p_, b_ in e_pin]
    if (e_out2 != e_out or e_pin2 != e_pin) and sorted(out) == sorted(e_out2) \
       and sorted(pins_obs) in (sorted(e_pin), sorted(e_pin2)):
      rep.violation("C12 Ethernet padding behind the frame's own payload is not part of what is emitted",
                    "frame of %d octets (%d without its padding) comes out as %r octets" %
                    (len(raw), len(strip_trailer(raw)),
                     sorted(set(len(b_) for _, b_ in out))), case)
      ok = True; e_out = e_out2; last = (e_out, e_pin); break
  e_out, e_pin = last
  if not ok:
    if sorted(p for p, _ in out) != sorted(p for p, _ in e_out):
      fire("frames emitted on the wrong set of ports [%s]" % portkinds(actions),
           "observed ports %r expected %r (in_port %r cfg %r via %s)" %
           (sorted(p for p, _ in out), sorted(p for p, _ in e_out), in_port,
            cfg, via))
    elif sorted(out) != sorted(e_out):
      bad = None
      for (p, b), (p2, b2) in zip(sorted(out), sorted(e_out)):
        if b != b2: bad = (p, b, b2); break
      i = 0
      while i < min(len(bad[1]), len(bad[2])) and bad[1][i] == bad[2][i]: i += 1
      fire("emitted frame differs from actions applied in order [%s]" %
           kinds(actions),
           "port %d first difference at byte %d: got ...%s expected ...%s "
           "(lengths %d/%d)" % (bad[0], i, bad[1][max(0, i - 4):i + 12].hex(),
                                bad[2][max(0, i - 4):i + 12].hex(),
                                len(bad[1]), len(bad[2])))
    else:
      fire("packet-in to controller differs [%s]" % portkinds(actions),
           "observed %r expected %r" %
           ([(r, p, len(d)) for r, p, d in pins_obs],
            [(r, p, len(d)) for r, p, d in e_pin]))
    return True
  rep.count("emitted_frames_compared", len(out))
  if rew and out: rep.count("rewrites_checked")
  if supp: rep.count("suppressed_by_port_rule")
  if e_pin: rep.count("controller_outputs")
  if any(a["type"] == 0 and a["port"] in (OA.OFPP_FLOOD, OA.OFPP_ALL)
         for a in actions): rep.count("flood_all_cases")
  for p, b in out:
    probs = OA.checksums_valid(b)
    rep.count("checksums_verified")
    if probs:
      fire("emitted frame has invalid %s [%s]" % (probs[0], kinds(actions)),
           b.hex()[:200]); return True
    rig.tx[p][0] += 1; rig.tx[p][1] += len(b)
  if reinj and in_port in rig.rx_hi:
    rig.rx_hi[in_port][0] += reinj
    rig.rx_hi[in_port][1] += reinj * (len(raw) + 8)
  # --- counters over the wire
  if case.get("probe", True):
    sw.feed(ofwire.enc_message("stats_request", dict(
      xid=rig.nx(), type=4, flags=0, body=dict(port_no=0xffff))))
    ms = ofwire.dec_stream(sw.take_bytes())
    if len(ms) != 1 or ms[0]["name"] != "stats_reply":
      fire("port stats probe not answered", repr([m["name"] for m in ms]))
      return True
    rep.count("counters_compared")
    if sorted(e["port_no"] for e in ms[0]["body"]) != sorted(rig.tx):
      fire("port stats reply does not list every port exactly once",
           "ports %r, the switch has %r" %
           (sorted(e["port_no"] for e in ms[0]["body"]), sorted(rig.tx)))
      return True
    for e in ms[0]["body"]:
      p = e["port_no"]
      if (e["tx_packets"], e["tx_bytes"]) != tuple(rig.tx[p]):
        fire("tx counters differ from frames actually transmitted",
             "port %d: reported %r, emitted %r" %
             (p, (e["tx_packets"], e["tx_bytes"]), tuple(rig.tx[p])))
        return True
      if not (rig.rx_lo[p][0] <= e["rx_packets"] <= rig.rx_hi[p][0]
              and rig.rx_lo[p][1] <= e["rx_bytes"] <= rig.rx_hi[p][1]):
        fire("rx counters differ from frames actually received",
             "port %d: reported %r, accepted between %r and %r" %
             (p, (e["rx_packets"], e["rx_bytes"]), tuple(rig.rx_lo[p]),
              tuple(rig.rx_hi[p])))
        return True
  return bool((rew and out) or supp)


NAMES = {0: "output", 1: "vlan_vid", 2: "vlan_pcp", 3: "strip_vlan",
         4: "dl_src", 5: "dl_dst", 6: "nw_src", 7: "nw_dst", 8: "nw_tos",
         9: "tp_src", 10: "tp_dst", 11: "enqueue"}


def kinds (actions):
  return ",".join(sorted(set(NAMES.get(a["type"], "?") for a in actions
                             if a["type"] != 0))) or "output-only"


def portkinds (actions):
  s = set()
  for a in actions:
    if a["type"] in (0, 11):
      p = a["port"]
      s.add({OA.OFPP_IN_PORT: "IN_PORT", OA.OFPP_TABLE: "TABLE",
             OA.OFPP_FLOOD: "FLOOD", OA.OFPP_ALL: "ALL",
             OA.OFPP_CONTROLLER: "CONTROLLER", OA.OFPP_NORMAL: "NORMAL",
             OA.OFPP_LOCAL: "LOCAL", OA.OFPP_NONE: "NONE"}.get(p, "physical"))
  return ",".join(sorted(s)) or "no-output"


def gen_action (rng, allow_table):
  t = rng.choice([0, 0, 0, 1, 2, 3, 4, 5, 6, 7, 8, 9, 10, 11])
  if t == 0:
    ports = [1, 2, 3, 4, 5, 6, OA.OFPP_IN_PORT, OA.OFPP_FLOOD, OA.OFPP_ALL,
             OA.OFPP_CONTROLLER, OA.OFPP_NORMAL]
    if allow_table: ports.append(OA.OFPP_TABLE)
    p = rng.choice(ports)
    return dict(type=0, port=p,
                max_len=rng.choice([0, 64, 0xffff]) if p == OA.OFPP_CONTROLLER
                else 0)
  # (the wire fields are 16 and 8 bits wide; only 12 and 3 of them are the id
  #  and the priority - the rest must not leak into the tag)
  if t == 1: return dict(type=1, vlan_vid=rng.choice([0, 1, 100, 4095, 4095, 0x1001,
                                                      0x1fff, 0x8005, 0xffff]))
  if t == 2: return dict(type=2, vlan_pcp=rng.choice([0, 1, 7, 7, 8, 0x0f, 0xff]))
  if t == 3: return dict(type=3)
  if t in (4, 5):
    return dict(type=t, dl_addr=rng.choice([bytes.fromhex("0a0b0c0d0e0f"),
                                            b"\xff" * 6, b"\0\0\0\0\0\x01"]))
  if t in (6, 7):
    return dict(type=t, nw_addr=rng.choice([0x01020304, 0xffffffff, 0,
                                            0xc0a80001]))
  if t == 8: return dict(type=8, nw_tos=rng.choice([0, 4, 0xfc, 0x28]))
  if t in (9, 10): return dict(type=t, tp_port=rng.choice([0, 1, 80, 65535]))
  return dict(type=11, port=rng.choice([1, 2, 3]), queue_id=rng.choice([0, 5]))


def udp_zero_after (rng):
  """
  A UDP datagram and a rewrite after which its checksum computes to 0x0000
  (which has to go out as 0xffff: 0 means "no checksum").  The last payload
  word is solved for: with that word 0 the rewritten datagram's checksum is
  c, and a word of c makes the sum come out as all ones.
  """
  vlan = rng.choice([None, None, (3, 0, 100)])
  sip, dip = 0x0a000001 + rng.randrange(4), 0x0a000101 + rng.randrange(4)
  sp, dp = rng.choice([7, 4000, 65535]), rng.choice([9, 53, 6000])
  act = rng.choice([dict(type=9, tp_port=rng.choice([1, 80, 65535])),
                    dict(type=10, tp_port=rng.choice([0, 81, 65534])),
                    dict(type=6, nw_addr=rng.choice([0x01020304, 0xc0a80001])),
                    dict(type=7, nw_addr=rng.choice([0xffffffff, 0x0a0a0a0a]))])
  n = rng.choice([2, 4, 18, 100])
  pay = bytes(rng.getrandbits(8) for _ in range(n - 2)) + b"\0\0"
  def frame (p):
    return F.eth(framegen.MACS[1], framegen.MACS[0], 0x0800,
                 F.ipv4(sip, dip, 17, F.udp(sp, dp, p, src=sip, dst=dip), ttl=64), vlan)
  out = OA.run(frame(pay), [act, dict(type=0, port=1, max_len=0)], True)[0][1]
  off = 14 + (4 if vlan else 0) + 20 + 6
  c = struct.unpack_from("!H", out, off)[0]
  raw = frame(pay[:-2] + struct.pack("!H", c))
  return raw, act


def gen_case (rng):
  via = rng.choice(["packet_out", "flow", "flow", "packet_out", "flow", "flow",
                    "miss", "buffered_miss", "buffered_action"])
  kind = rng.choice(["tcp", "udp", "icmp", "arp_req", "other", "tcp_opts",
                     "ipother", "frag_later", "frag_first", "tcp", "udp",
                     "icmp_quote", "gre_ip", "llc", "snap0", "snapx", "snap_ip",
                     "qinq", "arp_rep", "lldp", "stag", "stag"])
  dst = None
  if rng.random() < 0.1: dst = OA.STP_MAC
  raw, desc = framegen.gen_frame(rng, kind, pad=rng.random() < 0.12, dst=dst,
                                 payload_len=rng.choice([0, 1, 2, 5, 18, 19,
                                                         100, 101]))
  if via != "packet_out":
    in_port = rng.choice([1, 2])
  else:
    in_port = rng.choice([1, 2, 2, 0xffff])
  cfg = {}
  for p in range(1, NPORTS + 1):
    c = 0
    if rng.random() < 0.4:
      for b in CFG_BITS:
        if rng.random() < 0.3: c |= b
    cfg[str(p)] = c
  allow_table = via == "packet_out"
  n = rng.choice([0, 1, 1, 2, 2, 3, 4, 6])
  actions = [gen_action(rng, allow_table) for _ in range(n)]
  if rng.random() < 0.7:
    actions.append(gen_action(rng, allow_table) if rng.random() < 0.3 else
                   dict(type=0, port=rng.choice([1, 2, 3, OA.OFPP_FLOOD,
                                                 OA.OFPP_ALL, EXTRA_PORT]), max_len=0))
  if via in ("flow", "packet_out") and rng.random() < 0.04:
    raw, act = udp_zero_after(rng)
    desc = dict(kind="udp_zero_after", tagged=False)
    actions = [act, dict(type=0, port=rng.choice([1, 2, 3]), max_len=0)]
  case = dict(frame=raw, in_port=in_port, actions=actions, cfg=cfg, via=via,
              desc=desc)
  r = rng.random()
  if r < 0.015: case["plug"] = "add"
  elif r < 0.03: case["plug"] = "add_down"
  elif r < 0.05: case["plug"] = "del"
  if via in ("miss",) + BUFFERED:
    if rng.random() < 0.3: case["inject_obj"] = rng.choice([True, "assembled"])
    if via in BUFFERED and rng.random() < 0.3: case["release"] = "flow_mod"
  if via == "flow" and rng.random() < 0.2: case["inject_obj"] = "assembled"
  if allow_table and rng.random() < 0.5:
    # (what the entry does to the frame it is handed is its own business: the
    #  rest of the packet_out's list goes on with the frame as it was)
    case["table_flow"] = rng.choice([
      [dict(type=5, dl_addr=b"\x0a" * 6), dict(type=0, port=3, max_len=0)],
      [dict(type=7, nw_addr=0x01020304), dict(type=10, tp_port=80),
       dict(type=0, port=3, max_len=0)],
      [dict(type=1, vlan_vid=100), dict(type=2, vlan_pcp=7), dict(type=8, nw_tos=0x28),
       dict(type=0, port=4, max_len=0)],
      [dict(type=6, nw_addr=0xc0a80001), dict(type=9, tp_port=1),
       dict(type=3), dict(type=0, port=3, max_len=0)]])
  return case


def gen_exhaustive (shard, nshards):
  """All action lists of length <= 2 over a reduced argument set."""
  A = [dict(type=0, port=p, max_len=0) for p in
       (2, OA.OFPP_IN_PORT, OA.OFPP_FLOOD, OA.OFPP_ALL)]
  A.append(dict(type=0, port=OA.OFPP_CONTROLLER, max_len=64))
  A += [dict(type=1, vlan_vid=7), dict(type=1, vlan_vid=0),
        dict(type=2, vlan_pcp=5), dict(type=2, vlan_pcp=0), dict(type=3),
        dict(type=4, dl_addr=b"\x0a" * 6), dict(type=5, dl_addr=b"\x0b" * 6),
        dict(type=6, nw_addr=0x01020304), dict(type=7, nw_addr=0x05060708),
        dict(type=8, nw_tos=0x28), dict(type=8, nw_tos=0),
        dict(type=9, tp_port=1), dict(type=10, tp_port=65535),
        dict(type=11, port=2, queue_id=1)]
  rng = random.Random(7)
  frames_ = []
  for kind, tagged in (("tcp", False), ("tcp", True), ("udp", False),
                       ("udp", True), ("icmp", False), ("arp_req", False),
                       ("other", True)):
    raw, desc = framegen.gen_frame(rng, kind, tagged=tagged, pad=False,
                                   payload_len=rng.choice([5, 18]))
    frames_.append((raw, desc))
  i = 0
  lists = [[a] for a in A] + [[a, b] for a in A for b in A]
  for acts in lists:
    tail = [] if acts[-1]["type"] in (0, 11) else \
        [dict(type=0, port=OA.OFPP_ALL, max_len=0)]
    for raw, desc in frames_:
      for via in ("packet_out", "flow"):
        i += 1
        if i % nshards != shard: continue
        yield dict(frame=raw, in_port=1, actions=acts + tail,
                   cfg={str(p): 0 for p in range(1, NPORTS + 1)}, via=via,
                   desc=desc, probe=(i % 7 == 0))


def gen_sweep (rng, n, start):
  """One TCP and one UDP conversation with the source port swept through n
  values, rewritten and sent on: the checksums the switch writes are right for
  every one of them (sums that carry twice when folded are a small fraction
  of all frames, and a sweep meets them)."""
  src = bytes.fromhex("020000000001"); dst = bytes.fromhex("020000000002")
  cfg = {str(p): 0 for p in range(1, NPORTS + 1)}
  for i in range(n):
    sp = (start + i) & 0xffff
    if i % 2:
      l4 = F.tcp(sp, 80, b"sweep" * 3, seq=1, src=0x0a000001, dst=0x0a000002)
      raw = F.eth(dst, src, 0x0800, F.ipv4(0x0a000001, 0x0a000002, 6, l4, ident=7))
      kind = "tcp"
    else:
      l4 = F.udp(sp, 53, b"sweep" * 3, src=0x0a000001, dst=0x0a000002)
      raw = F.eth(dst, src, 0x0800, F.ipv4(0x0a000001, 0x0a000002, 17, l4, ident=7))
      kind = "udp"
    yield dict(frame=raw, in_port=1, cfg=cfg, via="packet_out",
               actions=[dict(type=7, nw_addr=0xc0a80000 | (i & 0xff)), dict(type=10, tp_port=8080),
                        dict(type=0, port=2, max_len=0)],
               desc=dict(kind=kind, tagged=False), probe=False, sweep=True)


def gen_portcfg (rng, n):
  """All 64 config combinations on port 3 x 4 on port 1 (the ingress)."""
  for c3 in range(64):
    cfg3 = sum(b for i, b in enumerate(CFG_BITS) if c3 & (1 << i))
    for c1 in (0, OA.PC_NO_RECV, OA.PC_NO_RECV_STP, OA.PC_NO_PACKET_IN):
      for spec in (3, OA.OFPP_FLOOD, OA.OFPP_ALL):
        for stp in (False, True):
          raw, desc = framegen.gen_frame(rng, "udp", tagged=False, pad=False,
                                         dst=OA.STP_MAC if stp else None,
                                         payload_len=10)
          cfg = {str(p): 0 for p in range(1, NPORTS + 1)}
          cfg["3"] = cfg3; cfg["1"] = c1
          yield dict(frame=raw, in_port=1,
                     actions=[dict(type=0, port=spec, max_len=0)], cfg=cfg,
                     via="flow", desc=desc, probe=False)


def do_case (case, rep):
  try:
    nt = run_case(case, rep)
  except Exception:
    _rig.pop("r", None)
    rep.violation("C12 harness-visible exception",
                  traceback.format_exc()[-900:], case)
    nt = True
  if nt is None: return
  rep.case(repr(sorted((k, repr(v)) for k, v in case.items())).encode(),
           nontrivial=bool(nt))


def plan (tier, seed):
  if tier == "quick":
    return ([dict(mode="rand", n=1500, sub=i) for i in range(12)] +
            [dict(mode="cfg", sub=0)] +
            [dict(mode="exh", shard=i, nshards=12) for i in range(3)] +
            [dict(mode="sweep", n=16384, start=16384 * i, sub=i) for i in range(4)])
  return ([dict(mode="rand", n=120000, sub=i) for i in range(48)] +
          [dict(mode="cfg", sub=i) for i in range(4)] +
          [dict(mode="exh", shard=i, nshards=4) for i in range(4)] +
          [dict(mode="sweep", n=16384, start=4096 * i, sub=i) for i in range(16)])


def run (spec, rep):
  rng = random.Random("c12/%d/%s/%d" % (spec["seed"], spec["mode"],
                                         spec.get("sub", spec.get("shard", 0))))
  if spec["mode"] == "rand":
    g = (gen_case(rng) for _ in range(spec["n"]))
  elif spec["mode"] == "cfg":
    g = gen_portcfg(rng, 0)
  elif spec["mode"] == "sweep":
    g = gen_sweep(rng, spec["n"], spec["start"])
  else:
    g = gen_exhaustive(spec["shard"], spec["nshards"])
  first = True
  for case in g:
    if case.get("sweep"): rep.count("frames_of_a_source_port_sweep")
    do_case(case, rep)
    if first: rep.sample(case); first = False


def replay (witness, rep):
  witness = dict(witness)
  do_case(witness, rep)
