"""
Nicira-extension part of C01: every nx_* action and message class and every
registered NXM entry (with and without mask) round-trips; framing facts that
can be stated with certainty from the extension header are checked.
"""
import struct
import traceback

from pvm.gen import ofgen
from pvm.gen.ofgen import rint, rbytes

NX_VENDOR = 0x00002320

MSG_KINDS = ["flow_mod_table_id", "packet_in_format", "role_request",
             "role_reply", "async_config", "nx_flow_mod", "nx_flow_mod_nxact",
             "nxt_packet_in"]
ACT_KINDS = ["controller", "push_mpls", "pop_mpls", "mpls_label", "mpls_tc",
             "resubmit", "resubmit_table", "set_tunnel", "set_tunnel64",
             "fin_timeout", "exit", "dec_ttl", "output_reg", "reg_move",
             "reg_load", "bundle", "bundle_load", "learn"]


def nx ():
  import pox.core
  if pox.core.core is None:
    # nicira imports of_01, which needs the core object at import time
    from pvm import env
    env.make_core()
  import pox.openflow.nicira as nx_
  return nx_


def nxm_classes ():
  n = nx()
  return sorted(n._nxm_type_to_class.values(), key=lambda c: c.__name__)


def kinds ():
  ks = ["msg:" + k for k in MSG_KINDS] + ["act:" + k for k in ACT_KINDS]
  for c in nxm_classes():
    ks.append("nxm:" + c.__name__)
    if c().allow_mask: ks.append("nxmm:" + c.__name__)
  ks += ["match", "match"]
  return ks


def gen_nxm (rng, cls, masked):
  """Returns an entry instance of cls with a value (and mask) in range."""
  n = nx()
  from pox.lib.addresses import IPAddr, IPAddr6, EthAddr
  e = cls()
  width = cls._nxm_length
  rawv = rbytes(rng, width)
  rawm = None
  if masked:
    r = rng.random()
    if r < 0.2: rawm = b"\xff" * width
    elif r < 0.3: rawm = b"\x00" * width
    elif r < 0.6:
      bits = rng.randrange(0, width * 8 + 1)
      v = ((1 << bits) - 1) << (width * 8 - bits)
      rawm = v.to_bytes(width, "big")
    else:
      rawm = rbytes(rng, width)
    if issubclass(cls, n._nxm_tcp_flags):
      rawm = bytes([rawm[0] & 0x0f, rawm[1]])
    rawv = bytes(a & b for a, b in zip(rawv, rawm))
  def conv (raw):
    if issubclass(cls, n._nxm_ether): return EthAddr(raw)
    if issubclass(cls, n._nxm_ipv6): return IPAddr6(raw, raw=True)
    if issubclass(cls, n._nxm_ip): return IPAddr(raw)
    if issubclass(cls, n._nxm_numeric): return int.from_bytes(raw, "big")
    return raw
  if rawm is not None:
    m = conv(rawm)
    if issubclass(cls, n._nxm_ip) and not issubclass(cls, n._nxm_ipv6):
      pass
    e.mask = m
  e.value = conv(rawv)
  return e, rawv, rawm


def check_nxm (ctx, rng, cname, masked):
  n = nx()
  cls = getattr(n, cname)
  e, rawv, rawm = gen_nxm(rng, cls, masked)
  try:
    b = e.pack()
  except Exception as ex:
    ctx.fire(cname, "pack raises %s" % type(ex).__name__,
             "value=%s mask=%s: %r" % (rawv.hex(), rawm and rawm.hex(), ex))
    return None
  ctx.rep.count("objects")
  if len(b) != len(e):
    ctx.fire(cname, "len(obj) != len(pack())", "%d vs %d" % (len(e), len(b)))
  if len(b) < 4:
    ctx.fire(cname, "NXM shorter than its header", b.hex()); return b
  h = struct.unpack_from("!L", b, 0)[0]
  hasmask = (h >> 8) & 1
  ln = h & 0xff
  width = cls._nxm_length
  if (h >> 9) != cls._nxm_type:
    ctx.fire(cname, "NXM header type", "%x" % h)
  if ln != len(b) - 4 or ln != width * (1 + hasmask):
    ctx.fire(cname, "NXM header length != payload length",
             "len field %d hasmask %d payload %d width %d" %
             (ln, hasmask, len(b) - 4, width))
  if b[4:4 + width] != rawv:
    ctx.fire(cname, "NXM value bytes", "%s vs %s" % (b[4:4 + width].hex(),
                                                      rawv.hex()))
  if hasmask and b[4 + width:] != rawm:
    ctx.fire(cname, "NXM mask bytes", b.hex())
  if not hasmask and rawm is not None and rawm != b"\xff" * width:
    ctx.fire(cname, "NXM mask dropped", "mask %s" % rawm.hex())
  ctx.rep.count("layout_compared")
  pre = rbytes(rng, rng.choice([0, 4]))
  for suffix in (b"", rbytes(rng, 8)):
    try:
      off, e2 = n.nxm_entry.unpack_new(pre + b + suffix, len(pre))
    except Exception as ex:
      ctx.fire(cname, "unpack raises %s" % type(ex).__name__, repr(ex))
      return b
    if off != len(pre) + len(b):
      ctx.fire(cname, "decode consumed wrong number of bytes",
               "%d vs %d" % (off - len(pre), len(b)))
    try:
      if rawm is not None and rawm == b"\xff" * width:
        pass    # an all-ones mask is normalised away on the wire
      elif type(e2) is not type(e) or not (e2 == e):
        ctx.fire(cname, "decoded object not equal to original",
                 "value=%s mask=%s wire=%s" % (rawv.hex(), rawm and rawm.hex(),
                                               b.hex()))
    except Exception as ex:
      ctx.fire(cname, "__eq__ raises %s" % type(ex).__name__, repr(ex))
    try:
      b2 = e2.pack()
      if b2 != b:
        ctx.fire(cname, "re-encoding differs", "%s vs %s" % (b2.hex(), b.hex()))
    except Exception as ex:
      ctx.fire(cname, "re-pack raises %s" % type(ex).__name__, repr(ex))
  ctx.rep.count("roundtrips")
  return b


def gen_nx_match (rng):
  n = nx()
  m = n.nx_match()
  cs = nxm_classes()
  seen = set()
  for _ in range(rng.choice([0, 1, 2, 3, 5, 9])):
    c = rng.choice(cs)
    if c._nxm_type in seen: continue
    seen.add(c._nxm_type)
    e, _, rawm = gen_nxm(rng, c, c().allow_mask and rng.random() < 0.5)
    if rawm is not None and rawm == b"\xff" * c._nxm_length:
      e, _, _ = gen_nxm(rng, c, False)
    m.append(e)
  return m


def gen_action (rng, k):
  n = nx()
  cs = [c for c in nxm_classes() if c._nxm_length in (1, 2, 4, 8)]
  regs = [c for c in nxm_classes() if c.__name__.startswith("NXM_NX_REG")]
  if k == "controller":
    return n.nx_action_controller(max_len=rint(rng, 16),
                                  controller_id=rint(rng, 16),
                                  reason=rint(rng, 8))
  if k == "push_mpls": return n.nx_action_push_mpls(ethertype=rint(rng, 16))
  if k == "pop_mpls": return n.nx_action_pop_mpls(ethertype=rint(rng, 16))
  if k == "mpls_label": return n.nx_action_mpls_label(label=rint(rng, 32))
  if k == "mpls_tc": return n.nx_action_mpls_tc(tc=rint(rng, 8))
  if k == "resubmit": return n.nx_action_resubmit.resubmit(in_port=rint(rng, 16))
  if k == "resubmit_table":
    return n.nx_action_resubmit.resubmit_table(table=rint(rng, 8),
                                               in_port=rint(rng, 16))
  if k == "set_tunnel": return n.nx_action_set_tunnel(tun_id=rint(rng, 32))
  if k == "set_tunnel64": return n.nx_action_set_tunnel64(tun_id=rint(rng, 64))
  if k == "fin_timeout":
    return n.nx_action_fin_timeout(fin_idle_timeout=rint(rng, 16),
                                   fin_hard_timeout=rint(rng, 16))
  if k == "exit": return n.nx_action_exit()
  if k == "dec_ttl": return n.nx_action_dec_ttl()
  if k == "output_reg":
    c = rng.choice(regs or cs)
    nbits = rng.randrange(1, min(c._nxm_length * 8, 64) + 1)
    return n.nx_output_reg(reg=c, offset=rng.randrange(0, c._nxm_length * 8
                                                        - nbits + 1),
                           nbits=nbits, max_len=rint(rng, 16))
  if k == "reg_move":
    a = rng.choice(cs); b = rng.choice(cs)
    nbits = rng.randrange(1, min(a._nxm_length, b._nxm_length) * 8 + 1)
    return n.nx_reg_move(src=a, dst=b, nbits=nbits,
                         src_ofs=rng.randrange(0, a._nxm_length * 8 - nbits + 1),
                         dst_ofs=rng.randrange(0, b._nxm_length * 8 - nbits + 1))
  if k == "reg_load":
    c = rng.choice(cs)
    nbits = rng.randrange(1, min(c._nxm_length * 8, 64) + 1)
    return n.nx_reg_load(dst=c, nbits=nbits,
                         offset=rng.randrange(0, c._nxm_length * 8 - nbits + 1),
                         value=rng.getrandbits(nbits))
  if k in ("bundle", "bundle_load"):
    kw = dict(algorithm=rng.randrange(2), fields=rng.randrange(2),
              basis=rint(rng, 16),
              slaves=[n.NXM_OF_IN_PORT(rint(rng, 16))
                      for _ in range(rng.choice([0, 1, 2, 3, 4, 5]))])
    if k == "bundle_load":
      c = rng.choice(regs or cs)
      nbits = rng.randrange(1, min(c._nxm_length * 8, 64) + 1)
      kw.update(load=True, dst=c, nbits=nbits,
                offset=rng.randrange(0, c._nxm_length * 8 - nbits + 1))
    return n.nx_action_bundle(**kw)
  if k == "learn":
    a = n.nx_action_learn(idle_timeout=rint(rng, 16), hard_timeout=rint(rng, 16),
                          priority=rint(rng, 16), cookie=rint(rng, 64),
                          flags=rint(rng, 16), table_id=rint(rng, 8),
                          fin_idle_timeout=rint(rng, 16),
                          fin_hard_timeout=rint(rng, 16))
    fms = n.flow_mod_spec.new
    for _ in range(rng.choice([0, 1, 2, 3])):
      r = rng.random()
      if r < 0.35:
        a.spec.append(fms(field=n.NXM_OF_VLAN_TCI, n_bits=12))
      elif r < 0.7:
        a.spec.append(fms(field=n.NXM_OF_ETH_SRC, match=n.NXM_OF_ETH_DST))
      else:
        a.spec.append(fms(field=n.NXM_OF_IN_PORT, output=True))
    return a
  raise KeyError(k)


def gen_msg (rng, k):
  n = nx()
  import pox.openflow.libopenflow_01 as of
  xid = rint(rng, 32)
  if k == "flow_mod_table_id":
    return n.nx_flow_mod_table_id(xid=xid, enable=rng.random() < 0.5)
  if k == "packet_in_format":
    return n.nx_packet_in_format(xid=xid, format=rng.choice([0, 1, rint(rng, 32)]))
  if k == "role_request":
    return n.nx_role_request(xid=xid, role=rng.choice([0, 1, 2, rint(rng, 32)]))
  if k == "role_reply":
    return n.nx_role_reply(xid=xid, role=rng.choice([0, 1, 2, rint(rng, 32)]))
  if k == "async_config":
    return n.nx_async_config(xid=xid, packet_in_mask=rint(rng, 32),
                             port_status_mask=rint(rng, 32),
                             flow_removed_mask=rint(rng, 32),
                             packet_in_mask_slave=rint(rng, 32),
                             port_status_mask_slave=rint(rng, 32),
                             flow_removed_mask_slave=rint(rng, 32))
  if k in ("nx_flow_mod", "nx_flow_mod_nxact"):
    acts = ofgen.gen_actions(rng, 3)
    if k == "nx_flow_mod_nxact":
      # a Nicira action inside the list: decoded through the generic
      # action-list parser, which has no (vendor, subtype) dispatch
      acts.insert(rng.randrange(len(acts) + 1),
                  gen_action(rng, rng.choice(ACT_KINDS)))
    return n.nx_flow_mod(xid=xid, match=gen_nx_match(rng), cookie=rint(rng, 64),
                         command=rng.randrange(5), idle_timeout=rint(rng, 16),
                         hard_timeout=rint(rng, 16), priority=rint(rng, 16),
                         out_port=rint(rng, 16), flags=rint(rng, 16),
                         actions=acts)
  if k == "nxt_packet_in":
    data = rbytes(rng, rng.choice([0, 1, 14, 60, 100]))
    m = n.nxt_packet_in(xid=xid, reason=rint(rng, 8), table_id=rint(rng, 8),
                        cookie=rint(rng, 64), data=data,
                        total_len=len(data) + rng.choice([0, 0, 10]))
    m.buffer_id = rng.choice([None, 1, rint(rng, 32) & 0x7fffffff])
    m.match = gen_nx_match(rng)
    return m
  raise KeyError(k)


def nx_layout (ctx, cname, m, b):
  """
  NXT_FLOW_MOD / NXT_PACKET_IN byte layout stated independently of the
  library's own arithmetic: fixed part, nx_match, zero padding up to the next
  multiple of 8 (none when already aligned), then actions / 2 pad bytes +
  frame.  A self-consistent pack/unpack pair with a wrong layout still
  round-trips; only this comparison sees it.
  """
  n = nx()
  pad8 = lambda x: (x + 7) // 8 * 8
  def bad (what, detail):
    ctx.fire(cname, "NX layout: " + what, detail)
  try:
    if isinstance(m, n.nx_flow_mod) and not getattr(m, "data", None):
      if len(b) < 48: bad("shorter than the fixed part", b.hex()); return
      (cookie, command, idle, hard, prio, buf, outp, flags, mlen) = \
          struct.unpack_from("!QHHHHLHHH", b, 16)
      mb = m.match.pack()
      acts = b"".join(a.pack() for a in m.actions)
      want = [("cookie", cookie, m.cookie),
              ("command", command, m.command | (m.table_id << 8)),
              ("idle_timeout", idle, m.idle_timeout),
              ("hard_timeout", hard, m.hard_timeout),
              ("priority", prio, m.priority),
              ("buffer_id", buf, 0xffffffff if m.buffer_id is None else m.buffer_id),
              ("out_port", outp, m.out_port), ("flags", flags, m.flags),
              ("match_len", mlen, len(mb))]
      for name, got, exp in want:
        if got != exp: bad("field %s" % name, "%r on the wire, object has %r" % (got, exp)); return
      if b[42:48] != bytes(6): bad("pad after match_len not zero", b[42:48].hex()); return
      if len(b) != 48 + pad8(mlen) + len(acts):
        bad("length is not 48 + match padded to 8 + actions",
            "%d bytes, match_len %d, actions %d" % (len(b), mlen, len(acts))); return
      if b[48:48 + mlen] != mb: bad("match bytes", ""); return
      if b[48 + mlen:48 + pad8(mlen)] != bytes(pad8(mlen) - mlen):
        bad("match padding not zero", ""); return
      if b[48 + pad8(mlen):] != acts: bad("actions do not follow the padded match", ""); return
      ctx.rep.count("nx_layouts_checked")
    elif isinstance(m, n.nxt_packet_in):
      if len(b) < 40: bad("shorter than the fixed part", b.hex()); return
      buf, total_len, reason, table_id, cookie, mlen = struct.unpack_from("!LHBBQH", b, 16)
      mb = m.match.pack()
      data = m.data or b""
      want = [("buffer_id", buf, 0xffffffff if m.buffer_id is None else m.buffer_id),
              ("total_len", total_len, m.total_len), ("reason", reason, m.reason),
              ("table_id", table_id, m.table_id), ("cookie", cookie, m.cookie),
              ("match_len", mlen, len(mb))]
      for name, got, exp in want:
        if got != exp: bad("field %s" % name, "%r on the wire, object has %r" % (got, exp)); return
      if len(b) != 40 + pad8(mlen) + 2 + len(data):
        bad("length is not 40 + match padded to 8 + 2 + frame",
            "%d bytes, match_len %d, frame %d" % (len(b), mlen, len(data))); return
      if b[40:40 + mlen] != mb: bad("match bytes", ""); return
      if b[40 + mlen:40 + pad8(mlen) + 2] != bytes(pad8(mlen) - mlen + 2):
        bad("padding not zero", ""); return
      if b[40 + pad8(mlen) + 2:] != data: bad("frame does not follow the padding", ""); return
      ctx.rep.count("nx_layouts_checked")
  except Exception as e:
    bad("layout check could not read the object (%s)" % type(e).__name__, repr(e))


def roundtrip_message (ctx, m, rng, cname=None):
  cname = cname or type(m).__name__
  try:
    b = m.pack()
  except Exception as e:
    tb = traceback.extract_tb(e.__traceback__)
    ctx.fire(cname, "pack raises %s" % type(e).__name__,
             "%r at %s:%s" % (e, tb[-1].name, tb[-1].lineno))
    return None
  ctx.rep.count("objects")
  try:
    if len(m) != len(b):
      ctx.fire(cname, "len(obj) != len(pack())", "%d vs %d" % (len(m), len(b)))
  except Exception as e:
    ctx.fire(cname, "len raises %s" % type(e).__name__, repr(e))
  if len(b) < 16:
    ctx.fire(cname, "vendor message shorter than its header", b.hex())
    return b
  v, t, l, xid = struct.unpack_from("!BBHL", b, 0)
  vendor, subtype = struct.unpack_from("!LL", b, 8)
  if l != len(b):
    ctx.fire(cname, "header length field != byte count", "%d vs %d" % (l, len(b)))
  if t != 4 or vendor != NX_VENDOR or v != 1 or xid != m.xid:
    ctx.fire(cname, "vendor message header", b[:16].hex())
  if subtype != m.subtype:
    ctx.fire(cname, "vendor subtype", "%d vs %d" % (subtype, m.subtype))
  ctx.rep.count("layout_compared")
  nx_layout(ctx, cname, m, b)
  pre = rbytes(rng, rng.choice([0, 8]))
  for suffix in (b"", rbytes(rng, 16)):
    try:
      o2 = type(m)()
      off, ln = o2.unpack(pre + b + suffix, len(pre))
    except Exception as e:
      tb = traceback.extract_tb(e.__traceback__)
      ctx.fire(cname, "unpack raises %s" % type(e).__name__,
               "%r at %s:%s" % (e, tb[-1].name, tb[-1].lineno))
      return b
    if off != len(pre) + len(b) or ln != len(b):
      ctx.fire(cname, "decode consumed wrong number of bytes",
               "consumed %d (reported length %d), message is %d" %
               (off - len(pre), ln, len(b)))
    try:
      if not (o2 == m) or (o2 != m):
        ctx.fire(cname, "decoded object not equal to original", b.hex()[:200])
    except Exception as e:
      ctx.fire(cname, "__eq__ raises %s" % type(e).__name__, repr(e))
    try:
      b2 = o2.pack()
      if b2 != b:
        ctx.fire(cname, "re-encoding differs", "%s vs %s" %
                 (b2.hex()[:200], b.hex()[:200]))
    except Exception as e:
      ctx.fire(cname, "re-pack raises %s" % type(e).__name__, repr(e))
  ctx.rep.count("roundtrips")
  return b


def roundtrip_action (ctx, a, rng):
  import pox.openflow.libopenflow_01 as of
  cname = type(a).__name__
  try:
    b = a.pack()
  except Exception as e:
    tb = traceback.extract_tb(e.__traceback__)
    ctx.fire(cname, "pack raises %s" % type(e).__name__,
             "%r at %s:%s" % (e, tb[-1].name, tb[-1].lineno))
    return None
  ctx.rep.count("objects")
  try:
    if len(a) != len(b):
      ctx.fire(cname, "len(obj) != len(pack())", "%d vs %d" % (len(a), len(b)))
  except Exception as e:
    ctx.fire(cname, "len raises %s" % type(e).__name__, repr(e))
  if len(b) < 10:
    ctx.fire(cname, "vendor action shorter than its header", b.hex()); return b
  t, l, vendor, subtype = struct.unpack_from("!HHLH", b, 0)
  if t != 0xffff or vendor != NX_VENDOR or l != len(b) or l % 8:
    ctx.fire(cname, "vendor action header",
             "type %x len %d (bytes %d) vendor %x" % (t, l, len(b), vendor))
  if subtype != a.subtype:
    ctx.fire(cname, "vendor action subtype", "%d vs %d" % (subtype, a.subtype))
  ctx.rep.count("layout_compared")
  pre = rbytes(rng, rng.choice([0, 8]))
  for suffix in (b"", rbytes(rng, 8)):
    try:
      off, o2 = type(a).unpack_new(pre + b + suffix, len(pre))
    except Exception as e:
      tb = traceback.extract_tb(e.__traceback__)
      ctx.fire(cname, "unpack raises %s" % type(e).__name__,
               "%r at %s:%s" % (e, tb[-1].name, tb[-1].lineno))
      return b
    if off != len(pre) + len(b):
      ctx.fire(cname, "decode consumed wrong number of bytes",
               "%d vs %d" % (off - len(pre), len(b)))
    try:
      if not (o2 == a) or (o2 != a):
        ctx.fire(cname, "decoded object not equal to original", b.hex())
    except Exception as e:
      ctx.fire(cname, "__eq__ raises %s" % type(e).__name__, repr(e))
    try:
      b2 = o2.pack()
      if b2 != b:
        ctx.fire(cname, "re-encoding differs", "%s vs %s" % (b2.hex(), b.hex()))
    except Exception as e:
      ctx.fire(cname, "re-pack raises %s" % type(e).__name__, repr(e))
  ctx.rep.count("roundtrips")
  return b


def do_nx (ctx, kind, rng, case):
  n = nx()
  if kind.startswith("nxm:"):
    return check_nxm(ctx, rng, kind[4:], False)
  if kind.startswith("nxmm:"):
    return check_nxm(ctx, rng, kind[5:], True)
  if kind == "match":
    m = gen_nx_match(rng)
    b = m.pack()
    ctx.rep.count("objects")
    if len(b) != len(m):
      ctx.fire("nx_match", "len(obj) != len(pack())", "%d vs %d" % (len(m), len(b)))
    m2 = n.nx_match()
    try:
      off = m2.unpack(b"\0\0" + b + b"\xff" * 8, 2, len(b))
    except Exception as e:
      ctx.fire("nx_match", "unpack raises %s" % type(e).__name__, repr(e))
      return b
    if off != 2 + len(b):
      ctx.fire("nx_match", "decode consumed wrong number of bytes", str(off))
    if m2.pack() != b:
      ctx.fire("nx_match", "re-encoding differs", "%s vs %s" %
               (m2.pack().hex(), b.hex()))
    if not (m2 == m) and not case.get("_allones"):
      ctx.fire("nx_match", "decoded object not equal to original", b.hex())
    ctx.rep.count("roundtrips")
    return b
  if kind.startswith("act:"):
    a = gen_action(rng, kind[4:])
    return roundtrip_action(ctx, a, rng)
  if kind.startswith("msg:"):
    m = gen_msg(rng, kind[4:])
    return roundtrip_message(ctx, m, rng,
                             "nx_flow_mod[with nx action]"
                             if kind[4:] == "nx_flow_mod_nxact" else None)
  raise KeyError(kind)
