"""
Nicira-extension part of C01: every nx_* action and message class and every
registered NXM entry (with and without mask) round-trips; framing facts that
can be stated with certainty from the extension header are checked.
"""
import struct
import traceback

from pvm.gen import ofgen
from pvm.gen.ofgen import rint, rbytes

NX_VENDOR = 0x00002320

MSG_KINDS = ["flow_mod_table_id", "packet_in_format", "role_request",
             "role_reply", "async_config", "nx_flow_mod", "nx_flow_mod_nxact",
             "nxt_packet_in"]
ACT_KINDS = ["controller", "push_mpls", "pop_mpls", "mpls_label", "mpls_tc",
             "resubmit", "resubmit_table", "set_tunnel", "set_tunnel64",
             "fin_timeout", "exit", "dec_ttl", "output_reg", "reg_move",
             "reg_load", "bundle", "bundle_load", "learn"]


def nx ():
  import pox.core
  if pox.core.core is None:
    # nicira imports of_01, which needs the core object at import time
    from pvm import env
    env.make_core()
  import pox.openflow.nicira as nx_
  return nx_


def nxm_classes ():
  n = nx()
  return sorted(n._nxm_type_to_class.values(), key=lambda c: c.__name__)


def kinds ():
  ks = ["msg:" + k for k in MSG_KINDS] + ["act:" + k for k in ACT_KINDS]
  for c in nxm_classes():
    ks.append("nxm:" + c.__name__)
    if c().allow_mask: ks.append("nxmm:" + c.__name__)
  ks += ["match", "match", "fm_table_id"]
  return ks


def gen_nxm (rng, cls, masked):
  """Returns an entry instance of cls with a value (and mask) in range."""
  n = nx()
  from pox.lib.addresses import IPAddr, IPAddr6, EthAddr
  e = cls()
  width = cls._nxm_length
  rawv = rbytes(rng, width)
  rawm = None
  if masked:
    r = rng.random()
    if r < 0.2: rawm = b"\xff" * width
    elif r < 0.3: rawm = b"\x00" * width
    elif r < 0.6:
      bits = rng.randrange(0, width * 8 + 1)
      v = ((1 << bits) - 1) << (width * 8 - bits)
      rawm = v.to_bytes(width, "big")
    else:
      rawm = rbytes(rng, width)
    if issubclass(cls, n._nxm_tcp_flags):
      rawm = bytes([rawm[0] & 0x0f, rawm[1]])
    rawv = bytes(a & b for a, b in zip(rawv, rawm))
  def conv (raw):
    if issubclass(cls, n._nxm_ether): return EthAddr(raw)
    if issubclass(cls, n._nxm_ipv6): return IPAddr6(raw, raw=True)
    if issubclass(cls, n._nxm_ip): return IPAddr(raw)
    if issubclass(cls, n._nxm_numeric): return int.from_bytes(raw, "big")
    return raw
  if rawm is not None:
    m = conv(rawm)
    if issubclass(cls, n._nxm_ip) and not issubclass(cls, n._nxm_ipv6):
      pass
    e.mask = m
  e.value = conv(rawv)
  return e, rawv, rawm


def check_nxm (ctx, rng, cname, masked):
  n = nx()
  cls = getattr(n, cname)
  e, rawv, rawm = gen_nxm(rng, cls, masked)
  try:
    b = e.pack()
  except Exception as ex:
    ctx.fire(cname, "pack raises %s" % type(ex).__name__,
             "value=%s mask=%s: %r" % (rawv.hex(), rawm and rawm.hex(), ex))
    return None
  ctx.rep.count("objects")
  if len(b) != len(e):
    ctx.fire(cname, "len(obj) != len(pack())", "%d vs %d" % (len(e), len(b)))
  if len(b) < 4:
    ctx.fire(cname, "NXM shorter than its header", b.hex()); return b
  h = struct.unpack_from("!L", b, 0)[0]
  hasmask = (h >> 8) & 1
  ln = h & 0xff
  width = cls._nxm_length
  if (h >> 9) != cls._nxm_type:
    ctx.fire(cname, "NXM header type", "%x" % h)
  sp = SPEC_NXM.get(cname)
  if sp is not None:
    ctx.rep.count("nxm_numbers_compared")
    if (h >> 16, (h >> 9) & 0x7f) != sp[:2] or width != sp[2]:
      ctx.fire(cname, "NXM class/field/width are not those nicira-ext.h gives it",
               "header %08x (class %d field %d), width %d; specified %r" %
               (h, h >> 16, (h >> 9) & 0x7f, width, sp))
  if ln != len(b) - 4 or ln != width * (1 + hasmask):
    ctx.fire(cname, "NXM header length != payload length",
             "len field %d hasmask %d payload %d width %d" %
             (ln, hasmask, len(b) - 4, width))
  if b[4:4 + width] != rawv:
    ctx.fire(cname, "NXM value bytes", "%s vs %s" % (b[4:4 + width].hex(),
                                                      rawv.hex()))
  if hasmask and b[4 + width:] != rawm:
    ctx.fire(cname, "NXM mask bytes", b.hex())
  if not hasmask and rawm is not None and rawm != b"\xff" * width:
    ctx.fire(cname, "NXM mask dropped", "mask %s" % rawm.hex())
  ctx.rep.count("layout_compared")
  pre = rbytes(rng, rng.choice([0, 4]))
  for suffix in (b"", rbytes(rng, 8)):
    try:
      off, e2 = n.nxm_entry.unpack_new(pre + b + suffix, len(pre))
    except Exception as ex:
      ctx.fire(cname, "unpack raises %s" % type(ex).__name__, repr(ex))
      return b
    if off != len(pre) + len(b):
      ctx.fire(cname, "decode consumed wrong number of bytes",
               "%d vs %d" % (off - len(pre), len(b)))
    try:
      if rawm is not None and rawm == b"\xff" * width:
        pass    # an all-ones mask is normalised away on the wire
      elif type(e2) is not type(e) or not (e2 == e):
        ctx.fire(cname, "decoded object not equal to original",
                 "value=%s mask=%s wire=%s" % (rawv.hex(), rawm and rawm.hex(),
                                               b.hex()))
    except Exception as ex:
      ctx.fire(cname, "__eq__ raises %s" % type(ex).__name__, repr(ex))
    try:
      b2 = e2.pack()
      if b2 != b:
        ctx.fire(cname, "re-encoding differs", "%s vs %s" % (b2.hex(), b.hex()))
    except Exception as ex:
      ctx.fire(cname, "re-pack raises %s" % type(ex).__name__, repr(ex))
  ctx.rep.count("roundtrips")
  return b


def gen_nx_match (rng):
  n = nx()
  m = n.nx_match()
  cs = nxm_classes()
  seen = set()
  for _ in range(rng.choice([0, 1, 2, 3, 5, 9])):
    c = rng.choice(cs)
    if c._nxm_type in seen: continue
    seen.add(c._nxm_type)
    e, _, rawm = gen_nxm(rng, c, c().allow_mask and rng.random() < 0.5)
    if rawm is not None and rawm == b"\xff" * c._nxm_length:
      e, _, _ = gen_nxm(rng, c, False)
    m.append(e)
  return m


# NXAST_* numbers and NXT_* numbers as nicira-ext.h gives them (not read from
# the library): the check compares the wire with these
SPEC_NXAST = dict(controller=20, push_mpls=23, pop_mpls=24, mpls_label=30, mpls_tc=31,
                  resubmit=1, resubmit_table=14, set_tunnel=2, set_tunnel64=9,
                  fin_timeout=19, exit=17, dec_ttl=18, output_reg=15, reg_move=6,
                  reg_load=7, bundle=12, bundle_load=13, learn=16)
SPEC_NXT = dict(flow_mod_table_id=15, packet_in_format=16, role_request=10,
                role_reply=11, async_config=19, nx_flow_mod=13, nx_flow_mod_nxact=13,
                nxt_packet_in=17)


# bodies (bytes 16..) of the small messages
SMALL_MSG_BODY = dict(
  flow_mod_table_id=lambda m: struct.pack("!B7x", 1 if m.enable else 0),
  packet_in_format=lambda m: struct.pack("!L", m.format),
  role_request=lambda m: struct.pack("!L", m.role),
  role_reply=lambda m: struct.pack("!L", m.role),
  async_config=lambda m: struct.pack("!LLLLLL", m.packet_in_mask, m.packet_in_mask_slave,
                                     m.port_status_mask, m.port_status_mask_slave,
                                     m.flow_removed_mask, m.flow_removed_mask_slave))

# NXM numbering: name -> (vendor/class, field, width in octets)
SPEC_NXM = dict(
  NXM_OF_IN_PORT=(0, 0, 2), NXM_OF_ETH_DST=(0, 1, 6), NXM_OF_ETH_SRC=(0, 2, 6),
  NXM_OF_ETH_TYPE=(0, 3, 2), NXM_OF_VLAN_TCI=(0, 4, 2), NXM_OF_IP_TOS=(0, 5, 1),
  NXM_OF_IP_PROTO=(0, 6, 1), NXM_OF_IP_SRC=(0, 7, 4), NXM_OF_IP_DST=(0, 8, 4),
  NXM_OF_TCP_SRC=(0, 9, 2), NXM_OF_TCP_DST=(0, 10, 2), NXM_OF_UDP_SRC=(0, 11, 2),
  NXM_OF_UDP_DST=(0, 12, 2), NXM_OF_ICMP_TYPE=(0, 13, 1), NXM_OF_ICMP_CODE=(0, 14, 1),
  NXM_OF_ARP_OP=(0, 15, 2), NXM_OF_ARP_SPA=(0, 16, 4), NXM_OF_ARP_TPA=(0, 17, 4),
  NXM_NX_TUN_ID=(1, 16, 8), NXM_NX_ARP_SHA=(1, 17, 6), NXM_NX_ARP_THA=(1, 18, 6),
  NXM_NX_IPV6_SRC=(1, 19, 16), NXM_NX_IPV6_DST=(1, 20, 16),
  NXM_NX_ICMPV6_TYPE=(1, 21, 1), NXM_NX_ICMPV6_CODE=(1, 22, 1),
  NXM_NX_ND_TARGET=(1, 23, 16), NXM_NX_ND_SLL=(1, 24, 6), NXM_NX_ND_TLL=(1, 25, 6),
  NXM_NX_IP_FRAG=(1, 26, 1), NXM_NX_IPV6_LABEL=(1, 27, 4), NXM_NX_IP_ECN=(1, 28, 1),
  NXM_NX_IP_TTL=(1, 29, 1), NXM_NX_COOKIE=(1, 30, 8), NXM_NX_TUN_IPV4_SRC=(1, 31, 4),
  NXM_NX_TUN_IPV4_DST=(1, 32, 4), NXM_NX_TCP_FLAGS=(1, 34, 2))
for _i in range(16): SPEC_NXM["NXM_NX_REG%d" % _i] = (1, _i, 4)


def spec_action_body (k, v):
  """Bytes 10.. of the simple actions, from the values asked for."""
  P = struct.pack
  if k == "controller": return P("!HHBx", v["max_len"], v["controller_id"], v["reason"])
  if k in ("push_mpls", "pop_mpls"): return P("!H4x", v["ethertype"])
  if k == "mpls_label": return P("!2xL", v["label"])
  if k == "mpls_tc": return P("!B5x", v["tc"])
  if k == "resubmit": return P("!HB3x", v["in_port"], 0)
  if k == "resubmit_table": return P("!HB3x", v["in_port"], v["table"])
  if k == "set_tunnel": return P("!2xL", v["tun_id"])
  if k == "set_tunnel64": return P("!6xQ", v["tun_id"])
  if k == "fin_timeout": return P("!HH2x", v["fin_idle_timeout"], v["fin_hard_timeout"])
  if k in ("exit", "dec_ttl"): return b"\0" * 6
  return None


def gen_action (rng, k):
  a = _gen_action(rng, k)
  if not hasattr(a, "_pvm"):
    try: a._pvm = (k, None)
    except Exception: pass
  return a


def _gen_action (rng, k):
  n = nx()
  cs = [c for c in nxm_classes() if c._nxm_length in (1, 2, 4, 8)]
  regs = [c for c in nxm_classes() if c.__name__.startswith("NXM_NX_REG")]
  v = {}
  def tagged (a):
    # the values asked for and the kind, for the layout oracle (nicira-ext.h)
    a._pvm = (k, dict(v))
    return a
  if k == "controller":
    v.update(max_len=rint(rng, 16), controller_id=rint(rng, 16), reason=rint(rng, 8))
    return tagged(n.nx_action_controller(**v))
  if k == "push_mpls":
    v.update(ethertype=rint(rng, 16)); return tagged(n.nx_action_push_mpls(**v))
  if k == "pop_mpls":
    v.update(ethertype=rint(rng, 16)); return tagged(n.nx_action_pop_mpls(**v))
  if k == "mpls_label":
    v.update(label=rint(rng, 32)); return tagged(n.nx_action_mpls_label(**v))
  if k == "mpls_tc":
    v.update(tc=rint(rng, 8)); return tagged(n.nx_action_mpls_tc(**v))
  if k == "resubmit":
    v.update(in_port=rint(rng, 16))
    return tagged(n.nx_action_resubmit.resubmit(**v))
  if k == "resubmit_table":
    v.update(table=rint(rng, 8), in_port=rint(rng, 16))
    return tagged(n.nx_action_resubmit.resubmit_table(**v))
  if k == "set_tunnel":
    v.update(tun_id=rint(rng, 32)); return tagged(n.nx_action_set_tunnel(**v))
  if k == "set_tunnel64":
    v.update(tun_id=rint(rng, 64)); return tagged(n.nx_action_set_tunnel64(**v))
  if k == "fin_timeout":
    v.update(fin_idle_timeout=rint(rng, 16), fin_hard_timeout=rint(rng, 16))
    return tagged(n.nx_action_fin_timeout(**v))
  if k == "exit": return tagged(n.nx_action_exit())
  if k == "dec_ttl": return tagged(n.nx_action_dec_ttl())
  if k == "output_reg":
    c = rng.choice(regs or cs)
    nbits = rng.randrange(1, min(c._nxm_length * 8, 64) + 1)
    return n.nx_output_reg(reg=c, offset=rng.randrange(0, c._nxm_length * 8
                                                        - nbits + 1),
                           nbits=nbits, max_len=rint(rng, 16))
  if k == "reg_move":
    a = rng.choice(cs); b = rng.choice(cs)
    nbits = rng.randrange(1, min(a._nxm_length, b._nxm_length) * 8 + 1)
    return n.nx_reg_move(src=a, dst=b, nbits=nbits,
                         src_ofs=rng.randrange(0, a._nxm_length * 8 - nbits + 1),
                         dst_ofs=rng.randrange(0, b._nxm_length * 8 - nbits + 1))
  if k == "reg_load":
    c = rng.choice(cs)
    nbits = rng.randrange(1, min(c._nxm_length * 8, 64) + 1)
    return n.nx_reg_load(dst=c, nbits=nbits,
                         offset=rng.randrange(0, c._nxm_length * 8 - nbits + 1),
                         value=rng.getrandbits(nbits))
  if k in ("bundle", "bundle_load"):
    kw = dict(algorithm=rng.randrange(2), fields=rng.randrange(2),
              basis=rint(rng, 16),
              slaves=[n.NXM_OF_IN_PORT(rint(rng, 16))
                      for _ in range(rng.choice([0, 1, 2, 3, 4, 5]))])
    if k == "bundle_load":
      c = rng.choice(regs or cs)
      nbits = rng.randrange(1, min(c._nxm_length * 8, 64) + 1)
      kw.update(load=True, dst=c, nbits=nbits,
                offset=rng.randrange(0, c._nxm_length * 8 - nbits + 1))
    return n.nx_action_bundle(**kw)
  if k == "learn":
    a = n.nx_action_learn(idle_timeout=rint(rng, 16), hard_timeout=rint(rng, 16),
                          priority=rint(rng, 16), cookie=rint(rng, 64),
                          flags=rint(rng, 16), table_id=rint(rng, 8),
                          fin_idle_timeout=rint(rng, 16),
                          fin_hard_timeout=rint(rng, 16))
    fms = n.flow_mod_spec.new
    for _ in range(rng.choice([0, 1, 2, 3])):
      r = rng.random()
      if r < 0.35:
        a.spec.append(fms(field=n.NXM_OF_VLAN_TCI, n_bits=12))
      elif r < 0.7:
        a.spec.append(fms(field=n.NXM_OF_ETH_SRC, match=n.NXM_OF_ETH_DST))
      elif r < 0.85:
        a.spec.append(fms(field=n.NXM_OF_IN_PORT, output=True))
      else:
        # an immediate value loaded into (part of) a register
        nb = rng.choice([16, 16, 8, 32, 12])
        imm = n.nx_learn_src_immediate(rbytes(rng, (nb + 15) // 16 * 2), nb)
        a.spec.append(fms(src=imm, dst=n.nx_learn_dst_load(
          rng.choice(regs or cs), rng.choice([0, 0, 4]), nb)))
    return a
  raise KeyError(k)


def gen_msg (rng, k):
  m = _gen_msg(rng, k)
  try: m._pvm_kind = k
  except Exception: pass
  return m


def _gen_msg (rng, k):
  n = nx()
  import pox.openflow.libopenflow_01 as of
  xid = rint(rng, 32)
  if k == "flow_mod_table_id":
    return n.nx_flow_mod_table_id(xid=xid, enable=rng.random() < 0.5)
  if k == "packet_in_format":
    return n.nx_packet_in_format(xid=xid, format=rng.choice([0, 1, rint(rng, 32)]))
  if k == "role_request":
    return n.nx_role_request(xid=xid, role=rng.choice([0, 1, 2, rint(rng, 32)]))
  if k == "role_reply":
    return n.nx_role_reply(xid=xid, role=rng.choice([0, 1, 2, rint(rng, 32)]))
  if k == "async_config":
    return n.nx_async_config(xid=xid, packet_in_mask=rint(rng, 32),
                             port_status_mask=rint(rng, 32),
                             flow_removed_mask=rint(rng, 32),
                             packet_in_mask_slave=rint(rng, 32),
                             port_status_mask_slave=rint(rng, 32),
                             flow_removed_mask_slave=rint(rng, 32))
  if k in ("nx_flow_mod", "nx_flow_mod_nxact"):
    acts = ofgen.gen_actions(rng, 3)
    if k == "nx_flow_mod_nxact":
      # a Nicira action inside the list: decoded through the generic
      # action-list parser, which has no (vendor, subtype) dispatch
      acts.insert(rng.randrange(len(acts) + 1),
                  gen_action(rng, rng.choice(ACT_KINDS)))
    return n.nx_flow_mod(xid=xid, match=gen_nx_match(rng), cookie=rint(rng, 64),
                         command=rng.randrange(5), idle_timeout=rint(rng, 16),
                         hard_timeout=rint(rng, 16), priority=rint(rng, 16),
                         out_port=rint(rng, 16), flags=rint(rng, 16),
                         table_id=rng.choice([0, 0, 1, 254, 255, rint(rng, 8)]),
                         buffer_id=rng.choice([None, None, 0, 1, rint(rng, 32) & 0x7fffffff]),
                         actions=acts)
  if k == "nxt_packet_in":
    data = rbytes(rng, rng.choice([0, 1, 14, 60, 100]))
    m = n.nxt_packet_in(xid=xid, reason=rint(rng, 8), table_id=rint(rng, 8),
                        cookie=rint(rng, 64), data=data,
                        total_len=len(data) + rng.choice([0, 0, 10]))
    if rng.random() < 0.8:
      m.buffer_id = rng.choice([None, 1, rint(rng, 32) & 0x7fffffff])
    m.match = gen_nx_match(rng)
    return m
  raise KeyError(k)


def nx_layout (ctx, cname, m, b):
  """
  NXT_FLOW_MOD / NXT_PACKET_IN byte layout stated independently of the
  library's own arithmetic: fixed part, nx_match, zero padding up to the next
  multiple of 8 (none when already aligned), then actions / 2 pad bytes +
  frame.  A self-consistent pack/unpack pair with a wrong layout still
  round-trips; only this comparison sees it.
  """
  n = nx()
  pad8 = lambda x: (x + 7) // 8 * 8
  def bad (what, detail):
    ctx.fire(cname, "NX layout: " + what, detail)
  try:
    if isinstance(m, n.nx_flow_mod) and not getattr(m, "data", None):
      if len(b) < 48: bad("shorter than the fixed part", b.hex()); return
      (cookie, command, idle, hard, prio, buf, outp, flags, mlen) = \
          struct.unpack_from("!QHHHHLHHH", b, 16)
      mb = m.match.pack()
      acts = b"".join(a.pack() for a in m.actions)
      want = [("cookie", cookie, m.cookie),
              ("command", command, m.command | (m.table_id << 8)),
              ("idle_timeout", idle, m.idle_timeout),
              ("hard_timeout", hard, m.hard_timeout),
              ("priority", prio, m.priority),
              ("buffer_id", buf, 0xffffffff if m.buffer_id is None else m.buffer_id),
              ("out_port", outp, m.out_port), ("flags", flags, m.flags),
              ("match_len", mlen, len(mb))]
      for name, got, exp in want:
        if got != exp: bad("field %s" % name, "%r on the wire, object has %r" % (got, exp)); return
      if b[42:48] != bytes(6): bad("pad after match_len not zero", b[42:48].hex()); return
      if len(b) != 48 + pad8(mlen) + len(acts):
        bad("length is not 48 + match padded to 8 + actions",
            "%d bytes, match_len %d, actions %d" % (len(b), mlen, len(acts))); return
      if b[48:48 + mlen] != mb: bad("match bytes", ""); return
      if b[48 + mlen:48 + pad8(mlen)] != bytes(pad8(mlen) - mlen):
        bad("match padding not zero", ""); return
      if b[48 + pad8(mlen):] != acts: bad("actions do not follow the padded match", ""); return
      ctx.rep.count("nx_layouts_checked")
    elif isinstance(m, n.nxt_packet_in):
      if len(b) < 40: bad("shorter than the fixed part", b.hex()); return
      buf, total_len, reason, table_id, cookie, mlen = struct.unpack_from("!LHBBQH", b, 16)
      mb = m.match.pack()
      data = m.data or b""
      want = [("buffer_id", buf, 0xffffffff if m.buffer_id is None else m.buffer_id),
              ("total_len", total_len, m.total_len), ("reason", reason, m.reason),
              ("table_id", table_id, m.table_id), ("cookie", cookie, m.cookie),
              ("match_len", mlen, len(mb))]
      for name, got, exp in want:
        if got != exp: bad("field %s" % name, "%r on the wire, object has %r" % (got, exp)); return
      if len(b) != 40 + pad8(mlen) + 2 + len(data):
        bad("length is not 40 + match padded to 8 + 2 + frame",
            "%d bytes, match_len %d, frame %d" % (len(b), mlen, len(data))); return
      if b[40:40 + mlen] != mb: bad("match bytes", ""); return
      if b[40 + mlen:40 + pad8(mlen) + 2] != bytes(pad8(mlen) - mlen + 2):
        bad("padding not zero", ""); return
      if b[40 + pad8(mlen) + 2:] != data: bad("frame does not follow the padding", ""); return
      ctx.rep.count("nx_layouts_checked")
  except Exception as e:
    bad("layout check could not read the object (%s)" % type(e).__name__, repr(e))


_table = []

def controller_table ():
  """The type->unpacker table a controller connection decodes with, with the
  Nicira vendor unpacker installed the way nicira.launch() does it."""
  if not _table:
    import pox.core
    if pox.core.core is None:
      from pvm import env
      env.make_core()
    import pox.openflow.of_01 as of_01
    import pox.openflow.nicira as nicira
    if of_01.unpackers[4] is not nicira._unpack_nx_vendor:
      nicira._init_unpacker()
    _table.append(of_01.unpackers)
  return _table[0]


def table_decode (ctx, cname, m, b, rng):
  """Decodes b the way Connection.read does: through the table, as the last
  message in the buffer and with other bytes around it."""
  try:
    table = controller_table()
  except Exception as e:
    ctx.fire(cname, "controller unpacker table unavailable (%s)" % type(e).__name__, repr(e))
    return
  if len(b) < 8: return
  try: unpacker = table[b[1]]
  except (KeyError, IndexError): return
  if unpacker is None: return
  pre = rbytes(rng, rng.choice([0, 0, 8, 3]))
  for raw in (b, pre + b, pre + b + rbytes(rng, rng.choice([1, 2, 3, 8, 16]))):
    o0 = 0 if raw is b else len(pre)
    ctx.rep.count("decoded_through_the_controller_table")
    if len(raw) == o0 + len(b):
      ctx.rep.count("decoded_as_last_message_in_buffer")
    try:
      off, o2 = unpacker(raw, o0)
    except Exception as e:
      tb = traceback.extract_tb(e.__traceback__)
      ctx.fire(cname, "table decode raises %s" % type(e).__name__,
               "%r at %s:%s (%d bytes follow)" %
               (e, tb[-1].name, tb[-1].lineno, len(raw) - o0 - len(b)))
      return
    if off != o0 + len(b):
      ctx.fire(cname, "table decode consumed wrong number of bytes",
               "consumed %d, message is %d" % (off - o0, len(b)))
    try:
      if type(o2) is type(m):
        if not (o2 == m) or (o2 != m):
          ctx.fire(cname, "table-decoded object not equal to original", b.hex()[:200])
      b2 = o2.pack()
      if b2 != b:
        ctx.fire(cname, "table-decoded object re-encodes differently",
                 "%s vs %s" % (b2.hex()[:200], b.hex()[:200]))
    except Exception as e:
      ctx.fire(cname, "table-decoded object unusable (%s)" % type(e).__name__, repr(e))


def after_a_failure (ctx, cname, m, b, rng):
  """
  An object on which an encode or decode attempt has failed is still the
  object it was: a message whose action list was incomplete encodes once the
  list is put right, an object that was offered a truncated buffer decodes
  the whole one afterwards.
  """
  import pox.openflow.libopenflow_01 as of
  if len(b) > 8:
    try:
      o = type(m)()
    except Exception:
      o = None
    if o is not None:
      failed = False
      for cut in sorted(set([len(b) - 1, 8 + (len(b) - 8) // 2, 9])):
        if not 8 < cut < len(b): continue
        try:
          o.unpack(b[:cut], 0)
        except Exception:
          failed = True
      if failed:
        ctx.rep.count("decoded_after_a_failed_decode")
        try:
          o.unpack(b, 0)
          # (compared with what a fresh object makes of the same bytes)
          ref = type(m)(); ref.unpack(b, 0)
          if not (o == ref):
            ctx.fire(cname, "object decoded after a failed attempt differs from a fresh decode", "")
          elif o.pack() != b:
            ctx.fire(cname, "object decoded after a failed attempt re-encodes differently", "")
        except Exception as e:
          tb = traceback.extract_tb(e.__traceback__)
          ctx.fire(cname, "decode after a failed attempt raises %s" % type(e).__name__,
                   "%r at %s:%s" % (e, tb[-1].name, tb[-1].lineno))
  acts = getattr(m, "actions", None)
  if isinstance(acts, list):
    bad = of.ofp_action_output()          # no port yet: cannot be encoded
    acts.insert(0, bad)
    try:
      m.pack()
      raised = False
    except Exception:
      raised = True
    finally:
      acts.remove(bad)
    if raised:
      ctx.rep.count("encoded_after_a_failed_encode")
      try:
        b2 = m.pack()
        if b2 != b:
          ctx.fire(cname, "object encodes differently after a failed attempt",
                   "%s vs %s" % (b2.hex()[:160], b.hex()[:160]))
      except Exception as e:
        tb = traceback.extract_tb(e.__traceback__)
        ctx.fire(cname, "encode after a failed attempt raises %s" % type(e).__name__,
                 "%r at %s:%s" % (e, tb[-1].name, tb[-1].lineno))


def roundtrip_message (ctx, m, rng, cname=None):
  cname = cname or type(m).__name__
  try:
    b = m.pack()
  except Exception as e:
    tb = traceback.extract_tb(e.__traceback__)
    ctx.fire(cname, "pack raises %s" % type(e).__name__,
             "%r at %s:%s" % (e, tb[-1].name, tb[-1].lineno))
    return None
  ctx.rep.count("objects")
  try:
    if len(m) != len(b):
      ctx.fire(cname, "len(obj) != len(pack())", "%d vs %d" % (len(m), len(b)))
  except Exception as e:
    ctx.fire(cname, "len raises %s" % type(e).__name__, repr(e))
  if len(b) < 16:
    ctx.fire(cname, "vendor message shorter than its header", b.hex())
    return b
  v, t, l, xid = struct.unpack_from("!BBHL", b, 0)
  vendor, subtype = struct.unpack_from("!LL", b, 8)
  if l != len(b):
    ctx.fire(cname, "header length field != byte count", "%d vs %d" % (l, len(b)))
  if t != 4 or vendor != NX_VENDOR or v != 1 or xid != m.xid:
    ctx.fire(cname, "vendor message header", b[:16].hex())
  if subtype != m.subtype:
    ctx.fire(cname, "vendor subtype", "%d vs %d" % (subtype, m.subtype))
  mk = getattr(m, "_pvm_kind", None)
  if mk is not None and subtype != SPEC_NXT[mk]:
    ctx.fire(cname, "vendor subtype is not the number nicira-ext.h gives it",
             "%d vs %d" % (subtype, SPEC_NXT[mk]))
  if mk in SMALL_MSG_BODY:
    try:
      want = SMALL_MSG_BODY[mk](m)
      ctx.rep.count("nx_message_bodies_compared")
      if b[16:] != want:
        ctx.fire(cname, "message body layout differs from nicira-ext.h",
                 "got %s, specified %s" % (b[16:].hex(), want.hex()))
    except Exception as e:
      ctx.fire(cname, "layout check could not read the object (%s)" % type(e).__name__, repr(e))
  ctx.rep.count("layout_compared")
  nx_layout(ctx, cname, m, b)
  pre = rbytes(rng, rng.choice([0, 8]))
  for suffix in (b"", rbytes(rng, 16)):
    try:
      o2 = type(m)()
      off, ln = o2.unpack(pre + b + suffix, len(pre))
    except Exception as e:
      tb = traceback.extract_tb(e.__traceback__)
      ctx.fire(cname, "unpack raises %s" % type(e).__name__,
               "%r at %s:%s" % (e, tb[-1].name, tb[-1].lineno))
      return b
    if off != len(pre) + len(b) or ln != len(b):
      ctx.fire(cname, "decode consumed wrong number of bytes",
               "consumed %d (reported length %d), message is %d" %
               (off - len(pre), ln, len(b)))
    try:
      if not (o2 == m) or (o2 != m):
        ctx.fire(cname, "decoded object not equal to original", b.hex()[:200])
    except Exception as e:
      ctx.fire(cname, "__eq__ raises %s" % type(e).__name__, repr(e))
    try:
      b2 = o2.pack()
      if b2 != b:
        ctx.fire(cname, "re-encoding differs", "%s vs %s" %
                 (b2.hex()[:200], b.hex()[:200]))
    except Exception as e:
      ctx.fire(cname, "re-pack raises %s" % type(e).__name__, repr(e))
  ctx.rep.count("roundtrips")
  table_decode(ctx, cname, m, b, rng)
  after_a_failure(ctx, cname, m, b, rng)
  return b


def roundtrip_action (ctx, a, rng):
  import pox.openflow.libopenflow_01 as of
  cname = type(a).__name__
  try:
    b = a.pack()
  except Exception as e:
    tb = traceback.extract_tb(e.__traceback__)
    ctx.fire(cname, "pack raises %s" % type(e).__name__,
             "%r at %s:%s" % (e, tb[-1].name, tb[-1].lineno))
    return None
  ctx.rep.count("objects")
  try:
    if len(a) != len(b):
      ctx.fire(cname, "len(obj) != len(pack())", "%d vs %d" % (len(a), len(b)))
  except Exception as e:
    ctx.fire(cname, "len raises %s" % type(e).__name__, repr(e))
  if len(b) < 10:
    ctx.fire(cname, "vendor action shorter than its header", b.hex()); return b
  t, l, vendor, subtype = struct.unpack_from("!HHLH", b, 0)
  if t != 0xffff or vendor != NX_VENDOR or l != len(b) or l % 8:
    ctx.fire(cname, "vendor action header",
             "type %x len %d (bytes %d) vendor %x" % (t, l, len(b), vendor))
  if subtype != a.subtype:
    ctx.fire(cname, "vendor action subtype", "%d vs %d" % (subtype, a.subtype))
  tag = getattr(a, "_pvm", None)
  if tag is not None:
    if subtype != SPEC_NXAST[tag[0]]:
      ctx.fire(cname, "vendor action subtype is not the number nicira-ext.h gives it",
               "%d vs %d" % (subtype, SPEC_NXAST[tag[0]]))
    if tag[1] is not None:
      want = spec_action_body(tag[0], tag[1])
      if want is not None:
        ctx.rep.count("nx_action_bodies_compared")
        if b[10:] != want:
          ctx.fire(cname, "action body layout differs from nicira-ext.h",
                   "got %s, specified %s" % (b[10:].hex(), want.hex()))
  ctx.rep.count("layout_compared")
  pre = rbytes(rng, rng.choice([0, 8]))
  for suffix in (b"", rbytes(rng, 8)):
    try:
      off, o2 = type(a).unpack_new(pre + b + suffix, len(pre))
    except Exception as e:
      tb = traceback.extract_tb(e.__traceback__)
      ctx.fire(cname, "unpack raises %s" % type(e).__name__,
               "%r at %s:%s" % (e, tb[-1].name, tb[-1].lineno))
      return b
    if off != len(pre) + len(b):
      ctx.fire(cname, "decode consumed wrong number of bytes",
               "%d vs %d" % (off - len(pre), len(b)))
    try:
      if not (o2 == a) or (o2 != a):
        ctx.fire(cname, "decoded object not equal to original", b.hex())
    except Exception as e:
      ctx.fire(cname, "__eq__ raises %s" % type(e).__name__, repr(e))
    try:
      b2 = o2.pack()
      if b2 != b:
        ctx.fire(cname, "re-encoding differs", "%s vs %s" % (b2.hex(), b.hex()))
    except Exception as e:
      ctx.fire(cname, "re-pack raises %s" % type(e).__name__, repr(e))
  ctx.rep.count("roundtrips")
  return b


def check_fm_table_id (ctx, rng):
  """
  ofp_flow_mod_table_id: an ordinary OFPT_FLOW_MOD whose command field carries
  the table id in its upper octet (NXT_FLOW_MOD_TABLE_ID extension).
  """
  from pvm.gen import ofgen
  from pvm.ref import ofwire
  n = nx()
  cname = "ofp_flow_mod_table_id"
  base = ofgen.gen_message(rng, "flow_mod")
  tid = rng.choice([0, 1, 3, 254, 255, rint(rng, 8)])
  cmd = rng.randrange(5)
  m = n.ofp_flow_mod_table_id(xid=base.xid, match=base.match, cookie=base.cookie,
                              command=cmd, idle_timeout=base.idle_timeout,
                              hard_timeout=base.hard_timeout, priority=base.priority,
                              buffer_id=base.buffer_id, out_port=base.out_port,
                              flags=base.flags, actions=base.actions, table_id=tid)
  try:
    b = m.pack()
  except Exception as e:
    ctx.fire(cname, "pack raises %s" % type(e).__name__, repr(e)); return None
  ctx.rep.count("objects")
  if m.command != cmd or m.table_id != tid:
    ctx.fire(cname, "encoding changed the object's own fields",
             "command %r table_id %r, asked for %r %r" % (m.command, m.table_id, cmd, tid))
  base.command = cmd | (tid << 8)
  try:
    name, f = ofgen.message_fields(base)
    exp = ofwire.enc_message(name, f)
    # (the wildcard normalisation of inapplicable fields is the library's)
    exp = exp[:8] + b[8:12] + exp[12:]
    ctx.rep.count("layout_compared")
    if exp != b:
      ctx.fire(cname, "layout differs (flow_mod with the table id above the command)",
               "got %s, specified %s" % (b[:72].hex(), exp[:72].hex()))
  except Exception as e:
    ctx.fire(cname, "reference encoder could not encode fields", repr(e))
  for suffix in (b"", rbytes(rng, 8)):
    try:
      m2 = n.ofp_flow_mod_table_id()
      r = m2.unpack(b + suffix, 0)
    except Exception as e:
      ctx.fire(cname, "unpack raises %s" % type(e).__name__, repr(e)); return b
    off = r[0] if isinstance(r, tuple) else r
    if off != len(b):
      ctx.fire(cname, "decode consumed wrong number of bytes", "%r vs %d" % (off, len(b)))
    try:
      if not (m2 == m) or (m2 != m) or not (m == m):
        ctx.fire(cname, "decoded object not equal to original",
                 "table_id %r/%r command %r/%r" % (m2.table_id, m.table_id, m2.command, m.command))
      m3 = n.ofp_flow_mod_table_id(); m3.unpack(b, 0); m3.table_id = (tid + 1) & 0xff
      if m3 == m:
        ctx.fire(cname, "objects with different table ids compare equal", "")
    except Exception as e:
      ctx.fire(cname, "__eq__ raises %s" % type(e).__name__, repr(e))
    try:
      if m2.pack() != b:
        ctx.fire(cname, "re-encoding differs", "")
    except Exception as e:
      ctx.fire(cname, "re-pack raises %s" % type(e).__name__, repr(e))
  ctx.rep.count("roundtrips")
  ctx.rep.count("flow_mods_with_table_id")
  after_a_failure(ctx, cname, m, b, rng)
  return b


def do_nx (ctx, kind, rng, case):
  n = nx()
  if kind.startswith("nxm:"):
    return check_nxm(ctx, rng, kind[4:], False)
  if kind.startswith("nxmm:"):
    return check_nxm(ctx, rng, kind[5:], True)
  if kind == "match":
    m = gen_nx_match(rng)
    b = m.pack()
    ctx.rep.count("objects")
    if len(b) != len(m):
      ctx.fire("nx_match", "len(obj) != len(pack())", "%d vs %d" % (len(m), len(b)))
    m2 = n.nx_match()
    try:
      off = m2.unpack(b"\0\0" + b + b"\xff" * 8, 2, len(b))
    except Exception as e:
      ctx.fire("nx_match", "unpack raises %s" % type(e).__name__, repr(e))
      return b
    if off != 2 + len(b):
      ctx.fire("nx_match", "decode consumed wrong number of bytes", str(off))
    if m2.pack() != b:
      ctx.fire("nx_match", "re-encoding differs", "%s vs %s" %
               (m2.pack().hex(), b.hex()))
    if not (m2 == m) and not case.get("_allones"):
      ctx.fire("nx_match", "decoded object not equal to original", b.hex())
    ctx.rep.count("roundtrips")
    return b
  if kind == "fm_table_id":
    return check_fm_table_id(ctx, rng)
  if kind.startswith("act:"):
    a = gen_action(rng, kind[4:])
    return roundtrip_action(ctx, a, rng)
  if kind.startswith("msg:"):
    m = gen_msg(rng, kind[4:])
    return roundtrip_message(ctx, m, rng,
                             "nx_flow_mod[with nx action]"
                             if kind[4:] == "nx_flow_mod_nxact" else None)
  raise KeyError(kind)
