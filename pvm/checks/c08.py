"""
C08 - component rendezvous fires each waiter exactly once, exactly when
ready; lifecycle events (going-up, up, going-down, down) once each, in order.

Fresh POXCore per history (no threads: the scheduler is built un-threaded
and driven by the harness when core._quit polls for it).  The monitor sits
inside every callback and around every public call.
"""
import itertools
import random
import threading
import traceback

ID = "C08"
LEVEL = "exploration"
RULE = ("a case is a history of register / call_when_ready / "
        "listen_to_dependencies (/ event emission) operations over up to 5 "
        "component names with callbacks that register further components, "
        "declare further interest or fail; or a lifecycle history of "
        "goUp/deferral/quit operations; small histories enumerated "
        "exhaustively (all permutations), longer drawn from VERIF_SEED; "
        "non-trivial = at least one waiter fired after a later registration "
        "or a deferral delayed Up; distinct = distinct history")
ASSUMPTIONS = ["re-registering an already registered name is not exercised",
               "concurrent quit() calls from several OS threads are outside "
               "the statement"]
REQUIRED = ["waiters_fired", "callbacks_failing_with_a_non_exception", "registrations_under_a_given_name_of_an_object_with_a_core_name", "histories_with_very_many_components", "dependency_handlers_that_are_not_methods", "sinks_that_are_modules", "fired_on_later_register", "fired_immediately",
            "chained_register", "callback_failed", "ltd_wired", "ltd_events",
            "lifecycles", "up_deferred", "quits", "quits_during_startup",
            "registrations_by_class_or_core_name", "rendezvous_histories_that_go_up",
            "callbacks_that_are_bound_methods", "declarations_using_the_defaults",
            "waiters_declared_twice", "dependencies_named_by_a_bare_string",
            "listen_args_used", "sinks_without_the_notification_method",
            "deferrals_through_the_event", "quit_from_inside_a_handler",
            "lifecycle_handlers_that_raise",
            "component_registered_events_halted",
            "component_registered_listeners_that_failed",
            "component_registered_announcements_compared"]
TIMEOUT = {"quick": 600, "thorough": 5400}

# (names with underscores, one of them extending another name: handler names
#  are _handle_<component>_<Event> and the component part must be taken whole)
NAMES = ["ca", "cb", "cc", "ca_x", "c_e"]
FALSY_NAMES = ("cb", "c_e")
CORE_ATTR_NAMES = ["scheduler", "version", "debug", "running", "components",
                   "banner", "version_string", "starting_up"]


def rename (x, mp):
  if isinstance(x, str): return mp.get(x, x)
  if isinstance(x, (list, tuple)): return type(x)(rename(y, mp) for y in x)
  return x


class Mon (object):
  def __init__ (self, rep, case):
    self.rep = rep; self.case = case
  def fire (self, key, what):
    self.rep.violation("C08 " + key, what, self.case)


def new_core ():
  import pox.core as PC
  import pox.lib.recoco.recoco as rc
  import io, contextlib
  rc.defaultScheduler = None
  Real = rc.Scheduler
  def factory (*a, **k):
    k["startInThread"] = False
    k["threaded_selecthub"] = False
    return Real(*a, **k)
  PC.recoco.Scheduler = factory
  try:
    with contextlib.redirect_stdout(io.StringIO()):
      c = PC.POXCore(threaded_selecthub=False, epoll_selecthub=False,
                     handle_signals=False)
  finally:
    PC.recoco.Scheduler = Real
  PC.core = c
  return c


def dispose_core (c):
  import pox.core as PC
  PC.core = None
  try:
    c.scheduler._hasQuit = True
  except Exception:
    pass


# --------------------------------------------------------------------------
# rendezvous histories

class Rdv (object):
  def __init__ (self, rep, case):
    import pox.lib.revent.revent as R
    self.R = R
    self.mon = Mon(rep, case)
    self.rep = rep
    self.case = case
    self.core = new_core()
    self.waiters = []
    self.sinks = []
    self.depth = 0
    self.registered = {}
    self.flags = set()
    class Ev (R.Event): pass
    self.Ev = Ev
    class Comp (R.EventMixin):
      _eventMixin_events = set([Ev])
    self.Comp = Comp
    class Plain (object): pass
    self.Plain = Plain
    # components whose truth value is False (an empty container-like object,
    # as core.topology or a registered dict are in stock POX): "registered"
    # is about the name, not about the object's truthiness
    class EmptyComp (Comp):
      def __len__ (self): return 0
    class EmptyPlain (Plain):
      def __len__ (self): return 0
    self.EmptyComp = EmptyComp
    self.EmptyPlain = EmptyPlain
    self.reg_clock = 0
    # other parties listening to the core's own ComponentRegistered event (as
    # some stock components do): a passive one, one that halts the event, one
    # whose handler fails.  What they do with the announcement is between
    # them; the waiters are owed their callbacks all the same.
    self.announced = []
    regl = case.get("regl")
    if regl:
      rep.count("histories_with_a_listener_on_component_registered")
      def on_registered (e):
        self.announced.append((e.name, e.component))
        if regl == "halts":
          rep.count("component_registered_events_halted")
          return R.EventHalt
        if regl == "raises":
          rep.count("component_registered_listeners_that_failed")
          raise RuntimeError("a ComponentRegistered handler fails")
      self.core.addListenerByName("ComponentRegistered", on_registered,
                                  priority=case.get("regl_prio", 0))

  def have (self, n):
    # (the monitor's own record of what was registered - asking the core
    #  would be asking the code under test)
    return n in self.registered or n == "core"

  def api (self, what, f):
    self.depth += 1
    try:
      f()
    except BaseException as e:
      self.mon.fire("%s raises %s" % (what, type(e).__name__),
                    traceback.format_exc()[-700:])
    finally:
      self.depth -= 1
    if self.depth == 0:
      self.check_immediate(what)

  def check_immediate (self, after):
    for w in self.waiters:
      if w["fired"] == 0 and w["declared"] and all(self.have(d) for d in w["deps"]):
        self.mon.fire("waiter not fired when ready",
                      "after %s returned: waiter %d deps=%r all registered but "
                      "callback not run" % (after, w["id"], w["deps"]))
        w["fired"] = -1000   # report once
    for s in self.sinks:
      if s["met"] is None: continue
      if s["met"] == 0 and all(self.have(d) for d in s["deps"]):
        self.mon.fire("dependency wiring not done when ready",
                      "after %s: sink deps=%r all registered but "
                      "_all_dependencies_met not called" % (after, s["deps"]))
        s["met"] = -1000

  def do_reg (self, name, kind):
    if name in self.registered: return
    if name in FALSY_NAMES:
      obj = self.EmptyComp() if kind == "events" else self.EmptyPlain()
      self.rep.count("falsy_components")
    else:
      obj = self.Comp() if kind == "events" else self.Plain()
    variant = (len(self.registered) + len(name) + self.case.get("rv", 0)) % 5
    if variant == 4:
      # an object written for registerNew (it carries a _core_name of its
      # own) registered under a name the caller chooses: the given name counts
      base = type(obj)
      obj = type("Named", (base,), {"_core_name": "some_other_name_%d" % len(self.registered)})()
      self.rep.count("registrations_under_a_given_name_of_an_object_with_a_core_name")
      variant = 0
    if variant in (1, 2, 3):
      # register(obj) names the component after the object's _core_name or
      # its class; registerNew(cls) creates the object itself
      base = type(obj)
      ns = {"_core_name": name} if variant == 1 else {}
      cls = type(name, (base,), ns)
      obj = cls()
      self.rep.count("registrations_by_class_or_core_name")
    self.registered[name] = obj
    self.reg_clock += 1
    if self.depth > 0:
      self.rep.count("chained_register"); self.flags.add("nt")
    if variant == 3:
      # (registerNew creates its own instance; what it registered is what it
      #  returns - until then the name stands for "being registered")
      made = []
      self.registered[name] = None
      self.api("registerNew", lambda: made.append(self.core.registerNew(cls)))
      obj = made[0] if made else None
      self.registered[name] = obj
      if obj is None or not isinstance(obj, cls):
        self.mon.fire("registerNew did not return the new component", repr(obj))
    elif variant in (1, 2):
      self.api("register", lambda: self.core.register(obj))
    else:
      self.api("register", lambda: self.core.register(name, obj))
    if not self.core.hasComponent(name):
      self.mon.fire("registered component not visible", name)
    try:
      # (a component whose name the core object uses itself is registered
      #  like any other, but the attribute of that name stays the core's own)
      if name not in CORE_ATTR_NAMES and getattr(self.core, name) is not obj:
        self.mon.fire("core attribute is not the component", name)
    except Exception as e:
      self.mon.fire("core attribute raises", "%s: %r" % (name, e))

  def do_cwr (self, deps, form, behaviour):
    w = dict(id=len(self.waiters), deps=list(deps), fired=0, declared=False,
             clock=self.reg_clock)
    self.waiters.append(w)
    noargs = (w["id"] % 5 == 3)
    w["decls"] = 1
    def cb (*a, **k):
      if (a, k) != (((), {}) if noargs else ((w["id"],), {"z": 1})):
        self.mon.fire("callback arguments", "%r %r" % (a, k))
      missing = [d for d in w["deps"] if not self.have(d)]
      if missing:
        self.mon.fire("callback before dependencies registered",
                      "waiter %d deps=%r ran while %r missing" %
                      (w["id"], w["deps"], missing))
      w["fired"] += 1
      if w["fired"] > w["decls"]:
        self.mon.fire("callback fired twice", "waiter %d deps=%r (declared %d "
                      "times, ran %d times)" % (w["id"], w["deps"], w["decls"], w["fired"]))
        return      # do not re-run the behaviour (would recurse without bound)
      if w["fired"] > 1:
        return      # a second declaration of the same waiter: counted, not re-scripted
      self.rep.count("waiters_fired")
      if self.reg_clock > w["clock"]:
        self.rep.count("fired_on_later_register"); self.flags.add("nt")
      else:
        self.rep.count("fired_immediately")
      self.depth += 1
      try:
        for act in behaviour:
          if act[0] == "reg": self.do_reg(act[1], act[2])
          elif act[0] == "cwr": self.do_cwr(act[1], "list", act[2])
          elif act[0] == "raise":
            self.rep.count("callback_failed")
            # (a failure is a failure: also one that is no Exception - a
            #  callback that calls sys.exit(), a generator being closed)
            k_ = (w["id"] + len(self.registered)) % 5
            if k_ == 3:
              self.rep.count("callbacks_failing_with_a_non_exception")
              raise (SystemExit(3), GeneratorExit(), KeyboardInterrupt())[(w["id"] // 5) % 3]
            raise RuntimeError("scripted callback failure")
      finally:
        self.depth -= 1
    cb.__name__ = "cb%d" % w["id"]
    d = list(deps)
    if form == "set": d = set(d)
    elif form == "tuple": d = tuple(d)
    elif form == "str" and len(d) == 1: d = d[0]
    w["declared"] = True
    # the callback as a plain function, a functools.partial, or an object with
    # __call__ (the latter two have no __name__ and no source location)
    shape = w["id"] % 6
    call = cb; kwn = {}
    if shape == 4:
      # a bound method, named by the core after its object's class
      class Owner (object):
        def when_ready (self_, *a, **k): return cb(*a, **k)
      w["owner"] = Owner()
      call = w["owner"].when_ready
      self.rep.count("callbacks_that_are_bound_methods")
    if shape == 1:
      import functools
      call = functools.partial(cb); kwn = dict(name="partial%d" % w["id"])
      self.rep.count("callbacks_without_source")
    elif shape == 2:
      class Callable (object):
        def __call__ (self_, *a, **k): return cb(*a, **k)
      call = Callable(); kwn = dict(name="callable%d" % w["id"])
      self.rep.count("callbacks_without_source")
    def declare ():
      if noargs:
        # the defaults: no arguments for the callback; with nothing to wait
        # for, no component list either
        self.rep.count("declarations_using_the_defaults")
        if not deps and w["id"] % 2: self.core.call_when_ready(call, **kwn)
        else: self.core.call_when_ready(call, d, **kwn)
      else:
        self.core.call_when_ready(call, d, args=(w["id"],), kw={"z": 1}, **kwn)
    w["callable"] = call
    w["shape"] = shape
    self.api("call_when_ready", declare)
    # the caller goes on using its list for something else: what the waiter
    # waits for is what was named at the time of the call
    if isinstance(d, list):
      if w["id"] % 2: d.append("never_registered_%d" % w["id"])
      else: del d[:]
      self.rep.count("dependency_lists_mutated_after_declaring")

  def do_redeclare (self, idx):
    """The very same waiter (same callable, components, arguments) declared a
    second time: two declarations, two runs."""
    if not self.waiters: return
    w = self.waiters[idx % len(self.waiters)]
    if w["decls"] > 1 or w["fired"] < 0: return
    if any(isinstance(x, str) and x.startswith("never_registered") for x in w["deps"]):
      return
    w["decls"] += 1
    self.rep.count("waiters_declared_twice")
    # (the dependency list the first call used was mutated afterwards by the
    #  harness; rebuild what it named)
    deps = list(w["deps"])
    call_args = {}
    try:
      self._redeclare(w, deps)
    except Exception:
      pass

  def _redeclare (self, w, deps):
    def again ():
      kwn = {}
      if w["shape"] in (1, 2): kwn = dict(name="again%d" % w["id"])
      call = w.get("callable")
      if w["id"] % 5 == 3:
        self.core.call_when_ready(call, deps, **kwn)
      else:
        self.core.call_when_ready(call, deps, args=(w["id"],), kw={"z": 1}, **kwn)
    self.api("call_when_ready", again)

  def do_ltd (self, comps, extra, attrs):
    rdv = self
    s = dict(deps=sorted(set(comps) | set(extra)), met=0, calls={}, comps=comps)
    self.sinks.append(s)
    ns = {}
    inst = {}
    # what a handler may be: a method, a static method, a function or a
    # partial or a callable object stored on the instance - anything callable
    # under the right name is a handler (and names a dependency); every
    # seventh sink is no object of a class at all but a module with functions
    modsink = (len(self.sinks) % 7 == 6)
    for ci, c in enumerate(comps):
      def mk (c):
        def h (self_, event):
          s["calls"][c] = s["calls"].get(c, 0) + 1
        return h
      def mk1 (c):
        def h (event):
          s["calls"][c] = s["calls"].get(c, 0) + 1
        return h
      shape = (len(self.sinks) * 3 + ci) % 6 if not modsink else 2
      if shape in (0, 5): ns["_handle_%s_Ev" % c] = mk(c)
      elif shape == 1: ns["_handle_%s_Ev" % c] = staticmethod(mk1(c))
      elif shape == 2: inst["_handle_%s_Ev" % c] = mk1(c)
      elif shape == 3:
        import functools
        inst["_handle_%s_Ev" % c] = functools.partial(lambda tag, event, f=mk1(c): f(event), "x")
      else:
        class _Callable (object):
          def __init__ (self, f): self.f = f
          def __call__ (self, event): return self.f(event)
        inst["_handle_%s_Ev" % c] = _Callable(mk1(c))
      if shape not in (0, 5): self.rep.count("dependency_handlers_that_are_not_methods")
    def met (self_=None):
      missing = [d for d in s["deps"] if not rdv.have(d)]
      if missing:
        rdv.mon.fire("dependencies-met before dependencies registered",
                     "deps=%r missing=%r" % (s["deps"], missing))
      s["met"] += 1
      if s["met"] > 1:
        rdv.mon.fire("dependencies-met called twice", repr(s["deps"]))
      rdv.rep.count("ltd_wired")
      if rdv.reg_clock > s["clock"]: rdv.flags.add("nt")
    variant = len(self.sinks) % 5
    if variant != 4:
      ns["_all_dependencies_met"] = met
    else:
      # a sink without the notification method: the wiring is judged by the
      # events alone
      s["met"] = None
      self.rep.count("sinks_without_the_notification_method")
    if modsink:
      import types
      sink = types.ModuleType("sinkmod%d" % len(self.sinks))
      if "_all_dependencies_met" in ns: inst["_all_dependencies_met"] = lambda: met()
      self.rep.count("sinks_that_are_modules")
    else:
      Sink = type("Sink%d" % len(self.sinks), (object,), ns)
      sink = Sink()
    for k, v in inst.items(): setattr(sink, k, v)
    s["sink"] = sink
    s["attrs"] = attrs
    s["clock"] = self.reg_clock
    kw = {}
    if extra: kw["components"] = list(extra)
    if len(extra) == 1 and variant in (1, 3):
      kw["components"] = extra[0]          # a single name as a bare string
      self.rep.count("dependencies_named_by_a_bare_string")
    if variant == 2 and comps:
      # per-component listen arguments (the prefix must survive them)
      kw["listen_args"] = {comps[0]: {"priority": 5}}
      self.rep.count("listen_args_used")
    if variant == 3:
      kw["short_attrs"] = True
      s["short"] = True
    if not attrs: kw["attrs"] = False
    self.api("listen_to_dependencies",
             lambda: self.core.listen_to_dependencies(sink, **kw))

  def do_emit (self, name):
    obj = self.registered.get(name)
    if obj is None or not isinstance(obj, self.Comp): return
    before = [(s, dict(s["calls"])) for s in self.sinks]
    try:
      obj.raiseEvent(self.Ev())
    except Exception as e:
      self.mon.fire("emit raises", repr(e))
    for s, b in before:
      if s["met"] is None:
        wired = all(self.have(d) for d in s["deps"])
      else:
        wired = s["met"] >= 1
      for c in s["comps"]:
        delta = s["calls"].get(c, 0) - b.get(c, 0)
        exp = 1 if (wired and c == name) else 0
        if delta != exp:
          self.mon.fire("dependency listener invoked %s" %
                        ("more than once" if delta > exp else "not at all"),
                        "event on %s: sink %d (deps %r) handler for %s ran %d times, "
                        "expected %d (wired=%r)" % (name, self.sinks.index(s), s["deps"], c, delta, exp, wired))
        elif exp:
          self.rep.count("ltd_events")

  def finish (self):
    for n in list(self.registered):
      self.do_emit(n)
    for w in self.waiters:
      ready = all(self.have(d) for d in w["deps"])
      if w["fired"] in (-1000,): continue
      if ready and w["fired"] != w.get("decls", 1):
        self.mon.fire("waiter fired %d times at end" % w["fired"],
                      "waiter %d deps=%r" % (w["id"], w["deps"]))
      if not ready and w["fired"] != 0:
        self.mon.fire("waiter fired without dependencies", repr(w))
    for s in self.sinks:
      if s["met"] is not None and s["met"] >= 1 and s["attrs"]:
        for c in s["deps"]:
          an = c if s.get("short") else "_%s_" % c
          if getattr(s["sink"], an, None) is not self.registered.get(c):
            self.mon.fire("dependency attribute not set", c)
    if self.case.get("regl"):
      # every registration was announced once, with its name and component
      self.rep.count("component_registered_announcements_compared")
      got = [(n, id(c)) for n, c in self.announced]
      exp = [(n, id(c)) for n, c in self.registered.items()]
      if sorted(got) != sorted(exp):
        self.mon.fire("registrations and ComponentRegistered events differ",
                      "announced %r, registered %r" %
                      ([n for n, _ in got], [n for n, _ in exp]))
    dispose_core(self.core)


def run_rdv (case, rep):
  r = Rdv(rep, case)
  for op in case["ops"]:
    if op[0] == "reg": r.do_reg(op[1], op[2])
    elif op[0] == "cwr": r.do_cwr(op[1], op[2], op[3])
    elif op[0] == "ltd": r.do_ltd(op[1], op[2], op[3])
    elif op[0] == "emit": r.do_emit(op[1])
    elif op[0] == "redeclare": r.do_redeclare(op[1])
    elif op[0] == "goup" and not getattr(r, "up", False):
      # the system comes up in the middle of the history: components keep
      # registering, interest keeps being declared
      r.up = True
      rep.count("rendezvous_histories_that_go_up")
      r.api("goUp", r.core.goUp)
  r.finish()
  return bool(r.flags)


# --------------------------------------------------------------------------
# lifecycle histories

class TimeShim (object):
  """Stands in for the `time` module inside pox.core: sleeping drives the
  (un-threaded) scheduler so that core._quit's polling loop makes progress."""
  def __init__ (self, real, core):
    self._real = real; self._core = core
  def __getattr__ (self, n):
    return getattr(self._real, n)
  def sleep (self, t):
    import select
    sched = self._core.scheduler
    hub = sched._selectHub
    hub._select_func = lambda r, w, x, to: select.select(r, w, x, 0)
    for _ in range(12):
      if sched._hasQuit: break
      if not sched._ready:
        hub._select(hub._tasks, {})
      sched.cycle()
    if sched._hasQuit and not sched._allDone:
      sched._allDone = True


def run_life (case, rep):
  import pox.core as PC
  mon = Mon(rep, case)
  core = new_core()
  real_time = PC.time
  PC.time = TimeShim(real_time, core)
  log = []
  defs = {}
  lock = threading.Lock()
  state = dict(goup_returned=False)
  gu_script = case.get("goingup", [])

  def on (evname):
    def h (e):
      with lock: log.append(evname)
      if evname in ("GoingDown", "Down", "Up"):
        for act in case.get("on_" + evname, []):
          if act[0] == "quit":
            # a handler asks for shutdown itself (again)
            rep.count("quit_from_inside_a_handler")
            core.quit()
          elif act[0] == "raise":
            rep.count("lifecycle_handlers_that_raise")
            raise RuntimeError("scripted %s failure" % evname)
      if evname == "GoingUp":
        for act in gu_script:
          if act[0] == "defer":
            # the documented way to get a deferral is from the event
            if act[1] % 2 == 0:
              defs[act[1]] = e.get_deferral()
              rep.count("deferrals_through_the_event")
            else:
              defs[act[1]] = core._get_go_up_deferral()
          elif act[0] == "release":
            d = defs.pop(act[1], None)
            if d is not None: d()
          elif act[0] == "raise":
            raise RuntimeError("scripted GoingUp failure")
    return h
  core.addListener(PC.GoingUpEvent, on("GoingUp"))
  core.addListener(PC.UpEvent, on("Up"))
  core.addListener(PC.GoingDownEvent, on("GoingDown"))
  core.addListener(PC.DownEvent, on("Down"))
  gu2 = case.get("goingup2")
  if gu2:
    def h2 (e):
      for act in gu2:
        if act[0] == "defer": defs[act[1]] = core._get_go_up_deferral()
        elif act[0] == "release":
          d = defs.pop(act[1], None)
          if d is not None: d()
    core.addListener(PC.GoingUpEvent, h2)
  outstanding = set()
  went_up = False
  quit_done = False
  threads_before = set(threading.enumerate())
  try:
    for op in case["ops"]:
      if op[0] == "defer":
        with lock: up_already = "Up" in log
        if up_already:
          continue      # a deferral obtained after Up cannot defer anything
        defs[op[1]] = core._get_go_up_deferral(); outstanding.add(op[1])
      elif op[0] == "release":
        d = defs.pop(op[1], None)
        if d is not None:
          d()
          # a second release of the same deferral is rejected
          try:
            d()
            mon.fire("deferral released twice accepted", repr(op))
          except RuntimeError:
            pass
      elif op[0] == "goup":
        if went_up: continue
        went_up = True
        try:
          core.goUp()
        except RuntimeError as e:
          if "scripted" not in str(e):
            mon.fire("goUp raises", traceback.format_exc()[-500:])
        rep.count("lifecycles")
      elif op[0] == "early_quit":
        # quit() while the system is still starting up (a component's launch
        # function decides that there is nothing to do): it takes effect once
        # the system is up - going-down and down are still owed, once
        if went_up or quit_done: continue
        try:
          core.quit()
        except RuntimeError as e:
          if "scripted" not in str(e):
            mon.fire("quit raises", traceback.format_exc()[-500:])
        rep.count("quits_during_startup")
        quit_done = True
      elif op[0] == "quit":
        if not went_up: continue
        try:
          core.quit()
        except RuntimeError as e:
          if "scripted" not in str(e):
            mon.fire("quit raises", traceback.format_exc()[-500:])
        rep.count("quits")
        quit_done = True
      # --- invariants after every step
      with lock: snap = list(log)
      pending = len(defs)
      if snap.count("GoingUp") > 1:
        mon.fire("going-up raised twice", repr(snap))
      if snap.count("Up") > 1:
        mon.fire("up raised twice", repr(snap))
      if "Up" in snap and "GoingUp" not in snap[:snap.index("Up")]:
        mon.fire("up before going-up", repr(snap))
      gu_failed = any(a[0] == "raise" for a in gu_script)
      if went_up and not gu_failed:
        if pending and "Up" in snap and not quit_done:
          # Up while a deferral is outstanding
          mon.fire("up raised with deferral outstanding",
                   "log=%r outstanding=%r" % (snap, sorted(defs)))
        if not pending and "Up" not in snap:
          mon.fire("up not raised after last deferral released",
                   "log=%r" % (snap,))
      if not went_up and ("GoingUp" in snap or "Up" in snap):
        mon.fire("lifecycle event before goUp", repr(snap))
    if went_up and any(x[0] == "defer" for x in case["ops"] + gu_script
                       + (gu2 or [])):
      rep.count("up_deferred")
    # wait for quit threads (quit() may run _quit on its own thread)
    t_end = real_time.time() + 15
    while real_time.time() < t_end:
      # (a quit that waits for the end of start-up passes itself on from
      #  thread to thread)
      new = [t for t in threading.enumerate()
             if t not in threads_before and t is not threading.current_thread()]
      if not new: break
      for t in new: t.join(1)
    with lock: snap = list(log)
    if quit_done:
      if snap.count("GoingDown") != 1 or snap.count("Down") != 1:
        mon.fire("going-down/down not exactly once",
                 "log=%r ops=%r" % (snap, case["ops"]))
      elif snap.index("GoingDown") > snap.index("Down"):
        mon.fire("down before going-down", repr(snap))
    else:
      if "GoingDown" in snap or "Down" in snap:
        mon.fire("down events without quit", repr(snap))
  finally:
    PC.time = real_time
    dispose_core(core)
  return any(x[0] == "defer" for x in case["ops"] + gu_script + (gu2 or []))


def do_case (case, rep):
  try:
    if case["kind"] == "rdv": nt = run_rdv(case, rep)
    else: nt = run_life(case, rep)
  except Exception:
    rep.violation("C08 harness-visible exception",
                  traceback.format_exc()[-1200:], case)
    nt = True
  rep.case(repr(case), nontrivial=nt)


# --------------------------------------------------------------------------
# generators

def gen_rdv_exhaustive (shard, nshards, big):
  """All orders of a pool of operations over 3 components."""
  beh = [[], [["reg", "cc", "events"]], [["raise"]],
         [["reg", "cc", "plain"], ["raise"]], [["cwr", ["cb"], []]]]
  pools = []
  depsets = [["ca"], ["ca", "cb"], ["cb", "cc"], ["ca", "cb", "cc"], []]
  for d1 in depsets:
    for b1 in beh:
      for d2 in depsets[:4]:
        pool = [["reg", "ca", "events"], ["reg", "cb", "plain"],
                ["cwr", d1, "list", b1], ["cwr", d2, "set", []]]
        if big:
          pool.append(["ltd", ["ca", "cc"], ["cb"], True])
          pool.append(["reg", "cc", "events"])
        else:
          pool.append(["ltd", ["ca"], ["cb"], True])
        pools.append(pool)
  i = 0
  for pool in pools:
    for perm in itertools.permutations(pool):
      i += 1
      if i % nshards != shard: continue
      yield dict(kind="rdv", ops=[list(x) for x in perm])


def rand_behaviour (rng, depth):
  out = []
  for _ in range(rng.choice([0, 0, 1, 1, 2])):
    r = rng.random()
    if r < 0.5:
      out.append(["reg", rng.choice(NAMES), rng.choice(["events", "plain"])])
    elif r < 0.8 and depth < 2:
      out.append(["cwr", rng.sample(NAMES, rng.randrange(0, 4)),
                  rand_behaviour(rng, depth + 1)])
    else:
      out.append(["raise"])
      break
  return out


def gen_rdv_random (rng, n):
  for _ in range(n):
    ops = []
    for _ in range(rng.randrange(3, 14)):
      r = rng.random()
      if r < 0.4:
        ops.append(["reg", rng.choice(NAMES), rng.choice(["events", "plain"])])
      elif r < 0.75:
        deps = rng.sample(NAMES, rng.randrange(0, 5))
        form = rng.choice(["list", "set", "tuple", "str"])
        ops.append(["cwr", deps, form, rand_behaviour(rng, 0)])
      elif r < 0.9:
        comps = rng.sample(NAMES, rng.randrange(1, 4))
        extra = rng.sample(NAMES, rng.randrange(0, 3))
        ops.append(["ltd", comps, extra, rng.random() < 0.8])
      elif r < 0.96:
        ops.append(["emit", rng.choice(NAMES)])
      else:
        ops.append(["redeclare", rng.randrange(8)])
    if rng.random() < 0.4:
      ops.insert(rng.randrange(len(ops) + 1), ["goup"])
    if rng.random() < 0.3:
      # component names that are also names of attributes, properties or
      # methods of the core object itself (they are names like any other)
      mp = dict(zip(rng.sample(["ca", "cc", "ca_x"], 2),
                    rng.sample(CORE_ATTR_NAMES, 2)))
      # (listener wiring goes through the attribute of that name, which for
      #  these names is not the component: callbacks only)
      ops = rename([o for o in ops if o[0] not in ("ltd", "emit")], mp)
      if not ops: ops = [["reg", "cb", "plain"]]
    c = dict(kind="rdv", ops=ops, rv=rng.randrange(4))
    r = rng.random()
    if r < 0.3:
      c["regl"] = rng.choice(["passive", "halts", "raises"])
      c["regl_prio"] = rng.choice([0, 0, 1000000, -1000000])
    yield c


def gen_rdv_mass (rng, sizes):
  """Hundreds of components and of callbacks waiting for them (a controller
  with many small modules): everything is declared first, then the
  components arrive in no particular order, a few more waiters afterwards."""
  for n in sizes:
    names = ["m%d" % i for i in range(n)]
    ops = []
    for i in range(n):
      deps = [names[i]] + rng.sample(names, rng.randrange(0, 3))
      ops.append(["cwr", deps, rng.choice(["list", "set", "tuple"]), rand_behaviour(rng, 0)])
    order = list(names); rng.shuffle(order)
    for k, nm in enumerate(order):
      ops.append(["reg", nm, "plain"])
      if k % 50 == 7:
        ops.append(["cwr", rng.sample(names, 2), "list", rand_behaviour(rng, 0)])
    for _ in range(10):
      ops.append(["cwr", rng.sample(names, rng.randrange(0, 4)), "list", rand_behaviour(rng, 0)])
    yield dict(kind="rdv", ops=ops, rv=0, mass=n)


def gen_life (rng, n):
  # enumerated core set
  base = []
  for k in range(0, 3):
    ids = list(range(k))
    pool = [["defer", i] for i in ids] + [["release", i] for i in ids] \
           + [["goup"]]
    for perm in itertools.permutations(pool):
      # a release must follow its defer
      ok = True
      for i in ids:
        if perm.index(("defer", i) if False else ["defer", i]) > perm.index(["release", i]):
          ok = False
      if ok:
        base.append([list(x) for x in perm])
  gus = [[], [["defer", 10], ["release", 10]], [["defer", 10]],
         [["defer", 10], ["defer", 11], ["release", 11], ["release", 10]],
         [["raise"]]]
  for ops in base:
    for gu in gus:
      o = list(ops)
      if any(a == ["defer", 10] for a in gu) and ["release", 10] not in gu:
        o = o + [["release", 10]]
      for q in (0, 1, 2):
        yield dict(kind="life", ops=o + [["quit"]] * q, goingup=gu)
  for _ in range(n):
    ids = list(range(rng.randrange(0, 4)))
    seq = [["goup"]]
    for i in ids:
      a = rng.randrange(0, len(seq) + 1); seq.insert(a, ["defer", i])
      b = rng.randrange(a + 1, len(seq) + 1); seq.insert(b, ["release", i])
    gu = rng.choice(gus)
    if any(a == ["defer", 10] for a in gu) and ["release", 10] not in gu:
      seq.append(["release", 10])
    gu2 = rng.choice([None, [["defer", 20], ["release", 20]], [["defer", 20]]])
    extra = {}
    r = rng.random()
    if r < 0.15: extra["on_GoingDown"] = [["quit"]]
    elif r < 0.25: extra["on_Down"] = [["quit"]]
    elif r < 0.35: extra["on_GoingDown"] = [["raise"]]
    elif r < 0.40: extra["on_Up"] = [["quit"]]
    if gu2 and ["release", 20] not in gu2: seq.append(["release", 20])
    seq += [["quit"]] * rng.choice([0, 1, 1, 2, 3])
    if rng.random() < 0.15 and not any(a[0] == "raise" for a in gu):
      seq.insert(seq.index(["goup"]), ["early_quit"])
    d = dict(kind="life", ops=seq, goingup=gu)
    d.update(extra)
    if "on_Up" in extra and ["quit"] not in seq: seq.append(["quit"])
    if gu2: d["goingup2"] = gu2
    yield d


def plan (tier, seed):
  if tier == "quick":
    sp = [dict(mode="exh", shard=i, nshards=6, big=False) for i in range(6)]
    sp += [dict(mode="rand", n=2500, sub=i) for i in range(6)]
    sp += [dict(mode="life", n=150, sub=i) for i in range(3)]
    sp += [dict(mode="mass", sizes=[40, 70, 300], sub=0), dict(mode="mass", sizes=[600], sub=1)]
    return sp
  sp = [dict(mode="exh", shard=i, nshards=4, big=False) for i in range(4)]
  sp += [dict(mode="exh", shard=i, nshards=32, big=True) for i in range(32)]
  sp += [dict(mode="rand", n=150000, sub=i) for i in range(32)]
  sp += [dict(mode="life", n=6000, sub=i) for i in range(16)]
  sp += [dict(mode="mass", sizes=[k], sub=k) for k in (65, 130, 260, 520, 1030, 2060)]
  return sp


def run (spec, rep):
  rng = random.Random("c08/%d/%s/%d" % (spec["seed"], spec["mode"],
                                         spec.get("sub", spec.get("shard", 0))))
  if spec["mode"] == "exh":
    g = gen_rdv_exhaustive(spec["shard"], spec["nshards"], spec["big"])
  elif spec["mode"] == "rand":
    g = gen_rdv_random(rng, spec["n"])
  elif spec["mode"] == "mass":
    g = gen_rdv_mass(rng, spec["sizes"])
  else:
    g = gen_life(rng, spec["n"])
    if spec.get("sub", 0) > 0:
      g = (c for i, c in enumerate(g) if i >= 0)
  first = True
  for case in g:
    if case.get("mass"):
      rep.count("histories_with_very_many_components")
      rep.maxi("components_in_one_history", case["mass"])
    do_case(case, rep)
    if first: rep.sample(case); first = False


def replay (witness, rep):
  do_case(witness, rep)
