"""
C17 - the controller's picture of switch ports and multipart statistics is
exact.

A real of_01.Connection is taken through the real handshake by a scripted
peer, then fed port-status and statistics-reply bytes (independent encoder).
After every message the per-connection port view is read through its
mapping API and compared with a dict model; statistics events are compared
with "one event per request, after the final part, all parts in order".
"""
import random
import struct
import traceback

from pvm import ctl
from pvm.ref import ofwire

ID = "C17"
LEVEL = "exploration"
RULE = ("ports: a features reply with 0..4 ports followed by up to 12 "
        "port-status notifications over 4 port numbers (add / modify incl. "
        "rename and hardware-address change / delete / re-add); stats: one "
        "or two requests' replies of each multipart-capable type split into "
        "1..6 parts, sequential or interleaved, with other messages in "
        "between; non-trivial = a port was renamed/deleted/re-added, or a "
        "reply had more than one part; distinct = distinct history")
ASSUMPTIONS = ["port names and hardware addresses are unique among the ports "
               "that exist at the same time",
               "a statistics reply whose final part never arrives is simply "
               "never announced"]
REQUIRED = ["listeners_attached_while_a_reply_is_under_way", "replies_of_very_many_parts", "port_status_in_one_read_with_the_end_of_the_handshake", "port_status_for_a_port_a_reply_under_way_reports_on", "port_histories", "views_compared", "renames", "deletes",
            "readds", "stale_name_lookups", "stats_histories",
            "multipart_events", "interleaved_histories", "sequential_pairs",
            "features_refreshes", "early_port_status",
            "other_messages_sharing_a_request_xid", "views_read_inside_the_handler",
            "nexus_level_stats_events_compared", "port_views_of_two_connections_compared",
            "parts_on_a_second_connection", "raw_replies_halted_on_the_nexus",
            "raw_reply_handlers_that_failed",
            "handshakes_completed_by_a_refused_barrier"]
TIMEOUT = {"quick": 900, "thorough": 7200}

REASON_ADD, REASON_DELETE, REASON_MODIFY = 0, 1, 2


def names_of (model):
  return {p["name"]: n for n, p in model.items()}


def check_view (fire, rep, view, model, what, former_names, former_hw):
  from pox.lib.addresses import EthAddr
  rep.count("views_compared")
  try:
    keys = sorted(view.keys())
    if keys != sorted(model):
      fire("%s keys differ" % what, "view %r model %r" % (keys, sorted(model)))
      return False
    if len(view) != len(model):
      fire("%s len differs" % what, "%d vs %d" % (len(view), len(model)))
      return False
    if sorted(iter(view)) != sorted(model):
      fire("%s iteration differs" % what, ""); return False
    def tup (q): return (q.port_no, q.name, q.hw_addr.toRaw(), q.config, q.state)
    want = sorted((n, p["name"], p["hw_addr"], p["config"], p["state"])
                  for n, p in model.items())
    coll = [("values()", lambda: sorted(tup(q) for q in view.values())),
            ("items()", lambda: sorted(tup(v) for k, v in view.items())),
            ("items() keys", lambda: sorted((k,) + tup(v)[1:] for k, v in view.items()))]
    for nm_ in ("itervalues", "iteritems", "iterkeys"):
      f_ = getattr(view, nm_, None)
      if f_ is None: continue
      if nm_ == "itervalues": coll.append(("itervalues()", lambda f_=f_: sorted(tup(q) for q in f_())))
      elif nm_ == "iteritems": coll.append(("iteritems()", lambda f_=f_: sorted(tup(v) for k, v in f_())))
      else: coll.append(("iterkeys()", lambda f_=f_: [(k,) + w[1:] for k, w in zip(sorted(f_()), want)]))
    for cn, f_ in coll:
      got_ = f_()
      if got_ != want:
        fire("%s %s returns other/stale port data" % (what, cn),
             "got %r, model %r" % (got_[:3], want[:3])); return False
    hk = getattr(view, "has_key", None)
    if hk is not None:
      for n, p in model.items():
        if not hk(n) or not hk(p["name"]):
          fire("%s has_key fails for an existing port" % what, repr(n)); return False
      if hk(9999) or hk("no-such-port"):
        fire("%s has_key finds an absent port" % what, ""); return False
    for n, p in model.items():
      for key, kind in ((n, "number"), (p["name"], "name"),
                        (EthAddr(p["hw_addr"]), "hw_addr")):
        if key not in view:
          fire("%s membership by %s fails for an existing port" % (what, kind),
               repr(key)); return False
        q = view[key]
        if (q.port_no, q.name, q.hw_addr.toRaw(), q.config, q.state) != \
           (n, p["name"], p["hw_addr"], p["config"], p["state"]):
          fire("%s lookup by %s returns other/stale port data" % (what, kind),
               "key %r -> port_no %d name %r hw %s config %d; model %r" %
               (key, q.port_no, q.name, q.hw_addr, q.config, p)); return False
        if view.get(key) is None:
          fire("%s get() by %s fails" % (what, kind), repr(key)); return False
    cur_names = set(p["name"] for p in model.values())
    cur_hw = set(p["hw_addr"] for p in model.values())
    for nm in former_names - cur_names:
      rep.count("stale_name_lookups")
      if nm in view or view.get(nm) is not None:
        fire("%s lookup by a former name still succeeds" % what,
             "name %r resolves to port %r" % (nm, view.get(nm))); return False
    for hw in former_hw - cur_hw:
      if EthAddr(hw) in view:
        fire("%s lookup by a former hardware address still succeeds" % what,
             hw.hex()); return False
    for n in (1, 2, 3, 4, 9):
      if n not in model and (n in view or view.get(n) is not None):
        fire("%s absent port number is found" % what, str(n)); return False
  except Exception:
    fire("%s mapping API raises" % what, traceback.format_exc()[-600:])
    return False
  return True


REASON_FEATURES = 100


def run_ports (case, rep):
  core, of_01 = ctl.boot_controller()
  def fire (key, what):
    rep.violation("C17 ports: " + key, what, case)
  rep.count("port_histories")
  peer = ctl.Peer(of_01)
  initial = [ctl.phy_port(n, name=nm, hw=hw) for n, nm, hw in case["initial"]]
  # port-status messages that arrive during the handshake (after the features
  # reply, before the barrier reply) are part of "the notifications applied in
  # order" just as the later ones are
  early_raw = b""
  for (reason, n, nm, hw, cfg) in case.get("early", []):
    early_raw += ofwire.enc_message("port_status", dict(
      xid=0, reason=reason, desc=ctl.phy_port(n, name=nm, hw=hw, config=cfg,
                                              state=1 if cfg & 1 else 0)))
  # (a switch without barrier support ends the handshake with an error for
  #  the barrier request: the early notifications are owed on that path too)
  # ... and so are the ones that sit behind the handshake-completing answer in
  # the very same read
  late_raw = b""
  for (reason, n, nm, hw, cfg) in case.get("glued", []):
    late_raw += ofwire.enc_message("port_status", dict(
      xid=0, reason=reason, desc=ctl.phy_port(n, name=nm, hw=hw, config=cfg,
                                              state=1 if cfg & 1 else 0)))
  if late_raw: rep.count("port_status_in_one_read_with_the_end_of_the_handshake")
  peer.handshake(case["dpid"], initial, early=early_raw, late=late_raw,
                 barrier="error" if case.get("barrier_refused") else "reply")
  if case.get("barrier_refused"): rep.count("handshakes_completed_by_a_refused_barrier")
  con = peer.con
  original = {p["port_no"]: dict(p) for p in initial}
  model = {p["port_no"]: dict(p) for p in initial}
  former_names = set(); former_hw = set()
  nt = False
  for (reason, n, nm, hw, cfg) in list(case.get("early", [])) + list(case.get("glued", [])):
    rep.count("early_port_status"); nt = True
    if reason == REASON_DELETE:
      if n in model:
        former_names.add(model[n]["name"]); former_hw.add(model[n]["hw_addr"])
        del model[n]
    else:
      if n in model:
        if model[n]["name"] != nm: former_names.add(model[n]["name"])
        if model[n]["hw_addr"] != hw: former_hw.add(model[n]["hw_addr"])
      model[n] = ctl.phy_port(n, name=nm, hw=hw, config=cfg,
                              state=1 if cfg & 1 else 0)
  former_names -= set(p["name"] for p in model.values())
  former_hw -= set(p["hw_addr"] for p in model.values())
  if not check_view(fire, rep, con.ports, model, "current view",
                    former_names, former_hw):
    return True
  # another switch with the very same initial ports: nothing that happens on
  # the first connection shows in its view (and the other way round)
  other = None
  if case.get("second_connection"):
    other = ctl.Peer(of_01)
    other.handshake((case["dpid"] + 7) & ((1 << 64) - 1) or 7, initial)
    other_model = {p["port_no"]: dict(p) for p in initial}
  events = []
  inside = []
  def on_ps (e):
    events.append((e.ofp.reason, e.ofp.desc.port_no))
    # what a handler sees when it looks at the connection's ports while the
    # notification is being announced: the view with the notification applied
    try:
      v = e.connection.ports
      n_ = e.ofp.desc.port_no
      inside.append((sorted(v.keys()), (v[n_].name, v[n_].config) if n_ in v else None))
    except Exception as ex:
      inside.append(("raises", repr(ex)))
  con.addListenerByName("PortStatus", on_ps)
  for step in case["steps"]:
    reason, n, nm, hw, cfg = step
    if reason == REASON_FEATURES:
      # a further features reply on the established connection: the switch's
      # port list as of now replaces everything known before
      plist = [ctl.phy_port(a, name=b, hw=c) for a, b, c in n]
      fr = ofwire.enc_message("features_reply", dict(
        xid=77, datapath_id=case["dpid"], n_buffers=0, n_tables=1,
        capabilities=0, actions=0xfff, ports=plist))
      if not peer.feed(fr):
        fire("connection closed by a features reply", ""); return True
      for p in model.values():
        former_names.add(p["name"]); former_hw.add(p["hw_addr"])
      original = {p["port_no"]: dict(p) for p in plist}
      model = {p["port_no"]: dict(p) for p in plist}
      rep.count("features_refreshes"); nt = True
      if not check_view(fire, rep, con.ports, model, "current view",
                        former_names, former_hw):
        return True
      if not check_view(fire, rep, con.original_ports, original,
                        "original view", set(), set()):
        return True
      continue
    desc = ctl.phy_port(n, name=nm, hw=hw, config=cfg,
                        state=1 if cfg & 1 else 0)
    before = len(events)
    raw = ofwire.enc_message("port_status", dict(xid=0, reason=reason, desc=desc))
    filler = ofwire.enc_message("echo_reply", dict(xid=5, body=b"zz"))
    if not peer.feed(filler + raw):
      fire("connection closed by a port-status message", ""); return True
    if events[before:] != [(reason, n)]:
      fire("port-status event not raised exactly once",
           repr(events[before:])); return True
    seen_inside = inside[-1] if inside else None
    if reason == REASON_DELETE:
      if n in model:
        former_names.add(model[n]["name"]); former_hw.add(model[n]["hw_addr"])
        del model[n]; rep.count("deletes"); nt = True
    else:
      if n in model:
        if model[n]["name"] != nm:
          former_names.add(model[n]["name"]); rep.count("renames"); nt = True
        if model[n]["hw_addr"] != hw:
          former_hw.add(model[n]["hw_addr"]); nt = True
      elif n in original or any(s[1] == n for s in case["steps"][:case["steps"].index(step)]
                                if s[0] != REASON_FEATURES):
        rep.count("readds"); nt = True
      model[n] = desc
    want_inside = (sorted(model), (model[n]["name"], model[n]["config"]) if n in model else None)
    rep.count("views_read_inside_the_handler")
    if seen_inside != want_inside:
      fire("port view as seen from inside the PortStatus handler lacks the "
           "notification being announced",
           "handler saw %r, the view with it applied is %r" % (seen_inside, want_inside))
      return True
    if not check_view(fire, rep, con.ports, model, "current view",
                      former_names, former_hw):
      return True
    if not check_view(fire, rep, con.original_ports, original,
                      "original view", set(), set()):
      return True
    if other is not None:
      rep.count("port_views_of_two_connections_compared")
      if not check_view(fire, rep, other.con.ports, other_model,
                        "another connection's view", set(), set()):
        return True
      if len(case["steps"]) % 2 and reason != REASON_FEATURES:
        # ... and a notification on the other one leaves this one alone
        od = ctl.phy_port(n, name="o%x_%s" % (n, nm), hw=hw, config=cfg, state=0)
        oraw = ofwire.enc_message("port_status", dict(
          xid=0, reason=REASON_DELETE if n in other_model and cfg else REASON_MODIFY, desc=od))
        nb = len(events)
        other.feed(oraw)
        if n in other_model and cfg: del other_model[n]
        else: other_model[n] = od
        if len(events) != nb:
          fire("a notification on another connection raised this connection's event", "")
          return True
        if not check_view(fire, rep, con.ports, model, "current view (after a "
                          "notification on another connection)", former_names, former_hw):
          return True
  return nt


# ---------------------------------------------------------------------------
# statistics

def flow_entry (i):
  m = dict(wildcards=(1 << 22) - 1, in_port=0, dl_src=b"\0" * 6, dl_dst=b"\0" * 6,
           dl_vlan=0, dl_vlan_pcp=0, dl_type=0, nw_tos=0, nw_proto=0,
           nw_src=0, nw_dst=0, tp_src=0, tp_dst=0)
  return dict(table_id=0, match=m, duration_sec=i, duration_nsec=0,
              priority=i & 0xffff, idle_timeout=0, hard_timeout=0, cookie=i,
              packet_count=i, byte_count=i * 10,
              actions=[dict(type=0, port=1 + i % 3, max_len=0)] * (i % 3))


def make_entry (stype, i):
  if stype == 1: return flow_entry(i)
  if stype == 3:
    return dict(table_id=i & 0xff, name="t%d" % i, wildcards=0, max_entries=i,
                active_count=i, lookup_count=i, matched_count=i)
  if stype == 4:
    d = dict(port_no=i & 0xffff)
    for k in ("rx_packets", "tx_packets", "rx_bytes", "tx_bytes", "rx_dropped",
              "tx_dropped", "rx_errors", "tx_errors", "rx_frame_err",
              "rx_over_err", "rx_crc_err", "collisions"):
      d[k] = i
    return d
  return dict(port_no=i & 0xffff, queue_id=i, tx_bytes=i, tx_packets=i,
              tx_errors=i)


EVENT_NAMES = {1: "FlowStatsReceived", 3: "TableStatsReceived",
               4: "PortStatsReceived", 5: "QueueStatsReceived"}


def entry_id (stype, obj):
  if stype == 1: return obj.cookie
  if stype == 3: return obj.max_entries
  if stype == 4: return obj.rx_packets
  return obj.queue_id


def run_stats (case, rep):
  core, of_01 = ctl.boot_controller()
  fired = []
  def fire (key, what):
    fired.append(key)
    rep.violation("C17 stats: " + key, what, case)
  rep.count("stats_histories")
  peer = ctl.Peer(of_01)
  peer.handshake(case["dpid"], [ctl.phy_port(1)])
  con = peer.con
  got = []
  late = case.get("late")
  def attach ():
    for st, name in EVENT_NAMES.items():
      def mk (st):
        def h (e):
          try:
            ids = [entry_id(st, s) for s in e.stats]
          except Exception as ex:
            ids = ["unreadable: %r" % (ex,)]
          got.append((st, ids))
        return h
      con.addListenerByName(name, mk(st))
  if late is None: attach()
  else:
    # whoever wants the statistics starts listening only while the reply is
    # already arriving (parts that came before belong to it all the same)
    case["_attach"] = attach
    rep.count("listeners_attached_while_a_reply_is_under_way")
  nexus_got = []
  lids = []
  for st, name in (EVENT_NAMES.items() if late is None else ()):
    def mkn (st):
      def h (e):
        if e.connection is not con: return
        try:
          ids = [entry_id(st, x) for x in e.stats]
        except Exception as ex:
          ids = ["unreadable: %r" % (ex,)]
        nexus_got.append((st, ids))
      return h
    lids.append(core.openflow.addListenerByName(name, mkn(st)))
  if case.get("halt_raw"):
    # somebody handles the raw replies on the nexus and stops them there
    # (halting keeps a raw event from going on to the connection; the
    #  aggregated events are no business of the raw event's listeners)
    from pox.lib.revent import EventHalt
    nraw = [0]
    def raw_h (e):
      if e.connection is not con: return
      nraw[0] += 1
      how = case["halt_raw"]
      final = not (e.ofp.flags & 1)
      if how == "all" or (how == "final" and final) or (how == "first" and nraw[0] == 1) \
         or (how == "parts" and not final):
        rep.count("raw_replies_halted_on_the_nexus")
        if nraw[0] % 2: return EventHalt
        e.halt = True
    lids.append(core.openflow.addListenerByName("RawStatsReply", raw_h))
  if case.get("raw_fails"):
    # somebody listens to the raw replies (on the connection, on the nexus or
    # both) and the handler fails on some of them: its failure is its own;
    # the part it was shown still counts
    nrf = [0]
    def raw_f (e):
      if e.connection is not con: return
      nrf[0] += 1
      how = case["raw_fails"][1]
      final = not (e.ofp.flags & 1)
      if how == "all" or (how == "final" and final) or (how == "first" and nrf[0] == 1) \
         or (how == "parts" and not final):
        rep.count("raw_reply_handlers_that_failed")
        raise RuntimeError("a RawStatsReply handler fails")
    if case["raw_fails"][0] in ("con", "both"):
      con.addListenerByName("RawStatsReply", raw_f)
    if case["raw_fails"][0] in ("nexus", "both"):
      lids.append(core.openflow.addListenerByName("RawStatsReply", raw_f))
  # a second connection whose replies use the same transaction ids and types
  other = None
  other_got = []
  if case.get("second_connection"):
    other = ctl.Peer(of_01)
    other.handshake(case["dpid"] + 1000, [ctl.phy_port(1)])
    for st, name in EVENT_NAMES.items():
      def mko (st):
        def h (e):
          try: other_got.append((st, [entry_id(st, x) for x in e.stats]))
          except Exception as ex: other_got.append((st, ["unreadable"]))
        return h
      other.con.addListenerByName(name, mko(st))
  try:
    r = _run_stats_body(case, rep, fire, peer, got, other=other, other_got=other_got)
    if got and not fired and late is None:
      rep.count("nexus_level_stats_events_compared")
      if nexus_got != got:
        fire("statistics events on the nexus differ from those on the connection",
             "nexus %r, connection %r" % (nexus_got[:3], got[:3]))
    return r
  finally:
    # (one more nexus listener per case made the run quadratic)
    for lid in lids: core.openflow.removeListener(lid)


NOISE_KINDS = 20


def rep_has_fired (rep):
  return bool(getattr(rep, "_c17_fired", False))



def noise_message (nk, x, port=1):
  E = ofwire.enc_message
  if nk >= 17:
    # the port one of the reply's entries is about is added, deleted or
    # modified while the reply is under way (or before it): the port view's
    # business - the statistics event still carries every entry received
    return E("port_status", dict(xid=0, reason=nk - 17, desc=ctl.phy_port(port)))
  if nk < 6:
    # an error of each type, BAD_REQUEST first
    t = [1, 1, 0, 2, 3, 5][nk]
    return E("error", dict(xid=x, type=t, code=[1, 0, 0, 0, 2, 0][nk],
                           data=struct.pack("!BBHL", 1, 4, 12, x) + b"\0\0\x23\x20"))
  if nk == 6: return E("barrier_reply", dict(xid=x))
  if nk == 7: return E("echo_reply", dict(xid=x, body=b""))
  if nk == 8: return E("get_config_reply", dict(xid=x, flags=0, miss_send_len=128))
  if nk == 9:
    return E("stats_reply", dict(xid=x, type=0, flags=0, body=dict(
      mfr_desc="m", hw_desc="h", sw_desc="s", serial_num="1", dp_desc="d")))
  if nk == 10:
    return E("packet_in", dict(xid=x, buffer_id=0xffffffff, total_len=14, in_port=1,
                               reason=0, data=b"\xff" * 6 + b"\x02\0\0\0\0\x01\x88\xb5"))
  if nk == 11:
    return E("vendor", dict(xid=x, vendor=0x2320, data=b"\0\0\0\x0a" + b"\0" * 12))
  if nk == 12:
    # statistics replies of types that are never aggregated, announcing more
    return E("stats_reply", dict(xid=x, type=0, flags=1, body=dict(
      mfr_desc="m", hw_desc="h", sw_desc="s", serial_num="1", dp_desc="d")))
  if nk == 13:
    return E("stats_reply", dict(xid=x, type=2, flags=1, body=dict(
      packet_count=1, byte_count=2, flow_count=3)))
  if nk == 14:
    m = dict(wildcards=(1 << 22) - 1, in_port=0, dl_src=b"\0" * 6, dl_dst=b"\0" * 6,
             dl_vlan=0, dl_vlan_pcp=0, dl_type=0, nw_tos=0, nw_proto=0,
             nw_src=0, nw_dst=0, tp_src=0, tp_dst=0)
    return E("flow_removed", dict(xid=x, match=m, cookie=1, priority=1, reason=0,
                                  duration_sec=1, duration_nsec=0, idle_timeout=0,
                                  packet_count=1, byte_count=1))
  if nk == 15:
    return E("queue_get_config_reply", dict(xid=x, port=1, queues=[]))
  # a features reply on the established connection (same datapath, one port)
  return E("features_reply", dict(xid=x, datapath_id=NOISE_DPID[0], n_buffers=0,
                                  n_tables=1, capabilities=0, actions=0xfff,
                                  ports=[ctl.phy_port(1)]))


NOISE_DPID = [0]


def _run_stats_body (case, rep, fire, peer, got, other=None, other_got=None):
  NOISE_DPID[0] = case["dpid"]
  # requests: list of dict(type, xid, parts=[[ids],...], complete)
  reqs = case["requests"]
  expected = []          # in completion order
  progress = {i: 0 for i in range(len(reqs))}
  nt = False
  for oi, which in enumerate(case["order"]):
    if case.get("late") == oi and case.get("_attach"):
      case.pop("_attach")()
    if which == "noise":
      raw = ofwire.enc_message("echo_reply", dict(xid=1, body=b"n"))
      raw += ofwire.enc_message("port_status", dict(
        xid=0, reason=REASON_MODIFY, desc=ctl.phy_port(1)))
      if not peer.feed(raw):
        fire("connection closed by unrelated traffic", ""); return True
      continue
    if isinstance(which, list):
      # another message type that happens to carry the transaction id of a
      # request whose reply is under way (ids are chosen by applications, an
      # unrelated message of theirs may share one)
      _, nk, ri = which
      x = reqs[ri % len(reqs)]["xid"]
      ids = [i for p in reqs[ri % len(reqs)]["parts"] for i in p]
      raw = noise_message(nk, x, port=(ids[0] & 0xffff) if ids else 1)
      if nk >= 17: rep.count("port_status_for_a_port_a_reply_under_way_reports_on")
      rep.count("other_messages_sharing_a_request_xid")
      before = len(got)
      if not peer.feed(raw):
        fire("connection closed by unrelated traffic", "noise kind %d" % nk); return True
      if len(got) != before:
        fire("a message that is not a statistics reply raised an aggregated event",
             "noise kind %d xid %d: %r" % (nk, x, got[before:])); return True
      continue
    r = reqs[which]
    k = progress[which]
    if k >= len(r["parts"]): continue
    part = r["parts"][k]
    progress[which] = k + 1
    last = (k == len(r["parts"]) - 1) and r["complete"]
    raw = ofwire.enc_message("stats_reply", dict(
      xid=r["xid"], type=r["type"], flags=0 if last else 1,
      body=[make_entry(r["type"], i) for i in part]))
    if other is not None and not last:
      # the other switch is in the middle of a reply with the very same
      # transaction id and type: its parts are its own
      oraw = ofwire.enc_message("stats_reply", dict(
        xid=r["xid"], type=r["type"], flags=1,
        body=[make_entry(r["type"], 900000 + i) for i in part[:1]]))
      nb = len(got)
      other.feed(oraw)
      rep.count("parts_on_a_second_connection")
      if len(got) != nb:
        fire("a part received on another connection raised this connection's event", "")
        return True
    before = len(got)
    if not peer.feed(raw):
      fire("connection closed by a statistics reply", ""); return True
    new = got[before:]
    if last:
      want = (r["type"], [i for p in r["parts"] for i in p])
      if len(r["parts"]) > 1: nt = True; rep.count("multipart_events")
      if len(r["parts"]) > 16:
        rep.count("replies_of_very_many_parts"); rep.maxi("parts_in_one_reply", len(r["parts"]))
      if len(new) != 1:
        fire("final part raised %d aggregated events%s" %
             (len(new), " (interleaved replies)" if case["interleaved"] else ""),
             "request type %d xid %d parts %r; events %r" %
             (r["type"], r["xid"], r["parts"], new))
        return True
      if new[0] != want:
        if sorted(map(str, new[0][1])) == sorted(map(str, want[1])):
          why = "entries out of order"
        elif set(map(str, new[0][1])) - set(map(str, want[1])):
          why = "entries of another request merged in"
        else:
          why = "entries missing"
        fire("aggregated event content: %s%s" %
             (why, " (interleaved replies)" if case["interleaved"] else ""),
             "got %r expected %r" % (new[0], want))
        return True
    else:
      if new:
        fire("aggregated event raised before the final part",
             "after part %d of %d: %r" % (k + 1, len(r["parts"]), new))
        return True
  if case["interleaved"]: rep.count("interleaved_histories")
  elif len(reqs) > 1: rep.count("sequential_pairs")
  return nt


def do_case (case, rep):
  try:
    if case["kind"] == "ports": nt = run_ports(case, rep)
    else: nt = run_stats(case, rep)
  except Exception:
    rep.violation("C17 harness-visible exception",
                  traceback.format_exc()[-900:], case)
    nt = True
  rep.case(repr(sorted((k, repr(v)) for k, v in case.items())).encode(),
           nontrivial=bool(nt))


def gen_ports (rng, n, maxlen):
  for ci in range(n):
    # (four port numbers; every third history uses the ends of the range:
    #  0, the highest physical number, the local port)
    nums = [[1, 2, 3, 4], [1, 2, 3, 4], [0, 1, 2, 0xfffe],
            [0, 7, 0xff00, 0xfffe]][rng.randrange(4) if ci % 3 == 0 else 0]
    version = {}
    def fresh (no):
      version[no] = version.get(no, 0) + 1
      v = version[no]
      return ("e%x_%d" % (no, v), bytes([2, 0, v, 0, no >> 8, no & 255]))
    initial = []
    for no in rng.sample(nums, rng.randrange(0, 5)):
      nm, hw = fresh(no)
      initial.append((no, nm, hw))
    cur = {no: (nm, hw) for no, nm, hw in initial}
    steps = []
    early = []
    if rng.random() < 0.35:
      for _ in range(rng.randrange(1, 4)):
        no = rng.choice(nums)
        r = rng.random()
        if no in cur and r < 0.4:
          nm, hw = cur.pop(no)
          early.append([REASON_DELETE, no, nm, hw, 0])
        else:
          if no in cur and r < 0.7: nm, _ = fresh(no); hw = cur[no][1]
          else: nm, hw = fresh(no)
          early.append([REASON_ADD if no not in cur else REASON_MODIFY, no, nm, hw,
                        rng.choice([0, 1])])
          cur[no] = (nm, hw)
    for _ in range(rng.randrange(1, maxlen + 1)):
      no = rng.choice(nums)
      r = rng.random()
      if rng.random() < 0.06:
        # the switch is asked for its features again: some of the ports it
        # reports were deleted / renamed before, some are as they were
        plist = []
        for q in rng.sample(nums, rng.randrange(0, 5)):
          if q in cur and rng.random() < 0.5: qn, qh = cur[q]
          else: qn, qh = fresh(q)
          plist.append([q, qn, qh])
        cur = {q: (qn, qh) for q, qn, qh in plist}
        steps.append([REASON_FEATURES, plist, None, None, 0])
        continue
      if rng.random() < 0.08:
        # notifications that do not fit the current state: a DELETE for a
        # port that is not there (deleted twice, or never reported), a DELETE
        # whose description is not the current one, an ADD for a port that is
        r2 = rng.random()
        if no not in cur:
          nm, hw = fresh(no)
          steps.append([REASON_DELETE, no, nm, hw, 0])
        elif r2 < 0.5:
          cur.pop(no)
          nm, hw = fresh(no)
          steps.append([REASON_DELETE, no, rng.choice([nm, ""]), hw, 0])
        else:
          nm, hw = fresh(no)
          cur[no] = (nm, hw)
          steps.append([REASON_ADD, no, nm, hw, rng.choice([0, 1])])
        continue
      if no in cur and r < 0.3:
        nm, hw = cur.pop(no)
        steps.append([REASON_DELETE, no, nm, hw, 0])
      else:
        if no in cur and r < 0.55:
          nm, hw = cur[no]                       # plain modify (config change)
        elif no in cur and r < 0.8:
          nm, _ = fresh(no); hw = cur[no][1]     # rename
        elif no in cur:
          _, hw = fresh(no); nm = cur[no][0]     # hw change
        else:
          nm, hw = fresh(no)                     # add / re-add
        reason = REASON_ADD if no not in cur else REASON_MODIFY
        if rng.random() < 0.1: reason = REASON_MODIFY
        cur[no] = (nm, hw)
        steps.append([reason, no, nm, hw, rng.choice([0, 1, 0x10])])
    case = dict(kind="ports", dpid=[0, 101, 102, 1 << 63, (1 << 64) - 1, 105, 106][ci % 7],
                initial=initial, steps=steps)
    if early: case["early"] = early
    if rng.random() < 0.3:
      # the first notifications after the handshake arrive in one read with
      # the answer that completes it
      k = 0
      while k < len(steps) and k < 3 and steps[k][0] != REASON_FEATURES: k += 1
      k = rng.randrange(0, k + 1)
      if k:
        case["glued"] = steps[:k]; case["steps"] = steps[k:]
    if rng.random() < 0.3: case["second_connection"] = True
    if rng.random() < 0.25: case["barrier_refused"] = True
    yield case


def split (ids, k, rng):
  if k <= 1: return [list(ids)]
  cuts = sorted(rng.randrange(0, len(ids) + 1) for _ in range(k - 1))
  out = []; prev = 0
  for c in cuts + [len(ids)]:
    out.append(list(ids[prev:c])); prev = c
  return out


many = [0]


def gen_stats (rng, n):
  base = 1000
  for ci in range(n):
    nreq = rng.choice([1, 1, 2, 2, 3, 3, 5, 6, 8, 12])   # (many requests outstanding at once, too)
    reqs = []
    for r in range(nreq):
      st = rng.choice([1, 3, 4, 5])
      ne = rng.choice([0, 1, 2, 5, 9])
      ids = list(range(base, base + ne)); base += ne + 1
      if rng.random() < 0.5:
        # entries in no particular order of any of their fields, some of them
        # twice ("all parts' entries in order" means as received)
        rng.shuffle(ids)
        if ids and rng.random() < 0.4: ids.insert(rng.randrange(len(ids) + 1), rng.choice(ids))
      k = rng.randrange(1, 7)
      if rng.random() < 0.02 and st != 3:
        # a reply of very many parts (a switch with a large table answers a
        # flow-statistics request with hundreds of them)
        ne = rng.choice([70, 300, 1100]); k = rng.choice([17, 65, 130, ne])
        ids = list(range(base, base + ne)); base += ne + 1
        many[0] += 1
      reqs.append(dict(type=st, xid=rng.choice([7, 8, 9, rng.getrandbits(32)]),
                       parts=split(ids, k, rng), complete=True))
    # distinct (xid, type) per outstanding request
    seen = set()
    for r in reqs:
      while (r["xid"], r["type"]) in seen: r["xid"] = (r["xid"] + 1) & 0xffffffff
      seen.add((r["xid"], r["type"]))
    mode = rng.choice(["seq", "seq", "inter", "abandon", "repeat"])
    if mode == "repeat" and nreq > 1:
      # the same request id (xid and type) used again after its reply completed
      for r in reqs[1:]:
        r["xid"] = reqs[0]["xid"]; r["type"] = reqs[0]["type"]
    order = []
    if mode in ("seq", "repeat") or nreq == 1:
      for i, r in enumerate(reqs):
        for _ in r["parts"]:
          order.append(i)
          if rng.random() < 0.3: order.append("noise")
          if rng.random() < 0.3:
            order.append(["noise", rng.randrange(NOISE_KINDS), rng.randrange(nreq)])
      inter = False
    elif mode == "inter":
      pend = [i for i, r in enumerate(reqs) for _ in r["parts"]]
      rng.shuffle(pend)
      order = pend
      # is it really interleaved?
      firsts = {}
      inter = False
      lastseen = None; done = set(); opened = []
      counts = {i: 0 for i in range(nreq)}
      for i in order:
        others_open = [j for j in range(nreq) if j != i and
                       0 < counts[j] < len(reqs[j]["parts"])]
        if others_open: inter = True
        counts[i] += 1
      if rng.random() < 0.5:
        for _ in range(rng.randrange(1, 4)):
          order.insert(rng.randrange(len(order) + 1),
                       ["noise", rng.randrange(NOISE_KINDS), rng.randrange(nreq)])
    else:
      # the first request's reply is never finished; a new request follows
      reqs[0]["complete"] = False
      if len(reqs[0]["parts"]) < 2:
        reqs[0]["parts"] = reqs[0]["parts"] + [[]]
      order = [0] * (len(reqs[0]["parts"]) - 1)
      for i in range(1, nreq):
        order += [i] * len(reqs[i]["parts"])
      inter = False
      if reqs[0]["type"] in [r["type"] for r in reqs[1:]]:
        pass
    case = dict(kind="stats", dpid=[0, 201, 202, (1 << 64) - 1 - 2000, 204][ci % 5], requests=reqs, order=order,
                interleaved=bool(inter), mode=mode)
    if rng.random() < 0.2:
      # index (in the order of arrival) of the first part that completes a reply
      prog = {}; ff = None
      for oi, w_ in enumerate(order):
        if isinstance(w_, int):
          prog[w_] = prog.get(w_, 0) + 1
          if prog[w_] == len(reqs[w_]["parts"]) and reqs[w_]["complete"]:
            ff = oi; break
      if ff: case["late"] = rng.randrange(1, ff + 1)
    if rng.random() < 0.3: case["second_connection"] = True
    if rng.random() < 0.3: case["halt_raw"] = rng.choice(["all", "final", "first", "parts"])
    elif rng.random() < 0.3:
      case["raw_fails"] = [rng.choice(["con", "nexus", "both"]),
                           rng.choice(["all", "final", "first", "parts"])]
    yield case


def plan (tier, seed):
  if tier == "quick":
    return ([dict(mode="ports", n=500, maxlen=12, sub=i) for i in range(8)] +
            [dict(mode="stats", n=500, sub=i) for i in range(8)])
  return ([dict(mode="ports", n=60000, maxlen=14, sub=i) for i in range(32)] +
          [dict(mode="stats", n=60000, sub=i) for i in range(32)])


def run (spec, rep):
  rng = random.Random("c17/%d/%s/%d" % (spec["seed"], spec["mode"], spec["sub"]))
  g = gen_ports(rng, spec["n"], spec["maxlen"]) if spec["mode"] == "ports" \
      else gen_stats(rng, spec["n"])
  first = True
  for case in g:
    do_case(case, rep)
    if first: rep.sample(case); first = False


def replay (witness, rep):
  do_case(witness, rep)
