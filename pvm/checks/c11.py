"""
C11 - the learning-switch control loop forwards like an ideal learning
bridge.

Real SoftwareSwitches (with flow expiry) are connected over in-memory
sockets and the real OpenFlow encoding to the real controller running the
real l2_learning component, all on one virtual-time scheduler (engine E2).
Host frames are injected as raw bytes; every frame emitted on the data plane
is serialised at emission time.  A monitor taps the OpenFlow byte streams
(independent decoder) to know which frames went to the controller and which
buffer ids are outstanding, and judges every arrival at every switch.
"""
import random
import struct
import traceback

from pvm import simnet
from pvm.ref import ofwire, frames as F, ofmatch as OM

ID = "C11"
LEVEL = "exploration"
RULE = ("a case is (line topology of 1..3 switches, buffer pool size, "
        "sequence of host frames: (host, attachment point, destination "
        "host / broadcast / multicast / LLDP / STP address, ethertype "
        "variant, size, virtual-time gap 0/5/11/12.5/13.5/31/32.5 s)); all sequences up to "
        "length 3 (quick) / 4 (thorough) over 3 hosts on 1-2 switches are "
        "enumerated, random ones to length 200 include host moves; "
        "non-trivial = some frame was forwarded by a cached flow or a host "
        "moved; distinct = distinct case")
ASSUMPTIONS = ["clause 'exactly the most recent port' is judged only when "
               "the frame itself and the latest frame from its destination "
               "both went to the controller (no cached flow stands in)",
               "miss_send_len is what the nexus configures (128); frames "
               "always contain both addresses within it",
               "topologies are loop-free lines; all ports are up"]
REQUIRED = ["histories_with_very_many_stations", "installed_flows_between_the_same_stations_that_are_for_other_traffic", "frames", "arrivals_judged", "floods", "known_dst_forwards",
            "exact_port_checks", "cached_flow_hits", "filtered_frames",
            "host_moves", "buffers_released", "timeouts_crossed",
            "unbuffered_packet_ins", "bursts", "frames_to_own_source",
            "cached_flow_deliveries_checked", "group_addresses_next_to_the_filtered_range"]
TIMEOUT = {"quick": 1200, "thorough": 9000}

HOSTS = [bytes.fromhex("0200000000%02x" % (0xa0 + i)) for i in range(5)] + \
    [bytes([2, 0, 0, i >> 8, i & 255, 0xb0]) for i in range(5, 6000)]
BCAST = b"\xff" * 6
MCAST = bytes.fromhex("01005e000005")
STP = bytes.fromhex("0180c2000000")
LLDP_DST = bytes.fromhex("0180c200000e")
PORTS = [1, 2, 3, 4]      # 1: link to previous switch, 2: link to next

_st = {}


class Net (object):
  def __init__ (self, w, nsw, pool, dpid_base):
    self.w = w
    self.sw = []
    self.taps = []
    self.linkq = []
    self.pool = pool
    self.burst = None
    self.burst_strays = []
    self.arrival_log = []
    for i in range(nsw):
      c, s = w.connect_switch_socket("s%d" % i)
      sp = simnet.SwitchPeer(w, dpid_base + i, s, ports=4, expire=True,
                             max_buffers=pool)
      tap = dict(pins=[], outstanding={}, to_sw=b"", to_ctl=b"",
                 pin_count=0, released=0, flows=[])
      self.taps.append(tap)
      # tap both directions of the OpenFlow channel
      s.on_send = (lambda sock, data, tap=tap: self._sw_wrote(tap, data))
      c.on_send = (lambda sock, data, tap=tap: self._ctl_wrote(tap, data))
      sp.on_out = (lambda peer, port, raw, i=i: self._emitted(i, port, raw))
      self.sw.append(sp)
      sp.hello()
    w.run()
    self.cur = None

  def _sw_wrote (self, tap, data):
    tap["to_ctl"] += data
    while len(tap["to_ctl"]) >= 8:
      l = struct.unpack_from("!H", tap["to_ctl"], 2)[0]
      if l < 8 or len(tap["to_ctl"]) < l: break
      m, _ = ofwire.dec_message(tap["to_ctl"][:l]); tap["to_ctl"] = tap["to_ctl"][l:]
      if m["name"] == "packet_in":
        tap["pin_count"] += 1
        tap["pins"].append(m)
        if m["buffer_id"] != 0xffffffff:
          tap["outstanding"][m["buffer_id"]] = m
        elif self.pool > 0 and len(tap["outstanding"]) < self.pool \
             and m["total_len"] > 0:
          # seen from outside: the switch had no buffer left although fewer
          # ids than its pool are with the controller - some release (by a
          # flow_mod or packet_out the controller did send) never took effect
          tap["starved"] = (len(tap["outstanding"]), self.pool)

  def _ctl_wrote (self, tap, data):
    tap["to_sw"] += data
    while len(tap["to_sw"]) >= 8:
      l = struct.unpack_from("!H", tap["to_sw"], 2)[0]
      if l < 8 or len(tap["to_sw"]) < l: break
      m, _ = ofwire.dec_message(tap["to_sw"][:l]); tap["to_sw"] = tap["to_sw"][l:]
      if m["name"] == "flow_mod" and m["command"] == 0:
        # the monitor's own picture of what the controller installed (from
        # the bytes on the wire): who the flow is for, where it sends, and
        # how long it may stand in for the controller
        mt = m["match"]
        tap["flows"].append(dict(
          in_port=None if mt["wildcards"] & 1 else mt["in_port"],
          src=None if mt["wildcards"] & 4 else bytes(mt["dl_src"]),
          dst=None if mt["wildcards"] & 8 else bytes(mt["dl_dst"]),
          dl_type=None if mt["wildcards"] & 16 else mt["dl_type"],
          match=mt,
          out=[a["port"] for a in m["actions"] if a["type"] == 0],
          idle=m["idle_timeout"], hard=m["hard_timeout"],
          t0=self.w.clock.now, used=self.w.clock.now))
      if m["name"] in ("packet_out", "flow_mod") and \
         m["buffer_id"] != 0xffffffff:
        if tap["outstanding"].pop(m["buffer_id"], None) is not None:
          tap["released"] += 1

  def _emitted (self, i, port, raw):
    if self.burst is not None:
      # several frames are in flight: attribute by content (every frame
      # carries its own serial number)
      rec = self.burst.get(bytes(raw))
      if rec is not None and rec["sw"] == i:
        rec["out"].append((port, raw))
      else:
        self.burst_strays.append((i, port, bytes(raw)))
      return
    if self.cur is not None:
      self.cur["out"].append((port, raw))

  def arrive_burst (self, i, frames):
    """
    Several frames arrive at switch i before the controller has answered any
    of them (several packet-ins and buffers outstanding at once).
    """
    recs = [dict(sw=i, port=p, raw=r, out=[], burst=True) for p, r in frames]
    self.burst = {bytes(r["raw"]): r for r in recs}
    self.burst_strays = []
    pins0 = len(self.taps[i]["pins"])
    try:
      for p, r in frames:
        self.sw[i].inject(p, r)
      self.w.run()
    finally:
      self.burst = None
    new = self.taps[i]["pins"][pins0:]
    for r in recs:
      r["to_controller"] = any(m["data"] == r["raw"][:len(m["data"])] and
                               len(m["data"]) >= 18 for m in new)
    return recs

  def arrive (self, i, port, raw):
    """A frame arrives at switch i; returns the arrival record."""
    rec = dict(sw=i, port=port, raw=raw, out=[], pins_before=self.taps[i]["pin_count"])
    prev = self.cur
    self.cur = rec
    try:
      self.sw[i].inject(port, raw)
      self.w.run()
    finally:
      self.cur = prev
    rec["to_controller"] = self.taps[i]["pin_count"] > rec["pins_before"]
    return rec

  def close (self):
    for sp in self.sw:
      try:
        sp.sock.on_send = None
        sp.worker.close()      # (the worker closes its socket in the I/O loop)
        t = getattr(sp.switch, "_expire_timer", None)
        if t is not None: t.cancel()
      except Exception:
        pass
    self.w.run()
    self.w.advance(3)


def frame_for (src, dst, variant, size, uid):
  payload = struct.pack("!L", uid) + bytes((uid + i) & 0xff for i in range(size))
  if variant == "lldp":
    return F.eth(dst, src, 0x88cc, payload)
  if variant == "ip":
    return F.eth(dst, src, 0x0800, F.ipv4(0x0a000001, 0x0a000002, 17,
                 F.udp(7, 9, payload, src=0x0a000001, dst=0x0a000002)))
  if variant == "vlan":
    return F.eth(dst, src, 0x88b5, payload, vlan=(3, 0, 10))
  if variant == "arp":
    return F.eth(dst, src, 0x0806, F.arp(1 + uid % 2, src, 0x0a000001 + (uid % 3), b"\0" * 6,
                                         0x0a000002) + payload[:18], pad=False)
  if variant == "tcp":
    return F.eth(dst, src, 0x0800, F.ipv4(0x0a000001 + uid % 2, 0x0a000002, 6,
                 F.tcp(1000 + uid % 3, 80, payload, src=0x0a000001 + uid % 2, dst=0x0a000002)))
  if variant == "icmp":
    return F.eth(dst, src, 0x0800, F.ipv4(0x0a000001, 0x0a000002 + uid % 2, 1,
                 F.icmp(*[(8, 0), (13, 0), (8, 0), (3, 1), (0, 0)][uid % 5], payload=payload)))
  if variant == "frag":
    # a later fragment of a UDP datagram (no transport header in it)
    return F.eth(dst, src, 0x0800, F.ipv4(0x0a000001, 0x0a000002, 17, payload[:40],
                                          flags=uid % 2, frag=1 + uid % 3))
  if variant == "frag_first":
    return F.eth(dst, src, 0x0800, F.ipv4(0x0a000001, 0x0a000002, 17,
                 F.udp(7, 9, payload, src=0x0a000001, dst=0x0a000002)[:8 + 32], flags=1, frag=0))
  if variant == "ipother":
    # IPv4 carrying something that is neither ICMP, TCP nor UDP (SCTP, ESP,
    # OSPF, IGMP, GRE, an unassigned number): traffic like any other
    return F.eth(dst, src, 0x0800, F.ipv4(0x0a000001, 0x0a000002,
                 [132, 50, 89, 2, 47, 253][uid % 6], payload[:60]))
  if variant == "llc":
    return F.eth_8023(dst, src, F.llc(0x42, 0x42, 3, payload))
  if variant == "vlan_ip":
    return F.eth(dst, src, 0x0800, F.ipv4(0x0a000001, 0x0a000002, 17,
                 F.udp(7 + uid % 2, 9, payload, src=0x0a000001, dst=0x0a000002)),
                 vlan=(uid % 8, 0, 100 + uid % 2))
  return F.eth(dst, src, 0x88b5, payload)


def run_case (case, rep):
  w = _st.get("w")
  if w is None:
    w = simnet.World()
    w.start_openflow()
    import pox.forwarding.l2_learning as l2
    l2.launch()
    _st["w"] = w
    _st["dpid"] = 0x100
  def fire (key, what):
    rep.violation("C11 " + key, what, case)
  nsw = case["nsw"]; pool = case["pool"]
  _st["dpid"] += 16
  net = Net(w, nsw, pool, _st["dpid"])
  core = w.core
  up = [sp for sp in net.sw if core.openflow.getConnection(sp.switch.dpid)]
  if len(up) != nsw:
    net.close()
    raise simnet.AdapterError("switches did not connect (%d of %d)" %
                              (len(up), nsw))
  seen = [dict() for _ in range(nsw)]        # per switch: mac -> set(ports)
  last_port = [dict() for _ in range(nsw)]   # mac -> most recent port
  last_ctl = [dict() for _ in range(nsw)]    # mac -> did latest frame go to controller
  host_at = {}
  nt = False
  uid = 0
  ok = True
  def judge_arrival (i, port, fr, rec):
    """Clauses 1-5 for one arrival; updates the learning model.  False = fired."""
    nonlocal nt
    rep.count("arrivals_judged")
    outs = rec["out"]
    ports = [p for p, _ in outs]
    s_src = fr[6:12]; s_dst = fr[0:6]
    etype = struct.unpack_from("!H", fr, 12)[0]
    if not rec["to_controller"]:
      rep.count("cached_flow_hits"); nt = True
      # which installed flow stands in for the controller?  (the table sweep
      # runs every 2 s: a flow may outlive its timeout by that much)
      now = w.clock.now
      SLACK = 2.0 + 1e-6
      live = []; stale = []
      for f in net.taps[i]["flows"]:
        if f["in_port"] not in (None, port): continue
        if f["src"] not in (None, s_src) or f["dst"] not in (None, s_dst): continue
        if f["dl_type"] not in (None, OM.extract(fr, port)["dl_type"]): continue
        # ... all of the flow's match, as OpenFlow 1.0 reads it: a flow
        # installed for one conversation between two stations (addresses,
        # protocol, ports) is not a flow for another one between the same two
        if not OM.matches(f["match"], OM.extract(fr, port)):
          rep.count("installed_flows_between_the_same_stations_that_are_for_other_traffic")
          continue
        dead = (f["hard"] and now > f["t0"] + f["hard"] + SLACK) or \
               (f["idle"] and now > f["used"] + f["idle"] + SLACK)
        (stale if dead else live).append(f)
      if not live and not rec.get("burst"):
        if stale:
          fire("a flow outlived its timeout (frame served from the table "
               "instead of reaching the controller)",
               "switch %d in %d dst %s at +%.1f s: installed at +%.1f, idle %d "
               "hard %d, last used +%.1f" %
               (i, port, s_dst.hex(), now, stale[-1]["t0"], stale[-1]["idle"],
                stale[-1]["hard"], stale[-1]["used"]))
        else:
          fire("frame neither sent to the controller nor covered by a flow "
               "the controller installed",
               "switch %d in %d src %s dst %s out %r" %
               (i, port, s_src.hex(), s_dst.hex(), ports))
        return False
      if live:
        for f in live: f["used"] = now
        rep.count("cached_flow_deliveries_checked")
        wants = []
        for f in live:
          wnt = sorted(set(p for p in f["out"] if p != port and p in PORTS))
          if wnt not in wants: wants.append(wnt)
        if sorted(ports) not in wants:
          fire("frame served by an installed flow was not delivered as that "
               "flow says",
               "switch %d in %d dst %s out %r, the flow(s) say %r" %
               (i, port, s_dst.hex(), sorted(ports), wants))
          return False
    # clause 1
    if port in ports:
      fire("frame sent back out its ingress port",
           "switch %d in %d out %r" % (i, port, ports)); return False
    if len(set(ports)) != len(ports):
      fire("frame delivered twice on one port",
           "switch %d out %r" % (i, ports)); return False
    if any(b != fr for _, b in outs):
      fire("forwarded frame was altered", "switch %d" % i); return False
    others = [p for p in PORTS if p != port]
    filtered = etype == 0x88cc or (s_dst[:5] == b"\x01\x80\xc2\x00\x00"
                                   and s_dst[5] <= 0x0f)
    known = s_dst in seen[i]
    if s_dst == s_src and not filtered and not (s_dst[0] & 1):
      # a bridge learns the source first: the destination is then known on
      # the very port the frame came in on, and the frame goes nowhere
      rep.count("frames_to_own_source")
      if ports:
        fire("frame addressed to its own source was forwarded",
             "switch %d in %d out %r" % (i, port, ports)); return False
    elif filtered:
      rep.count("filtered_frames")
      if ports:
        fire("link-local bridge-filtered frame was forwarded",
             "switch %d dst %s type %#x out %r" % (i, s_dst.hex(), etype, ports))
        return False
    elif (s_dst[0] & 1) or not known:
      rep.count("floods")
      if sorted(ports) != others:
        fire("frame to an unknown/broadcast/multicast address not "
             "delivered to every other port",
             "switch %d in %d dst %s out %r expected %r" %
             (i, port, s_dst.hex(), sorted(ports), others))
        return False
    else:
      rep.count("known_dst_forwards")
      if not set(ports) <= seen[i][s_dst]:
        fire("frame to a known address delivered to a port where that "
             "address was never seen",
             "switch %d dst %s out %r seen on %r" %
             (i, s_dst.hex(), ports, sorted(seen[i][s_dst])))
        return False
      if rec["to_controller"] and last_ctl[i].get(s_dst):
        rep.count("exact_port_checks")
        want = [] if last_port[i][s_dst] == port else [last_port[i][s_dst]]
        if ports != want:
          fire("frame to a known address not delivered exactly to its "
               "most recent port",
               "switch %d in %d dst %s out %r expected %r" %
               (i, port, s_dst.hex(), ports, want))
          return False
    # learn (the model of what this switch/controller pair has seen)
    # (a frame served from the table leaves the controller out - which excuses
    #  a later stale delivery only if the controller had a chance to know the
    #  port: a table hit on a port where the address had never been seen
    #  before cannot come from a flow that was installed for it there)
    fresh_port = port not in seen[i].get(s_src, ())
    seen[i].setdefault(s_src, set()).add(port)
    last_port[i][s_src] = port
    last_ctl[i][s_src] = rec["to_controller"] or fresh_port
    if fresh_port and not rec["to_controller"]:
      rep.count("table_hits_from_a_port_the_source_was_never_seen_on")
    return True

  # ops whose gap is -1 arrive together with the op before them (same switch,
  # nothing runs in between): group them
  groups = []
  for op in case["ops"]:
    if op[6] == -1 and groups and min(op[1], nsw - 1) == min(groups[-1][0][1], nsw - 1):
      groups[-1].append(op)
    else:
      groups.append([op])
  try:
    for group in groups:
      first_frames = []
      for op in group:
        h, at_sw, at_port, dst_kind, variant, size, gap = op
        if at_sw >= nsw: at_sw = nsw - 1
        if gap and gap > 0:
          w.advance(gap)
          if gap >= 11: rep.count("timeouts_crossed")
        uid += 1
        src = HOSTS[h]
        if variant == "groupsrc":
          # a (bogus) frame whose *source* is a group address: whatever the
          # bridge makes of it, frames *to* group addresses are still flooded
          src = BCAST if h % 2 else MCAST
          variant = "plain"
        if h in host_at and host_at[h] != (at_sw, at_port):
          rep.count("host_moves"); nt = True
        host_at[h] = (at_sw, at_port)
        if dst_kind == "bcast": dst = BCAST
        elif dst_kind == "mcast": dst = MCAST
        elif dst_kind == "stp":
          # any of the sixteen addresses a bridge does not forward
          dst = STP[:5] + bytes([uid % 16])
        elif dst_kind == "near_stp":
          # ... and their neighbours, which are ordinary group addresses
          dst = [bytes.fromhex("0180c2000010"), bytes.fromhex("0180c2000100"),
                 bytes.fromhex("0180c3000000")][uid % 3]
          rep.count("group_addresses_next_to_the_filtered_range")
        elif dst_kind == "lldpdst": dst = LLDP_DST
        elif dst_kind == "self": dst = src        # loopback / keepalive frames
        else: dst = HOSTS[dst_kind]
        raw = frame_for(src, dst, variant, size, uid)
        rep.count("frames")
        first_frames.append((at_sw, at_port, raw))
      # propagate through the line topology
      if len(first_frames) > 1:
        rep.count("bursts"); nt = True
        try:
          recs = net.arrive_burst(first_frames[0][0],
                                  [(p, r) for _, p, r in first_frames])
        except Exception:
          fire("exception while a switch/controller handles a burst of frames",
               traceback.format_exc()[-700:]); ok = False; break
        if net.burst_strays:
          fire("a frame was emitted that is none of the frames in flight",
               repr([(i, p, b[:18].hex()) for i, p, b in net.burst_strays[:3]]))
          ok = False; break
        queue = [(i, p, r, rec) for (i, p, r), rec in zip(first_frames, recs)]
      else:
        queue = [first_frames[0] + (None,)]
      hops = 0
      while queue and ok:
        i, port, fr, rec = queue.pop(0)
        hops += 1
        if hops > 50:
          fire("frame circulates", "more than 50 switch arrivals"); ok = False; break
        try:
          if rec is None: rec = net.arrive(i, port, fr)
        except Exception:
          fire("exception while a switch/controller handles a frame",
               traceback.format_exc()[-700:]); ok = False; break
        if not judge_arrival(i, port, fr, rec):
          ok = False; break
        outs = rec["out"]
        # links
        for p, b in outs:
          if p == 2 and i + 1 < nsw: queue.append((i + 1, 1, b, None))
          elif p == 1 and i - 1 >= 0: queue.append((i - 1, 2, b, None))
      if not ok: break
      # clause 6: at quiescence no buffer id is outstanding
      for i, tap in enumerate(net.taps):
        if tap.get("starved"):
          fire("switch sends an unbuffered packet-in although released "
               "buffers should be free again",
               "switch %d: %d ids outstanding, pool %d" %
               ((i,) + tap["starved"]))
          ok = False; break
        if tap["outstanding"]:
          fire("buffered packet handed to the controller was never released",
               "switch %d buffer ids %r (pool %d)" %
               (i, sorted(tap["outstanding"]), pool))
          ok = False; break
      if not ok: break
    for tap in net.taps:
      rep.count("buffers_released", tap["released"])
      rep.count("unbuffered_packet_ins",
                sum(1 for m in tap["pins"] if m["buffer_id"] == 0xffffffff))
  finally:
    net.close()
  return nt


def do_case (case, rep):
  try:
    nt = run_case(case, rep)
  except simnet.AdapterError:
    raise
  except Exception:
    rep.violation("C11 harness-visible exception",
                  traceback.format_exc()[-900:], case)
    nt = True
  rep.case(repr((case["nsw"], case["pool"], case["ops"])).encode(),
           nontrivial=bool(nt))


def gen_exhaustive (n, shard, nshards, nsw):
  """All sequences of n frames over 3 hosts at fixed attachment points."""
  import itertools
  att = {0: (0, 3), 1: (0, 4), 2: (nsw - 1, 3)}
  sym = []
  for h in range(3):
    for d in [0, 1, 2, "bcast"]:
      if d == h: continue
      sym.append((h, d))
  sym.append((0, "stp")); sym.append((1, "lldpdst")); sym.append((0, "self"))
  i = 0
  for combo in itertools.product(sym, repeat=n):
    for pool in (0, 1, 100):
      i += 1
      if i % nshards != shard: continue
      ops = []
      for (h, d) in combo:
        ops.append([h, att[h][0], att[h][1], d, "plain", 50, 0])
      # then the same again after the flows have idled out
      ops.append([combo[0][0], att[combo[0][0]][0], att[combo[0][0]][1],
                  combo[0][1], "plain", 50, 11])
      yield dict(nsw=nsw, pool=pool, ops=ops)
      if nsw == 1:
        # ... and the same frames arriving as one burst (all at the switch
        # before the controller answers the first)
        bops = [list(o) for o in ops[:-1]]
        for o in bops[1:]: o[6] = -1
        yield dict(nsw=nsw, pool=pool, ops=bops + [ops[-1]])


def gen_moves (rng, count):
  """A host moves in the middle of a conversation whose flows are alive and
  goes on sending the very same frames from its new port; then somebody
  talks to it."""
  for _ in range(count):
    nsw = 1                       # (all four ports are host ports then)
    pool = rng.choice([0, 1, 100])
    a, b, c = rng.sample(range(4), 3)
    sw_ = 0
    pa, pb, pa2 = rng.sample([1, 2, 3, 4], 3)
    # (icmp, tcp and vlan_ip frames of one pair of stations are not all one
    #  conversation: type and code, addresses and ports change from frame to
    #  frame, and a flow cached for one of them is none for the next)
    variant = rng.choice(["plain", "plain", "ip", "tcp", "arp", "icmp", "icmp", "vlan_ip", "ipother"])
    size = rng.choice([50, 100])
    ops = [[b, sw_, pb, rng.choice(["bcast", a]), variant, size, 0],
           [a, sw_, pa, b, variant, size, 0]]
    if rng.random() < 0.5: ops.append([b, sw_, pb, a, variant, size, 0])
    ops.append([a, sw_, pa2, b, variant, size, rng.choice([0, 0, 5])])
    talker = rng.choice([b, c])
    ops.append([talker, sw_, pb if talker == b else rng.choice([p for p in (1, 2, 3, 4)
                                                               if p not in (pb, pa, pa2)]),
                a, rng.choice([variant, "plain", "icmp"]), size, rng.choice([0, 0, 5, 11])])
    if rng.random() < 0.5:
      ops.append([a, sw_, rng.choice([pa, pa2]), b, variant, size, 0])
      ops.append([b, sw_, pb, a, variant, size, 0])
    yield dict(nsw=nsw, pool=pool, ops=ops)


def gen_mass (rng, sizes):
  """Very many stations behind one switch: each is heard once, then some of
  the first and some of the last are spoken to - every one of them is still
  known on its port, however many came after it."""
  for n in sizes:
    ops = [[h, 0, 1 + h % 4, "bcast", "plain", 50, 0] for h in range(n)]
    for _ in range(12):
      d = rng.choice([0, 1, 2, 3, n // 2, n - 1, n - 2, rng.randrange(n)])
      src = rng.choice([x for x in (0, 1, 5, n - 1, n - 3) if x != d and x % 4 != d % 4] or [d + 1])
      ops.append([src, 0, 1 + src % 4, d, "plain", 50, 0])
    yield dict(nsw=1, pool=rng.choice([0, 100]), ops=ops, mass=n)


def gen_random (rng, count, maxlen):
  for _ in range(count):
    nsw = rng.choice([1, 2, 2, 3])
    pool = rng.choice([0, 1, 1, 100, 2, 3])
    nh = rng.randrange(2, 6)
    att = {h: (rng.randrange(nsw), rng.choice([3, 4])) for h in range(nh)}
    ops = []
    for _ in range(rng.randrange(3, maxlen)):
      h = rng.randrange(nh)
      if rng.random() < 0.08:
        att[h] = (rng.randrange(nsw), rng.choice([3, 4]))   # host moves
      r = rng.random()
      if r < 0.58: d = rng.choice([x for x in range(nh) if x != h])
      elif r < 0.62: d = "self"
      elif r < 0.77: d = "bcast"
      elif r < 0.85: d = "mcast"
      elif r < 0.90: d = "stp"
      elif r < 0.94: d = "near_stp"
      else: d = "lldpdst"
      variant = rng.choice(["plain", "plain", "ip", "vlan", "lldp", "groupsrc",
                            "arp", "tcp", "icmp", "llc", "vlan_ip", "frag", "frag_first", "ipother", "ipother"]
                           if rng.random() < 0.35 else ["plain"])
      size = rng.choice([42, 50, 100, 124, 200, 1400])
      # (10 s idle, 30 s hard, a table sweep every 2 s: gaps that end just
      #  after the sweep that had to remove a flow, too)
      gap = rng.choice([0, 0, 0, 0, 0, 0, 5, 5, 11, 11, 31, 31, 12.5, 13.5, 32.5])
      if ops and rng.random() < 0.2 and ops[-1][1] == att[h][0]:
        gap = -1                     # arrives together with the frame before
      ops.append([h, att[h][0], att[h][1], d, variant, size, gap])
    yield dict(nsw=nsw, pool=pool, ops=ops)


def plan (tier, seed):
  if tier == "quick":
    return ([dict(mode="exh", n=2, nsw=1, shard=i, nshards=4) for i in range(4)] +
            [dict(mode="exh", n=2, nsw=2, shard=i, nshards=4) for i in range(4)] +
            [dict(mode="exh", n=3, nsw=2, shard=i, nshards=64) for i in range(4)] +
            [dict(mode="rand", count=80, maxlen=60, sub=i) for i in range(4)] +
            [dict(mode="moves", count=150, sub=i) for i in range(2)] +
            [dict(mode="mass", sizes=[70, 300], sub=0), dict(mode="mass", sizes=[1100], sub=1)])
  return ([dict(mode="exh", n=3, nsw=1, shard=i, nshards=8) for i in range(8)] +
          [dict(mode="exh", n=3, nsw=2, shard=i, nshards=8) for i in range(8)] +
          [dict(mode="exh", n=4, nsw=2, shard=i, nshards=64) for i in range(32)] +
          [dict(mode="exh", n=4, nsw=1, shard=i, nshards=32) for i in range(16)] +
          [dict(mode="rand", count=1500, maxlen=200, sub=i) for i in range(32)] +
          [dict(mode="moves", count=4000, sub=i) for i in range(8)] +
          [dict(mode="mass", sizes=[k], sub=k) for k in (130, 260, 520, 1030, 2060, 4100, 5900)])


def run (spec, rep):
  if spec["mode"] == "exh":
    g = gen_exhaustive(spec["n"], spec["shard"], spec["nshards"], spec["nsw"])
  elif spec["mode"] == "moves":
    rng = random.Random("c11/moves/%d/%d" % (spec["seed"], spec["sub"]))
    g = gen_moves(rng, spec["count"])
  elif spec["mode"] == "mass":
    rng = random.Random("c11/mass/%d/%d" % (spec["seed"], spec["sub"]))
    g = gen_mass(rng, spec["sizes"])
  else:
    rng = random.Random("c11/%d/%d" % (spec["seed"], spec["sub"]))
    g = gen_random(rng, spec["count"], spec["maxlen"])
  first = True
  for case in g:
    if case.get("mass"):
      rep.count("histories_with_very_many_stations")
      rep.maxi("stations_behind_one_switch", case["mass"])
    do_case(case, rep)
    if first and not case.get("mass"): rep.sample(case); first = False


def replay (witness, rep):
  do_case(witness, rep)
