"""
C07 - hand-off between threads and the scheduler is race-free; cooperative
locks exclude.

(a) Real threads (scheduler thread, select-hub thread, 1-3 foreign threads)
    run under the interleaving controller (engine E3): every source line of
    the hand-off code in recoco is a possible switch point; blocking is
    modelled, so deadlocks and lost wake-ups are logical facts, not
    time-outs.  Schedules are explored by DFS with a preemption bound,
    PCT-style random priorities and uniform random choice.
(b) recoco.Lock under the plain (single-threaded) scheduler: all small
    programs of acquire/release/yield steps.
"""
import itertools
import random
import traceback

from pvm import ilv

ID = "C07"
LEVEL = "exploration"
RULE = ("(a) a case is (scenario: 1-3 foreign threads x 1-3 operations from "
        "{callLater, raiseLater, schedule(sleeping task), synchronized "
        "section, nested synchronized}, hub threaded or inline, scheduler "
        "started before or after the first submission; schedule: list of "
        "choices at decision points); (b) a case is a program of 2-4 tasks x "
        "<= 3 lock operations on 1-2 locks with yields; non-trivial = the "
        "schedule preempts a thread at least once / a task had to wait for a "
        "lock; distinct = distinct (scenario, interleaving signature) / "
        "distinct program")
ASSUMPTIONS = ["yield points are source lines of the recoco hand-off "
               "functions; CPython can switch between bytecodes, so this "
               "under-approximates the real interleaving space",
               "a timed wait released by its timeout while handed-off work "
               "is pending counts as 'relied on the polling timeout'",
               "condition variables inside queue.Queue are not controlled "
               "(they never block here)"]
REQUIRED = ["lock_programs_whose_tasks_nobody_else_refers_to", "schedules", "distinct_interleavings", "preempting_schedules",
            "calllater_functions_checked", "wakes_checked", "sync_sections",
            "sync_sections_that_take_longer_than_the_poll_interval",
            "wakes_of_a_task_that_was_queued_by_its_own_doing",
            "lock_programs", "lock_waits", "threaded_hub_runs",
            "inline_hub_runs", "burst_handoffs",
            "handed_over_functions_that_raise", "handoffs_by_cooperative_tasks",
            "wakes_that_found_the_task_queued", "handoffs_through_the_core_object",
            "locks_created_locked", "releases_by_a_task_that_does_not_hold_the_lock",
            "runs_on_a_scheduler_that_is_not_the_default_one"]
TIMEOUT = {"quick": 1500, "thorough": 10800}


def rcmod ():
  import pox.lib.recoco.recoco as rc
  return rc


def hand_off_codes ():
  rc = rcmod()
  import pox.lib.util as U
  fs = [rc.Scheduler.callLater, rc.Scheduler.schedule, rc.Scheduler.fast_schedule,
        rc.Scheduler.run, rc.Scheduler.cycle, rc.Scheduler.runThreaded,
        rc.Scheduler.synchronized, rc.CallLaterTask.callLater,
        rc.CallLaterTask.run, rc.ScheduleTask.run, rc.ScheduleTask.__init__,
        rc.SelectHub.idle, rc.SelectHub.break_idle, rc.SelectHub._select,
        rc.SelectHub.registerSelect, rc.SelectHub._cycle, rc.SelectHub._return,
        rc.SelectHub._threadProc, rc.Synchronizer.__enter__,
        rc.Synchronizer.__exit__, rc.SyncTask.run, rc.SyncTask.__init__,
        rc.BaseTask.start, rc.Select.execute]
  p = U.makePinger()
  for n in ("ping", "pongAll", "pong_all", "pong"):
    f = getattr(type(p), n, None)
    if f is not None: fs.append(f)
  codes = [f.__code__ for f in fs]
  # ... and every other code object that lives in recoco.py (methods, nested
  # functions, lambdas, whatever a future helper is called): a race must not
  # become invisible by moving into a function this list does not name
  import types
  seen = set(id(c) for c in codes)
  def walk (co):
    if id(co) in seen: return
    seen.add(id(co)); codes.append(co)
    for k in co.co_consts:
      if isinstance(k, types.CodeType): walk(k)
  fn = rc.__file__
  def of_obj (o, depth=0):
    if isinstance(o, (staticmethod, classmethod)): o = o.__func__
    if isinstance(o, property):
      for g in (o.fget, o.fset, o.fdel):
        if g is not None: of_obj(g)
      return
    co = getattr(o, "__code__", None)
    if isinstance(co, types.CodeType) and co.co_filename == fn:
      for k in [co] + [k for k in co.co_consts if isinstance(k, types.CodeType)]:
        walk(k)
    elif isinstance(o, type) and getattr(o, "__module__", None) == rc.__name__ and depth < 2:
      for v in list(vars(o).values()): of_obj(v, depth + 1)
  # (limited to the classes that take part in the hand-off; construction,
  #  printing and finalisers are left alone: a switch inside __del__ or in the
  #  middle of creating the hub thread wedges the controlled run)
  for cls in (rc.Scheduler, rc.CallLaterTask, rc.ScheduleTask, rc.SelectHub,
              rc.Synchronizer, rc.SyncTask):
    for name, v in list(vars(cls).items()):
      if name.startswith("__") and name not in ("__enter__", "__exit__"): continue
      if name in ("quit", "_threadProc") and False: continue
      of_obj(v, 1)
  # (the first len(fs) entries are the named ones)
  return codes


_codes = {}


def run_scenario (scn, schedule, policy, seed):
  """Executes one schedule of one scenario.  Returns dict of observations."""
  rc = rcmod()
  if "c" not in _codes: _codes["c"] = hand_off_codes()
  rng = random.Random(seed)
  pct = None
  if policy == "pct":
    pct = [rng.randrange(10, 1500) for _ in range(3)]
  instr = []
  if scn.get("instr"):
    # the submission side of the hand-off at instruction granularity
    instr = [f.__code__ for f in (rc.CallLaterTask.callLater,
                                  rc.Scheduler.fast_schedule)]
  clock = None
  if scn.get("tick_nap"):
    # waits of different lengths are released in the order of their deadlines
    import types
    clock = types.SimpleNamespace(now=0.0)
  ctl = ilv.Controller([c for c in _codes["c"] if c not in instr],
                       schedule=schedule, policy=policy, rng=rng, clock=clock,
                       max_steps=60000, pct_points=pct, instr_codes=instr)
  shim = ilv.ThreadingShim(ctl)
  saved = (rc.threading, rc.Thread, rc.defaultScheduler, rc.select)
  class SelectShim (object):
    error = rc.select.error
  SelectShim.select = staticmethod(ctl.make_select())
  # (the hub thread is started inside Scheduler.__init__, so the controlled
  #  select must be what SelectHub picks up from the module global)
  rc.threading = shim; rc.Thread = ilv.CThread; rc.defaultScheduler = None
  rc.select = SelectShim
  obs = dict(calls=[], steps=[], sync=[], log=[], wakes=0, ready_dups=[],
             violations=[], sched_lid=None, pending=0, phase="work")
  order = [0]
  state = {}

  def main ():
    if scn.get("second_scheduler"):
      # another scheduler exists in the process (and is the default one); it
      # is idle.  The hand-offs below are all made to `sched` by name, and
      # that is the scheduler that has to honour them.
      state["other"] = rc.Scheduler(isDefaultScheduler=True, daemon=True,
                                    startInThread=False, threaded_selecthub=False)
      sched = rc.Scheduler(isDefaultScheduler=False, daemon=True,
                           startInThread=False,
                           threaded_selecthub=scn["threaded_hub"])
    else:
      sched = rc.Scheduler(daemon=True, startInThread=False,
                           threaded_selecthub=scn["threaded_hub"])
    state["sched"] = sched
    hub = sched._selectHub
    real_cycle = sched.cycle
    def cycle ():
      seen = set()
      for t in list(sched._ready):
        if id(t) in seen:
          obs["ready_dups"].append(repr(t))
        seen.add(id(t))
      return real_cycle()
    sched.cycle = cycle
    # a cooperative ticker whose steps must never fall inside a sync section
    class Ticker (rc.BaseTask):
      def run (self_):
        coop = list(scn.get("coop", ()))
        for i in range(scn.get("ticks", 6)):
          if scn.get("ticks_stop_with_threads") and obs.get("foreign_done"): break
          order[0] += 1
          obs["log"].append(("step", "ticker", order[0]))
          if coop:
            # the cooperative side takes part in the hand-off too: a task
            # wakes another task / hands a function over while foreign
            # threads do the same
            foreign_op("tk", coop.pop(0), seqs)
          yield scn.get("tick_nap", 0)
        yield False
    class Spinner (rc.BaseTask):
      # a task that is runnable all the time: a wake-up always finds it queued
      def run (self_):
        while not state.get("spin_stop") and not obs.get("foreign_done") \
            and state.get("spins", 0) < 150:
          state["spins"] = state.get("spins", 0) + 1
          yield 0
        yield False
    class Sleeper (rc.BaseTask):
      def run (self_):
        # (optionally it is busy first - queued by its own doing, so that a
        #  wake-up from outside finds it queued already - and only then goes
        #  to sleep)
        for i in range(scn.get("sleeper_spins", 0)):
          yield 0
        while True:
          order[0] += 1
          obs["log"].append(("step", "sleeper", order[0]))
          obs["wakes"] += 1
          state["sleeper_runs"] = state.get("sleeper_runs", 0) + 1
          state["sleeper_asleep"] = True
          yield False
          state["sleeper_asleep"] = False
    if scn.get("napper"):
      # a cooperative task that keeps registering short timed waits with the
      # hub while the foreign threads do their hand-offs: each registration is
      # itself a hand-off (scheduler thread -> hub thread) through the hub's
      # incoming queue and pinger
      class Napper (rc.BaseTask):
        def run (self_):
          for i in range(scn["napper"]):
            state["naps_started"] = state.get("naps_started", 0) + 1
            yield 0.001
            state["naps_done"] = state.get("naps_done", 0) + 1
          yield False
      state["napper_task"] = Napper()
      state["napper_task"].start(sched, fast=True)
    if any("wake_spin" in ops for ops in scn["threads"]) or "wake_spin" in scn.get("coop", ()):
      spinner = Spinner(); spinner.start(sched, fast=True)
      state["spinner"] = spinner
    tick = Ticker(); tick.start(sched, fast=True)
    sleeper = Sleeper(); sleeper.start(sched, fast=True)
    state["sleeper"] = sleeper
    started = [False]
    def start_sched ():
      if not started[0]:
        started[0] = True
        sched.runThreaded(True)
        obs["sched_lid"] = sched._thread.lid
    def foreign (tag, ops):
      ops = list(ops)
      while ops:
        op = ops.pop(0)
        if op == "sbatch":
          # several hand-overs made while the scheduler is held off, the first
          # of them a function that fails: they are drained as one batch
          with sched.synchronized():
            for sub in ("clx", "cl", "cl"):
              foreign_op(tag, sub, seqs)
          continue
        foreign_op(tag, op, seqs)
        if not started[0] and not scn["start_first"]:
          start_sched()
    seqs = {}
    EXC = dict(IndexError=IndexError, KeyError=KeyError, ValueError=ValueError,
               StopIteration=StopIteration, LookupError=LookupError,
               SystemExit=SystemExit, GeneratorExit=GeneratorExit)
    import types as _types
    import pox.core as _pc
    class _Core (object):
      scheduler = sched
      call_later = _pc.POXCore.call_later
      callLater = _pc.POXCore.callLater
      raiseLater = _pc.POXCore.raiseLater
    CORE = _Core()
    def foreign_op (tag, op, seqs):
        if op in ("cl", "rl", "clx"):
          seq = seqs[tag] = seqs.get(tag, 0) + 1
          obs["pending"] += 1
          def f (tag=tag, seq=seq, fails=(op == "clx")):
            order[0] += 1
            obs["calls"].append((tag, seq, ctl.me(), order[0]))
            obs["pending"] -= 1
            if fails:
              # a handed-over function that fails is logged and skipped; the
              # ones behind it still run
              obs["raised"] = obs.get("raised", 0) + 1
              raise EXC[scn.get("exc", "ValueError")]("handed-over function fails on purpose")
          if op in ("cl", "clx"):
            if scn.get("via_core"):
              # through the public entry points of the core object
              CORE.call_later(f) if seq % 2 else CORE.callLater(f)
            elif seq % 3 == 0:
              # arguments travel with the function
              def g (a, b=None, _f=f):
                if (a, b) != ("pos", "kw"):
                  obs["violations"].append(("call-later arguments lost",
                                            "got %r %r" % (a, b)))
                return _f()
              sched.callLater(g, "pos", b="kw")
            else:
              sched.callLater(f)
          else:
            import pox.lib.revent.revent as R
            class Ev (R.Event): pass
            class Src (R.EventMixin):
              _eventMixin_events = set([Ev])
            src = Src()
            src.addListener(Ev, lambda e: f())
            if scn.get("via_core"): CORE.raiseLater(src, Ev)
            else: sched.callLater(src.raiseEvent, Ev)
        elif op == "wake_spin":
          obs["spin_wakes"] = obs.get("spin_wakes", 0) + 1
          if state["spinner"] in sched._ready: obs["spin_wakes_found_queued"] = \
              obs.get("spin_wakes_found_queued", 0) + 1
          sched.schedule(state["spinner"])
        elif op in ("wake", "wake_late"):
          if op == "wake_late":
            # a wake-up that is certainly issued after the task went to sleep
            ctl.block(lambda: state.get("sleeper_asleep"), None, "await-asleep")
          if state.get("sleeper_asleep") or not scn.get("sleeper_spins"):
            state["last_wake_runs"] = state.get("sleeper_runs", 0)
            state["wake_pending"] = True
            obs["pending_wake"] = True
            obs["wakes_while_asleep"] = obs.get("wakes_while_asleep", 0) + 1
          else:
            # (the task is still busy: this wake-up changes nothing)
            obs["wakes_while_busy"] = obs.get("wakes_while_busy", 0) + 1
          if scn.get("wake_first"):
            # (the documented variant "and run it next": a wake-up like any other)
            obs["wakes_asking_to_run_first"] = obs.get("wakes_asking_to_run_first", 0) + 1
            sched.schedule(sleeper, True)
          else:
            sched.schedule(sleeper)
        elif op in ("sync", "sync2", "sync_long"):
          with sched.synchronized():
            order[0] += 1
            obs["log"].append(("enter", tag, order[0]))
            if op == "sync_long":
              # the section's work takes (virtual) seconds, every other
              # thread has long run out of things to do meanwhile
              state["long"] = state.get("long", 0) + 1
              obs["long_sections"] = obs.get("long_sections", 0) + 1
              ctl.block(lambda: False, 5.0, "work-in-section")
              state["long"] -= 1
            if op == "sync2":
              with sched.synchronized():
                order[0] += 1
                obs["log"].append(("inner", tag, order[0]))
            ctl.yield_point("inside-sync")
            order[0] += 1
            obs["log"].append(("exit", tag, order[0]))
    if scn["start_first"]: start_sched()
    ths = []
    for i, ops in enumerate(scn["threads"]):
      t = ilv.CThread(target=foreign, args=("t%d" % i, ops))
      ths.append(t); t.start()
    start_sched()
    for t in ths: t.join()
    obs["foreign_done"] = True

  def on_idle (c):
    sched = state.get("sched")
    if sched is None: return False
    if obs["phase"] == "work":
      if state.get("long"):
        # somebody is busy inside a synchronized section: that the others
        # are waiting is what the section is for
        return True
      hub = sched._selectHub
      try:
        stranded = not hub._incoming.empty()
      except Exception:
        stranded = False
      if stranded:
        obs["violations"].append((
          "hand-off relies on the polling timeout",
          "every thread is blocked while a task's registration sits in the "
          "select hub's incoming queue (its wake-up ping was consumed without "
          "the queue being read); only the hub's poll timeout finds it"))
        return False
      wake_needed = state.get("wake_pending") and \
          state.get("sleeper_runs", 0) <= state.get("last_wake_runs", 0)
      if obs["pending"] > 0 or wake_needed:
        if obs.get("foreign_done") or True:
          obs["violations"].append((
            "hand-off relies on the polling timeout",
            "every thread is blocked while %d handed-off call(s)%s are "
            "pending; only the %s poll timeout gets things moving again" %
            (obs["pending"], " and a wake-up" if wake_needed else "",
             "scheduler/hub")))
          return False
      if not obs.get("foreign_done"):
        # foreign threads blocked forever with nothing enabled
        return True
      want_naps = scn.get("napper", 0)
      if state.get("naps_done", 0) < want_naps and state.get("nap_idles", 0) < 50:
        # a timed wait is still outstanding: nothing to flag as long as the
        # wait itself is what everybody is blocked on (the hub's select)
        state["nap_idles"] = state.get("nap_idles", 0) + 1
        if state.get("napper_task") in sched._ready:
          obs["violations"].append((
            "hand-off relies on the polling timeout",
            "a task whose timed wait expired sits in the ready queue while "
            "every thread is blocked (the hub returned it without waking the "
            "scheduler)"))
          return False
        return True
      obs["phase"] = "shutdown"
      state["spin_stop"] = True
      sched._hasQuit = True
      return True
    return True

  ctl.on_idle = on_idle
  try:
    ok = ctl.run(main, wall_timeout=30)
  finally:
    rc.threading, rc.Thread, rc.defaultScheduler, rc.select = saved
  obs["naps_done"] = state.get("naps_done", 0)
  obs["ok"] = ok
  obs["failure"] = ctl.failure
  obs["trace"] = ctl.trace
  obs["sig"] = ctl.signature()
  obs["preemptions"] = ctl.preemptions
  obs["sites"] = ctl.sites
  obs["timeouts"] = list(ctl.timeouts_fired)
  obs["steps_taken"] = ctl.steps
  obs["watchdog"] = getattr(ctl, "watchdog", False)
  return obs


def judge (scn, obs, fire, rep):
  if obs["watchdog"]:
    return "inconclusive"
  for k, w in obs["violations"]:
    fire(k, w); return
  if obs["failure"]:
    f = obs["failure"]
    if f.startswith("deadlock"):
      fire("deadlock between threads and scheduler", f)
    elif f.startswith("step limit"):
      fire("livelock (step limit)", f)
    else:
      fire("a thread died", f[:800])
    return
  if obs["ready_dups"]:
    fire("task queued twice at once", repr(obs["ready_dups"][:2])); return
  # call-later functions: exactly once, on the scheduler thread, in order
  if obs.get("raised"): rep.count("handed_over_functions_that_raise", obs["raised"])
  want = {}
  for i, ops in enumerate(scn["threads"]):
    n = sum(1 for o in ops if o in ("cl", "rl", "clx")) + 3 * ops.count("sbatch")
    if n: want["t%d" % i] = n
  n = sum(1 for o in scn.get("coop", ()) if o in ("cl", "rl", "clx"))
  if n:
    want["tk"] = n; rep.count("handoffs_by_cooperative_tasks", n)
  if obs.get("spin_wakes_found_queued"):
    rep.count("wakes_that_found_the_task_queued", obs["spin_wakes_found_queued"])
  if scn.get("via_core"): rep.count("handoffs_through_the_core_object")
  if scn.get("napper"):
    if obs.get("naps_done", 0) != scn["napper"] and not obs["violations"]:
      fire("timed wait of a cooperative task never returned",
           "%d of %d naps finished" % (obs.get("naps_done", 0), scn["napper"])); return
  got = {}
  for (tag, seq, lid, o) in obs["calls"]:
    got.setdefault(tag, []).append((o, seq, lid))
  for tag, n in want.items():
    g = sorted(got.get(tag, []))
    rep.count("calllater_functions_checked", n)
    seqs = [s for (_, s, _) in g]
    if sorted(seqs) != list(range(1, n + 1)):
      fire("call-later function %s" %
           ("ran more than once" if len(seqs) > len(set(seqs)) else "never ran"),
           "thread %s submitted %d, executed seqs %r" % (tag, n, seqs)); return
    if seqs != sorted(seqs):
      fire("call-later functions ran out of submission order",
           "thread %s: %r" % (tag, seqs)); return
    for (_, s, lid) in g:
      if lid != obs["sched_lid"]:
        fire("call-later function ran on a foreign thread",
             "thread %s seq %d ran on logical thread %r (scheduler is %r)" %
             (tag, s, lid, obs["sched_lid"])); return
  # wake-ups
  nwake = sum(1 for ops in scn["threads"] for o in ops if o in ("wake", "wake_late")) + \
      sum(1 for o in scn.get("coop", ()) if o == "wake")
  if nwake:
    rep.count("wakes_checked", nwake)
    if obs.get("wakes_asking_to_run_first"):
      rep.count("wakes_asking_to_run_first", obs["wakes_asking_to_run_first"])
    if obs.get("wakes_while_busy"):
      rep.count("wakes_of_a_task_that_was_queued_by_its_own_doing", obs["wakes_while_busy"])
    runs = obs["wakes"]
    if runs < 2 and obs.get("wakes_while_asleep", 0) > 0:
      fire("woken task never ran", "sleeper ran %d times in total" % runs); return
    if runs > 1 + nwake:
      fire("woken task ran more often than it was woken",
           "%d runs for %d wake-ups" % (runs - 1, nwake)); return
  # synchronized sections exclude task steps
  for _ in range(obs.get("long_sections", 0)):
    rep.count("sync_sections_that_take_longer_than_the_poll_interval")
  inside = {}
  for (kind, who, o) in sorted(obs["log"], key=lambda x: x[2]):
    if kind == "enter": inside[who] = o; rep.count("sync_sections")
    elif kind == "exit": inside.pop(who, None)
    elif kind == "step" and inside:
      fire("cooperative task ran inside a synchronized section",
           "%s stepped while %r inside synchronized()" % (who, sorted(inside)))
      return


def do_schedule (scn, schedule, policy, seed, rep, case_extra=None):
  case = dict(kind="threads", scn=scn, schedule=schedule, policy=policy,
              seed=seed)
  def fire (key, what):
    rep.violation("C07 threads: " + key, what, case)
  try:
    obs = run_scenario(scn, schedule, policy, seed)
  except Exception:
    rep.violation("C07 harness-visible exception",
                  traceback.format_exc()[-900:], case)
    return None
  # the replay artefact is the full list of choices actually taken
  case["schedule"] = [t[1] for t in obs["trace"]]
  case["policy"] = "nonpreemptive"
  r = judge(scn, obs, fire, rep)
  if r == "inconclusive":
    rep.inconclusive_because("wall-clock watchdog in C07 scenario")
  rep.count("schedules")
  rep.count("threaded_hub_runs" if scn["threaded_hub"] else "inline_hub_runs")
  if scn.get("second_scheduler"): rep.count("runs_on_a_scheduler_that_is_not_the_default_one")
  if obs["preemptions"]: rep.count("preempting_schedules")
  rep.maxi("preemptions", obs["preemptions"])
  rep.maxi("yield_points_per_run", obs["steps_taken"])
  for s in obs["sites"]:
    rep.extra.setdefault("switch_sites", {})
    rep.extra["switch_sites"][s] = rep.extra["switch_sites"].get(s, 0) + obs["sites"][s]
  key = repr((scn, obs["sig"]))
  rep.case(key.encode(), nontrivial=obs["preemptions"] > 0)
  return obs


def explore_dfs (scn, bound, limit, rep):
  work = [[]]
  seen = set()
  n = 0
  pick = random.Random(repr(scn))
  while work and n < limit:
    # (random pick from the frontier: plain depth-first order would spend the
    #  whole budget on flips near the end of the run)
    sch = work.pop(pick.randrange(len(work)))
    obs = do_schedule(scn, sch, "nonpreemptive", 0, rep)
    n += 1
    if obs is None: continue
    sig = obs["sig"]
    if sig in seen: continue
    seen.add(sig)
    for ch in ilv.children(obs["trace"], len(sch), bound):
      work.append(ch)
  rep.count("distinct_interleavings", len(seen))
  return n


SCENARIOS = [
  dict(threads=[["wake"], ["cl"]], threaded_hub=True, start_first=True, wake_first=True),
  dict(threads=[["wake"]], threaded_hub=False, start_first=True, wake_first=True),
  dict(threads=[["cl", "cl"]], threaded_hub=True, start_first=True),
  dict(threads=[["cl"], ["cl"]], threaded_hub=True, start_first=True),
  dict(threads=[["cl"], ["cl"]], threaded_hub=False, start_first=True),
  dict(threads=[["cl", "cl"], ["cl"]], threaded_hub=True, start_first=False),
  dict(threads=[["wake"], ["wake"]], threaded_hub=True, start_first=True),
  dict(threads=[["wake", "cl"], ["wake"]], threaded_hub=False, start_first=True),
  dict(threads=[["sync"], ["cl"]], threaded_hub=True, start_first=True),
  dict(threads=[["sync2"], ["sync"]], threaded_hub=False, start_first=True),
  dict(threads=[["rl", "sync"], ["wake", "cl"]], threaded_hub=True, start_first=True),
  dict(threads=[["cl"], ["wake"], ["sync"]], threaded_hub=True, start_first=False),
  dict(threads=[["cl"], ["cl"]], threaded_hub=False, start_first=True, instr=True),
  dict(threads=[["cl", "cl"], ["wake"]], threaded_hub=True, start_first=True, instr=True),
  dict(threads=[["cl"]], threaded_hub=True, start_first=True, napper=3),
  dict(threads=[["wake"], ["cl"]], threaded_hub=True, start_first=True, napper=2),
  dict(threads=[["sbatch"]], threaded_hub=True, start_first=True, exc="IndexError"),
  dict(threads=[["clx", "cl"], ["cl"]], threaded_hub=False, start_first=True, exc="StopIteration"),
  dict(threads=[["sbatch"], ["clx"]], threaded_hub=True, start_first=True, exc="KeyError"),
  dict(threads=[["wake_spin"], ["wake_spin"]], threaded_hub=True, start_first=True),
  dict(threads=[["wake_spin", "cl"]], threaded_hub=False, start_first=True, coop=["wake_spin"]),
  dict(threads=[["cl"], ["wake"]], threaded_hub=True, start_first=True, coop=["cl", "wake", "cl"]),
  dict(threads=[["cl", "rl"], ["cl"]], threaded_hub=True, start_first=True, via_core=True),
  dict(threads=[["sync", "sync"], ["cl"]], threaded_hub=True, start_first=True, ticks=14),
  dict(threads=[["sync2", "sync"]], threaded_hub=False, start_first=True, ticks=14),
  dict(threads=[["sbatch", "sync"], ["cl"]], threaded_hub=True, start_first=True, exc="SystemExit", ticks=10),
  # a task that is woken while it is still busy, goes to sleep, is woken again
  dict(threads=[["wake", "wake", "wake_late"], ["wake", "cl"]], threaded_hub=True,
       start_first=True, sleeper_spins=12),
  dict(threads=[["wake", "wake_late", "wake_late"]], threaded_hub=False,
       start_first=True, sleeper_spins=6),
  dict(threads=[["sync_long"], ["sync_long"]], threaded_hub=True, start_first=True, ticks=40,
       ticks_stop_with_threads=True, tick_nap=0.5),
  dict(threads=[["sync_long", "cl"], ["cl", "sync_long"]], threaded_hub=False, start_first=True,
       ticks=40, ticks_stop_with_threads=True, tick_nap=0.5),
  # the scheduler that is handed the work is not the process's default one
  dict(threads=[["sync"], ["cl"]], threaded_hub=True, start_first=True, second_scheduler=True),
  dict(threads=[["sync2", "cl"], ["wake"]], threaded_hub=False, start_first=True,
       second_scheduler=True),
  dict(threads=[["cl", "rl"], ["wake", "sync"]], threaded_hub=True, start_first=False,
       second_scheduler=True),
]


# --------------------------------------------------------------------------
# (b) cooperative locks

def run_lock_program (case, rep):
  rc = rcmod()
  def fire (key, what):
    rep.violation("C07 lock: " + key, what, case)
  saved = rc.defaultScheduler
  rc.defaultScheduler = None
  sched = rc.Scheduler(daemon=True, startInThread=False, threaded_selecthub=False)
  nlocks = case["nlocks"]
  locks = [rc.Lock() for _ in range(nlocks)]
  holder = [None] * nlocks
  if case.get("locked0"):
    # a lock that is created locked (nobody in particular holds it): whoever
    # releases it hands it to a waiter
    locks[0] = rc.Lock(True)
    holder[0] = "someone"
    rep.count("locks_created_locked")
  waiting = [set() for _ in range(nlocks)]
  log = []
  done = set()
  bad = []
  def hook_check ():
    for i, L in enumerate(locks):
      try:
        if not L._locked and L._waiting:
          bad.append("lock %d is free but tasks are waiting for it" % i)
      except AttributeError:
        pass
  def prog (tid, steps):
    held = []
    for st in steps:
      if st[0] == "y":
        yield 0
      elif st[0] == "a":
        i = st[1]; blocking = st[2]
        if blocking: waiting[i].add(tid)
        r = yield locks[i].acquire(blocking)
        hook_check()
        waiting[i].discard(tid)
        if r:
          if holder[i] is not None and holder[i] != "handoff":
            bad.append("two holders: task %d acquired lock %d held by task %d"
                       % (tid, i, holder[i]))
          holder[i] = tid; held.append(i)
          log.append((tid, "acq", i))
        else:
          if blocking:
            bad.append("blocking acquire returned false")
          elif holder[i] is None:
            bad.append("non-blocking acquire failed on a free lock")
          log.append((tid, "fail", i))
      elif st[0] == "R":
        # release without being the holder (as with threading.Lock, that is
        # allowed): only when somebody holds it, a free lock refuses
        i = st[1]
        if holder[i] not in (None, "handoff") and i not in held:
          had_waiters = set(waiting[i])
          holder[i] = "handoff" if had_waiters else None
          log.append((tid, "rel", i, sorted(had_waiters)))
          rep.count("releases_by_a_task_that_does_not_hold_the_lock")
          yield locks[i].release()
          hook_check()
      elif st[0] == "r":
        i = st[1]
        if i in held and holder[i] == tid:
          held.remove(i)
          had_waiters = set(waiting[i])
          # with waiters the lock is handed over, it never becomes free
          holder[i] = "handoff" if had_waiters else None
          log.append((tid, "rel", i, sorted(had_waiters)))
          yield locks[i].release()
          hook_check()
    for i in list(held):
      if holder[i] != tid: continue       # somebody else released it for us
      holder[i] = "handoff" if waiting[i] else None
      log.append((tid, "rel", i, sorted(waiting[i])))
      yield locks[i].release()
      hook_check()
    done.add(tid)
    yield False
  tasks = []
  for tid, steps in enumerate(case["tasks"]):
    t = rc.Task(target=prog, args=(tid, steps))
    t.start(sched, fast=True)
    # (fire and forget: nobody but the scheduler - and, while it waits, the
    #  lock - knows a task that was started like this)
    if not case.get("forget"): tasks.append(t)
    del t
  if case.get("forget"): rep.count("lock_programs_whose_tasks_nobody_else_refers_to")
  n = 0
  while sched._ready and n < 5000:
    sched.cycle(); n += 1
    if case.get("forget") and n % 4 == 0:
      import gc; gc.collect()
  rc.defaultScheduler = saved
  rep.count("lock_programs")
  if any(len(e) == 4 and e[1] == "rel" and e[3] for e in log):
    rep.count("lock_waits")
  if bad:
    fire(bad[0].split(":")[0] if ":" in bad[0] else bad[0], "; ".join(bad[:3]) +
         " | log %r" % (log[-8:],)); return True
  if n >= 5000:
    fire("lock program does not terminate", repr(log[-8:])); return True
  for i in range(nlocks):
    if holder[i] in (None, "handoff") and waiting[i]:
      fire("a task stays blocked while the lock is free",
           "lock %d: waiting tasks %r, nobody holds it; log %r" %
           (i, sorted(waiting[i]), log[-10:]))
      return True
  # every task ran to its end, except those waiting for a lock that is held
  for tid in range(len(case["tasks"])):
    if tid in done: continue
    if any(tid in waiting[i] and holder[i] not in (None, "handoff") for i in range(nlocks)):
      continue
    fire("a task of the lock program vanished",
         "task %d neither finished nor waits for a held lock; log %r" % (tid, log[-8:]))
    return True
  # a release with waiters hands the lock to exactly one of them
  for k, e in enumerate(log):
    if e[1] == "rel" and e[3]:
      nxt = [x for x in log[k + 1:] if x[2] == e[2] and x[1] == "acq"]
      if not nxt or nxt[0][0] not in e[3]:
        fire("released lock was not handed to a waiting task",
             "release %r followed by %r" % (e, nxt[:1])); return True
  return any(len(e) == 4 and e[3] for e in log)


def gen_lock_programs (ntasks, nlocks, shard, nshards):
  steps = [("a", 0, True), ("r", 0), ("y",), ("a", 0, False)]
  if nlocks > 1: steps += [("a", 1, True), ("r", 1)]
  progs = []
  for k in range(1, 4):
    for p in itertools.product(steps, repeat=k):
      progs.append([list(x) for x in p])
  i = 0
  for combo in itertools.product(progs, repeat=ntasks):
    i += 1
    if i % nshards != shard: continue
    case = dict(kind="lock", nlocks=nlocks, tasks=[list(c) for c in combo])
    if i % 5 == 0: case["forget"] = True
    yield case


def gen_lock_sample (rng, n):
  """Sampled programs beyond the enumerated ones: up to four tasks, releases
  by non-holders, a lock that starts out locked."""
  steps = [("a", 0, True), ("a", 0, True), ("r", 0), ("y",), ("a", 0, False),
           ("R", 0), ("a", 1, True), ("r", 1)]
  for _ in range(n):
    nt = rng.choice([2, 3, 4, 4])
    tasks = [[list(rng.choice(steps)) for _ in range(rng.randrange(1, 4))]
             for _ in range(nt)]
    case = dict(kind="lock", nlocks=2, tasks=tasks)
    if rng.random() < 0.3:
      case["locked0"] = True
      tasks[-1] = [["y"], ["R", 0]] + tasks[-1][:1]
    if rng.random() < 0.25: case["forget"] = True
    if rng.random() < 0.3:
      # one holder, everybody else queues up behind it
      tasks[0] = [["a", 0, True], ["y"], ["y"], ["r", 0]]
      for t in tasks[1:]: t.insert(0, ["a", 0, True])
    yield case


def do_lock_case (case, rep):
  try:
    nt = run_lock_program(case, rep)
  except Exception:
    rep.violation("C07 harness-visible exception",
                  traceback.format_exc()[-900:], case)
    nt = True
  rep.case(repr((case["tasks"], case.get("locked0"), case.get("forget"))).encode() + bytes([case["nlocks"]]),
           nontrivial=bool(nt))


# --------------------------------------------------------------------------

def plan (tier, seed):
  if tier == "quick":
    sp = [dict(mode="dfs", scn=i, bound=1, limit=400) for i in range(len(SCENARIOS))]
    sp += [dict(mode="rand", scn=i % len(SCENARIOS), n=150, policy="random", sub=i)
           for i in range(4)]
    sp += [dict(mode="rand", scn=i % len(SCENARIOS), n=150, policy="pct", sub=i)
           for i in range(4)]
    sp += [dict(mode="lock", ntasks=2, nlocks=1, shard=i, nshards=2) for i in range(2)]
    sp += [dict(mode="lock", ntasks=2, nlocks=2, shard=i, nshards=40) for i in range(2)]
    sp += [dict(mode="lock", ntasks=3, nlocks=1, shard=i, nshards=600) for i in range(2)]
    sp += [dict(mode="locksample", n=3000, sub=i) for i in range(2)]
    sp += [dict(mode="mass", sizes=[1, 2, 1023, 1024, 1025, 2048, 3000])]
    # (the scenarios with a napping task: more of the budget, two preemptions)
    for i in range(len(SCENARIOS)):
      if SCENARIOS[i].get("napper") or SCENARIOS[i].get("instr"):
        sp.append(dict(mode="dfs", scn=i, bound=2, limit=1500))
        sp.append(dict(mode="rand", scn=i, n=600, policy="random", sub=100 + i, fixed=True))
        sp.append(dict(mode="rand", scn=i, n=600, policy="pct", sub=200 + i, fixed=True))
    return sp
  sp = []
  for i in range(len(SCENARIOS)):
    sp.append(dict(mode="dfs", scn=i, bound=1, limit=4000))
    sp.append(dict(mode="dfs", scn=i, bound=2, limit=15000))
    sp.append(dict(mode="dfs", scn=i, bound=3, limit=15000))
  sp += [dict(mode="rand", scn=i % len(SCENARIOS), n=4000, policy="random", sub=i)
         for i in range(30)]
  sp += [dict(mode="rand", scn=i % len(SCENARIOS), n=4000, policy="pct", sub=i)
         for i in range(30)]
  sp += [dict(mode="lock", ntasks=2, nlocks=1, shard=0, nshards=1)]
  sp += [dict(mode="lock", ntasks=2, nlocks=2, shard=i, nshards=8) for i in range(8)]
  sp += [dict(mode="lock", ntasks=3, nlocks=1, shard=i, nshards=32) for i in range(16)]
  sp += [dict(mode="locksample", n=150000, sub=i) for i in range(8)]
  sp += [dict(mode="mass", sizes=list(range(1000 + 8 * i, 1000 + 8 * i + 8)) +
              [2040 + i, 4090 + i, 8190 + i, 3 + i]) for i in range(8)]
  return sp


# --------------------------------------------------------------------------
# (c) many hand-offs pending at once

def do_mass (case, rep):
  """
  N functions are handed over before the scheduler gets to run (a burst from
  foreign threads while it is busy).  All must run exactly once, in order;
  and the wake-up pipe must never be read when it is empty - on the scheduler
  thread that read would block every task for good.  (Hook: os.read as seen
  by pox.lib.util is replaced by one that looks first.)
  """
  import os as _os
  import select as _sel
  import pox.lib.util as U
  rc = rcmod()
  N = case["n"]
  def fire (key, what):
    rep.violation("C07 burst: " + key, what, case)
  blocked = []
  class OsShim (object):
    def __getattr__ (self, n): return getattr(_os, n)
    def read (self, fd, n):
      if not _sel.select([fd], [], [], 0)[0]:
        blocked.append(fd)
        raise BlockingIOError("read of an empty wake-up pipe")
      return _os.read(fd, n)
  saved = (U.os, rc.defaultScheduler)
  U.os = OsShim(); rc.defaultScheduler = None
  ran = []
  try:
    sched = rc.Scheduler(daemon=True, startInThread=False,
                         threaded_selecthub=False)
    hub = sched._selectHub
    for i in range(N):
      sched.callLater(lambda i=i: ran.append(i))
    # a second, later burst (exercises "pong, then drain" twice)
    guard = 0
    extra_sent = False
    while guard < 50 + 4 * N:
      guard += 1
      if not sched._ready:
        fds = [hub._pinger] + [x for t in list(hub._tasks.values()) for x in (t[1] or [])]
        try:
          ready = _sel.select(fds, [], [], 0)[0]
        except (OSError, ValueError):
          ready = [1]
        if not ready and hub._incoming.empty():
          if extra_sent or not case.get("second"): break
          extra_sent = True
          for i in range(case["second"]):
            sched.callLater(lambda i=i: ran.append(N + i))
          continue
        hub.idle()
      sched.cycle()
    rep.count("burst_handoffs", N + (case.get("second") or 0))
    want = list(range(N + (case.get("second") if extra_sent else 0)))
    if blocked:
      fire("the wake-up pipe is read while empty (would block the scheduler "
           "thread)", "%d pending hand-offs" % N)
    elif ran != want:
      fire("handed-over functions lost, repeated or reordered",
           "%d submitted, %d ran; first %r" % (len(want), len(ran), ran[:5]))
    sched._hasQuit = True
  except Exception:
    fire("exception", traceback.format_exc()[-600:])
  finally:
    U.os, rc.defaultScheduler = saved
  rep.case(repr(("mass", N, case.get("second"))).encode(), nontrivial=N > 1)


def run (spec, rep):
  if spec["mode"] == "mass":
    for n in spec["sizes"]:
      for second in (0, 1, 1024):
        do_mass(dict(kind="mass", n=n, second=second), rep)
    rep.sample(dict(kind="mass", sizes=spec["sizes"]))
    return
  if spec["mode"] == "dfs":
    explore_dfs(SCENARIOS[spec["scn"]], spec["bound"], spec["limit"], rep)
    rep.sample(dict(scenario=SCENARIOS[spec["scn"]], mode="dfs",
                    bound=spec["bound"]))
  elif spec["mode"] == "rand":
    sigs = set()
    for i in range(spec["n"]):
      scn = SCENARIOS[spec["scn"] if spec.get("fixed") else
                      (spec["scn"] + i) % len(SCENARIOS)]
      obs = do_schedule(scn, [], spec["policy"],
                        "c07/%d/%d/%d" % (spec["seed"], spec["sub"], i), rep)
      if obs is not None: sigs.add((repr(scn), obs["sig"]))
    rep.count("distinct_interleavings", len(sigs))
  elif spec["mode"] == "locksample":
    rng = random.Random("c07/locks/%d/%d" % (spec["seed"], spec["sub"]))
    first = True
    for case in gen_lock_sample(rng, spec["n"]):
      do_lock_case(case, rep)
      if first: rep.sample(case); first = False
  else:
    first = True
    for case in gen_lock_programs(spec["ntasks"], spec["nlocks"], spec["shard"],
                                  spec["nshards"]):
      do_lock_case(case, rep)
      if first: rep.sample(case); first = False


def replay (witness, rep):
  if witness.get("kind") == "mass":
    do_mass(witness, rep); return
  if witness["kind"] == "lock":
    do_lock_case(witness, rep)
  else:
    do_schedule(witness["scn"], witness["schedule"], "nonpreemptive",
                witness.get("seed", 0), rep)
