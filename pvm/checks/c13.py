"""
C13 - every switch request is answered once, with its transaction id, in
order.

Controller-to-switch messages are built by the independent encoder and sent
as bytes through OFConnection to a real SoftwareSwitch; everything the
switch writes is decoded by the independent decoder.  A reference responder
(model of config, ports, flow table, counters) says, per request, which
single reply or error is admissible.
"""
import random
import struct
import traceback

from pvm import simnet
from pvm.ref import ofwire, ofmatch as OM, oftable as OT, frames as F

ID = "C13"
LEVEL = "exploration"
RULE = ("a case is a sequence of controller-to-switch messages (all 13 "
        "types, all 7 statistics types, valid and invalid ports / tables / "
        "queues / buffers / commands / actions, xids incl. 0, 1, 2^31, "
        "2^32-1) sent one by one and, differentially, as one batch with "
        "random segmentation; non-trivial = the sequence contains at least "
        "one invalid request or a state-dependent reply; distinct = distinct "
        "sequence")
ASSUMPTIONS = ["where OpenFlow 1.0 defines no error (port stats / queue "
               "config for a missing port, vendor stats) any single "
               "well-formed reply or single error with the xid is admissible",
               "asynchronous messages (packet_in, flow_removed, port_status) "
               "may appear between replies",
               "flow_mod with an unknown action type is not generated (the "
               "statement lists ports, tables, queues, buffers, commands)"]
REQUIRED = ["emergency_entries_with_a_timeout", "requests_after_an_entry_with_a_vendor_action", "requests_sent_some_time_after_the_one_before", "reactive_delivery_compared", "mid_session_hellos", "bounded_table_cases", "barrier_state_probes_with_state_to_see", "requests", "replies_checked", "errors_checked", "no_reply_checked",
            "stats_requests", "batch_compared", "invalid_requests",
            "barrier_probes"]
TIMEOUT = {"quick": 900, "thorough": 7200}

ASYNC = ("packet_in", "flow_removed", "port_status")
NPORTS = 4
# one more port with a three-digit number: the name this switch gives it fills
# the 16-octet name field to the last octet (such a switch has to be able to
# describe itself all the same)
XPORT = 256
PORTS = list(range(1, NPORTS + 1)) + [XPORT]
DPID = 0x0000aabbccddee01
XIDS = [0, 1, 2, 1 << 31, (1 << 32) - 1, 0x7fffffff, 12345]

ALLM = dict(wildcards=OM.FW_ALL, in_port=0, dl_src=b"\0" * 6, dl_dst=b"\0" * 6,
            dl_vlan=0, dl_vlan_pcp=0, dl_type=0, nw_tos=0, nw_proto=0,
            nw_src=0, nw_dst=0, tp_src=0, tp_dst=0)
def M (**kw):
  m = dict(ALLM)
  wc = OM.FW_ALL
  for k, v in kw.items():
    m[k] = v
    wc &= ~{"in_port": OM.FW_IN_PORT, "dl_type": OM.FW_DL_TYPE,
            "nw_proto": OM.FW_NW_PROTO, "tp_dst": OM.FW_TP_DST,
            "dl_vlan": OM.FW_DL_VLAN}[k]
  m["wildcards"] = wc
  return m

MATCHES = [ALLM, M(in_port=1), M(dl_type=0x0800), M(dl_type=0x0800, nw_proto=6),
           M(dl_type=0x0800, nw_proto=6, tp_dst=80), M(in_port=2, dl_type=0x0806)]
FRAME = F.eth(bytes.fromhex("020000000002"), bytes.fromhex("020000000001"),
              0x0800, F.ipv4(0x0a000001, 0x0a000002, 6,
                             F.tcp(1234, 80, b"hello", src=0x0a000001,
                                   dst=0x0a000002)))


def port_hw (n):
  # SoftwareSwitchBase._gen_ethaddr: "02%06x%04x" % (dpid % 0xffff, port)
  return bytes.fromhex("02%06x%04x" % (DPID % 0x00ffff, n % 0xffff))


class Model (object):
  def __init__ (self):
    self.flags = 0
    self.miss_send_len = 128
    self.table = OT.Table()
    self.ports = set(PORTS)
    self.tx = {p: [0, 0] for p in self.ports}
    self.config = {p: 0 for p in self.ports}

  def outputs (self, actions, in_port, nbytes):
    for a in actions:
      if a["type"] != 0: continue
      p = a["port"]
      tgt = []
      if p in self.ports: tgt = [p] if p != in_port else []
      elif p == 0xfff8: tgt = [in_port] if in_port in self.ports else []
      elif p == 0xfffc: tgt = [q for q in self.ports if q != in_port]
      elif p == 0xfffb:
        tgt = [q for q in self.ports if q != in_port
               and not self.config[q] & (1 << 4)]          # NO_FLOOD
      for q in tgt:
        if self.config[q] & (1 | (1 << 5)): continue       # PORT_DOWN, NO_FWD
        self.tx[q][0] += 1; self.tx[q][1] += nbytes


_REP = [None]
def rep_count (name):
  if _REP[0] is not None: _REP[0].count(name)


def expect (model, req):
  """
  Returns a checker for the (single or absent) answer to req:
    ("none",)                  no reply, no error
    ("reply", name, fn)        one message of that name with xid; fn(msg)->str|None
    ("error", [(type, code)])  one error with xid and one of these codes
    ("either", name, [(t,c)])  one reply of that name or any one error
    ("error_or_none",)         nothing, or one error with xid
  and applies the request's effect to the model.
  """
  n = req["name"]; d = req["fields"]
  if n == "malformed":
    if d["of"] == "unknown_type":
      return ("error", [(1, 1)])               # BAD_REQUEST / BAD_TYPE
    return ("error", [(1, 6)])                 # BAD_REQUEST / BAD_LEN
  if n == "echo_request":
    return ("reply", "echo_reply",
            lambda m: None if m["body"] == d["body"] else "echo body differs")
  if n == "echo_reply": return ("none",)
  if n == "hello":
    # a HELLO in mid-session (with or without a body): at most the switch's
    # own HELLO in return if it has not sent one yet - never an error
    return ("optional", "hello")
  if n == "features_request":
    def chk (m):
      if m["datapath_id"] != DPID: return "datapath_id"
      if m["n_tables"] != 1: return "n_tables"
      got = sorted((p["port_no"], p["hw_addr"]) for p in m["ports"])
      want = sorted((p, port_hw(p)) for p in model.ports)
      if got != want: return "ports %r != %r" % (got, want)
      for p in m["ports"]:
        # (NO_STP is excepted: this switch has no spanning tree to enable and
        #  says so)
        if (p["config"] ^ cfg[p["port_no"]]) & 0x7f & ~0x2:
          return "config of port %d is %#x, port_mods so far say %#x" % (
            p["port_no"], p["config"], cfg[p["port_no"]])
    cfg = dict(model.config)
    return ("reply", "features_reply", chk)
  if n == "get_config_request":
    f, ml = model.flags, model.miss_send_len
    return ("reply", "get_config_reply",
            lambda m: None if (m["flags"], m["miss_send_len"]) == (f, ml)
            else "config (%d,%d) != (%d,%d)" % (m["flags"], m["miss_send_len"], f, ml))
  if n == "set_config":
    model.flags = d["flags"]; model.miss_send_len = d["miss_send_len"]
    return ("none",)
  if n == "barrier_request":
    return ("reply", "barrier_reply", lambda m: None)
  if n == "vendor":
    return ("error", [(1, 3)])                 # BAD_REQUEST / BAD_VENDOR
  if n == "queue_get_config_request":
    if d["port"] in model.ports:
      return ("reply", "queue_get_config_reply",
              lambda m: None if m["port"] == d["port"] else "port")
    return ("either", "queue_get_config_reply", None)
  if n == "port_mod":
    if d["port_no"] not in model.ports:
      return ("error", [(4, 0)])               # PORT_MOD_FAILED / BAD_PORT
    if d["hw_addr"] != port_hw(d["port_no"]):
      return ("error", [(4, 1)])               # BAD_HW_ADDR
    c = model.config[d["port_no"]]
    model.config[d["port_no"]] = (c & ~d["mask"]) | (d["config"] & d["mask"])
    return ("none",)
  if n == "flow_mod":
    if any(a["type"] == 0xffff and (8 + len(a["body"])) % 8 for a in d["actions"]):
      # an action whose length is not a multiple of 8: the message is
      # malformed (BAD_REQUEST/BAD_LEN, or BAD_ACTION/BAD_LEN) and has no effect
      return ("error", [(1, 6), (2, 1)])
    if d["command"] > 4:
      return ("error", [(3, 4)])               # FLOW_MOD_FAILED / BAD_COMMAND
    if any(a["type"] == 0xffff for a in d["actions"]) or getattr(model, "tainted", False):
      # an action of some vendor (any length): whether a switch that does not
      # know the vendor takes the entry or answers BAD_VENDOR / BAD_LEN is its
      # own business - from here on the table's contents are not judged any
      # more, only that every request still gets its one answer
      model.tainted = True
      return ("error_or_none",)
    if d["flags"] & OT.FF_EMERG:
      if d["idle_timeout"] or d["hard_timeout"]:
        # OpenFlow 1.0 names the error for this one: an emergency entry must
        # not have a timeout, either of them (BAD_EMERG_TIMEOUT)
        rep_count("emergency_entries_with_a_timeout")
        return ("error", [(3, 3)])
      return ("error", [(3, 0), (3, 2), (3, 5)])
    rem, errs = model.table.flow_mod(d, _clk[0].now if _clk else 0)
    if errs: return ("error", errs)
    return ("none",)
  if n == "packet_out":
    if d["buffer_id"] != 0xffffffff:
      # the switch never handed out a buffer in this check (max_buffers=0)
      return ("error", [(1, 7), (1, 8)])       # BUFFER_EMPTY / BUFFER_UNKNOWN
    for a in d["actions"]:
      if a["type"] not in ofwire.ACTIONS:
        # (generated only at the head of a list: whether actions in front of
        #  a bad one still take effect is not settled by the statement)
        return ("error", [(2, 0)])             # BAD_ACTION / BAD_TYPE
    if d["data"]:
      model.outputs(d["actions"], d["in_port"], len(d["data"]))
    return ("none",)
  if n == "stats_request":
    t = d["type"]
    if getattr(model, "tainted", False) and t in (1, 2, 3) and \
       (t == 3 or d["body"]["table_id"] in (0, 0xff)):
      return ("reply", "stats_reply",
              lambda m, t=t: None if m["type"] == t else "stats type")
    if t == 0:
      return ("reply", "stats_reply",
              lambda m: None if m["type"] == 0 and isinstance(m["body"], dict)
              and m["body"].get("mfr_desc") is not None else "desc body")
    if t in (1, 2):
      b = d["body"]
      if b["table_id"] in (0, 0xff):
        hit = [e for e in model.table.entries
               if OM.subsumes(b["match"], e["match"])
               and OT.Table._has_out(e, b["out_port"])]
      else:
        hit = []
      if t == 1:
        def chk (m):
          if m["type"] != 1: return "stats type"
          for e in m["body"]:
            if e["table_id"] != 0: return "table_id %d" % e["table_id"]
          got = sorted(((tuple(sorted(OM.canon(e["match"]).items())),
                         e["priority"], e["cookie"],
                         [ofwire.enc_action(a) for a in e["actions"]])
                        for e in m["body"]), key=repr)
          want = sorted(((tuple(sorted(OM.canon(e["match"]).items())),
                          e["priority"], e["cookie"],
                          [ofwire.enc_action(a) for a in e["actions"]])
                         for e in hit), key=repr)
          if got != want:
            return "flow stats entries: got %d, reference %d" % (len(got), len(want))
          # how long each entry has been installed (seconds and nanoseconds
          # beyond them), by the clock the requests were sent under
          if _clk:
            ages = {}
            for e in hit:
              ages.setdefault((e["priority"], e["cookie"]), []).append(_clk[0].now - e["created"])
            for e in m["body"]:
              if e["duration_nsec"] >= 1000000000:
                return "duration_nsec %d is a second or more" % e["duration_nsec"]
              d_ = e["duration_sec"] + e["duration_nsec"] * 1e-9
              if not any(abs(d_ - a) < 1e-3 for a in ages.get((e["priority"], e["cookie"]), [])):
                return "duration %.3f s of an entry installed %r s ago" % (
                  d_, [round(a, 3) for a in ages.get((e["priority"], e["cookie"]), [])])
        return ("reply", "stats_reply", chk)
      def chk2 (m):
        if m["type"] != 2: return "stats type"
        if not isinstance(m["body"], dict): return "aggregate body"
        if m["body"]["flow_count"] != len(hit):
          return "flow_count %d != %d" % (m["body"]["flow_count"], len(hit))
      return ("reply", "stats_reply", chk2)
    if t == 3:
      na = len(model.table.entries)
      def chk3 (m):
        if m["type"] != 3: return "stats type"
        if len(m["body"]) != 1: return "number of tables"
        if m["body"][0]["active_count"] != na:
          return "active_count %d != %d" % (m["body"][0]["active_count"], na)
      return ("reply", "stats_reply", chk3)
    if t == 4:
      pn = d["body"]["port_no"]
      if pn == 0xffff or pn in model.ports:
        want = sorted(model.ports) if pn == 0xffff else [pn]
        tx = {p: tuple(model.tx[p]) for p in want}
        def chk4 (m):
          if m["type"] != 4: return "stats type"
          got = sorted(e["port_no"] for e in m["body"])
          if got != want: return "port stats ports %r != %r" % (got, want)
          for e in m["body"]:
            if (e["tx_packets"], e["tx_bytes"]) != tx[e["port_no"]]:
              return "tx counters of port %d: %r != %r" % (
                e["port_no"], (e["tx_packets"], e["tx_bytes"]), tx[e["port_no"]])
        return ("reply", "stats_reply", chk4)
      return ("either", "stats_reply", None)
    if t == 5:
      if d["body"]["queue_id"] == 0xffffffff:
        return ("reply", "stats_reply",
                lambda m: None if m["type"] == 5 and m["body"] == [] else
                "queue stats body")
      return ("error", [(5, 1), (5, 0)])       # QUEUE_OP_FAILED / BAD_QUEUE|BAD_PORT
    if t == 0xffff:
      return ("error", [(1, 2), (1, 3)])       # BAD_STAT or BAD_VENDOR
    return ("error", [(1, 2)])                 # BAD_REQUEST / BAD_STAT
  raise KeyError(n)


def encode (req):
  if req["name"] in ("malformed", "hello"): return req["fields"]["raw"]
  return ofwire.enc_message(req["name"], req["fields"])


def gen_malformed (rng, xid):
  """
  A message of a known type whose body cannot be decoded, with a length
  field that agrees with the bytes actually sent (so the stream stays
  aligned): the statement wants an error carrying the xid, and the requests
  behind it answered as usual.
  """
  k = rng.choice(["set_config", "port_mod", "stats_request", "flow_mod",
                  "queue_get_config_request", "header_only", "unknown_type",
                  "overlong", "overlong"])
  if k == "overlong":
    # a complete, valid message with more bytes behind its body than its type
    # has room for (the length field agrees with the bytes sent)
    kind = rng.choice(["features_request", "barrier_request", "get_config_request",
                       "set_config", "port_mod", "queue_get_config_request",
                       "stats_desc", "stats_table", "stats_port", "stats_flow"])
    if kind == "set_config": good = ofwire.enc_message(kind, dict(xid=xid, flags=0, miss_send_len=128))
    elif kind == "port_mod":
      good = ofwire.enc_message(kind, dict(xid=xid, port_no=1, hw_addr=port_hw(1),
                                           config=0, mask=0, advertise=0))
    elif kind == "queue_get_config_request": good = ofwire.enc_message(kind, dict(xid=xid, port=1))
    elif kind == "stats_desc": good = ofwire.enc_message("stats_request", dict(xid=xid, type=0, flags=0, body={}))
    elif kind == "stats_table": good = ofwire.enc_message("stats_request", dict(xid=xid, type=3, flags=0, body={}))
    elif kind == "stats_port":
      good = ofwire.enc_message("stats_request", dict(xid=xid, type=4, flags=0, body=dict(port_no=0xffff)))
    elif kind == "stats_flow":
      good = ofwire.enc_message("stats_request", dict(xid=xid, type=1, flags=0, body=dict(
        match=MATCHES[0], table_id=0xff, out_port=0xffff)))
    else: good = ofwire.enc_message(kind, dict(xid=xid))
    raw = good + bytes(rng.getrandbits(8) for _ in range(rng.choice([4, 8, 60])))
    raw = raw[:2] + struct.pack("!H", len(raw)) + raw[4:]
    return dict(name="malformed", fields=dict(xid=xid, of="overlong_" + kind, raw=raw))
  if k == "header_only":
    # nothing but the header of a message type that needs a body
    t = rng.choice([9, 13, 14, 15, 16, 20, 4])
    return dict(name="malformed", fields=dict(
      xid=xid, of="header_only_type_%d" % t, raw=struct.pack("!BBHL", 1, t, 8, xid)))
  if k == "unknown_type":
    t = rng.choice([22, 23, 24, 100, 255])
    body = bytes(rng.getrandbits(8) for _ in range(rng.choice([0, 0, 4, 16])))
    return dict(name="malformed", fields=dict(
      xid=xid, of="unknown_type", raw=struct.pack("!BBHL", 1, t, 8 + len(body), xid) + body))
  if k == "set_config":
    good = ofwire.enc_message(k, dict(xid=xid, flags=0, miss_send_len=128))
    raw = good[:10]
  elif k == "port_mod":
    good = ofwire.enc_message(k, dict(xid=xid, port_no=1, hw_addr=port_hw(1),
                                      config=0, mask=0, advertise=0))
    raw = good[:rng.choice([12, 24, 31])]
  elif k == "stats_request":
    good = ofwire.enc_message(k, dict(xid=xid, type=1, flags=0, body=dict(
      match=MATCHES[0], table_id=0xff, out_port=0xffff)))
    raw = good[:rng.choice([13, 20, 40])]
  elif k == "flow_mod":
    good = ofwire.enc_message(k, dict(
      xid=xid, match=MATCHES[0], cookie=0, command=0, idle_timeout=0,
      hard_timeout=0, priority=1, buffer_id=0xffffffff, out_port=0xffff,
      flags=0, actions=[dict(type=0, port=2, max_len=0)]))
    raw = good[:rng.choice([20, 71, 76])]
  else:
    good = ofwire.enc_message(k, dict(xid=xid, port=1))
    raw = good[:10]
  raw = raw[:2] + struct.pack("!H", len(raw)) + raw[4:]
  return dict(name="malformed", fields=dict(xid=xid, of=k, raw=raw))


def gen_request (rng, xid):
  r = rng.random()
  if r < 0.05: return gen_malformed(rng, xid)
  r = (r - 0.05) / 0.95
  def msg (name, **f):
    f["xid"] = xid
    return dict(name=name, fields=f)
  if r < 0.08: return msg("echo_request", body=bytes(rng.getrandbits(8) for _ in
                                                     range(rng.choice([0, 1, 8, 100]))))
  if r < 0.095: return msg("echo_reply", body=b"abc")
  if r < 0.10:
    body = bytes(rng.getrandbits(8) for _ in range(rng.choice([0, 0, 8, 20])))
    return dict(name="hello", fields=dict(xid=xid, raw=struct.pack(
      "!BBHL", 1, 0, 8 + len(body), xid) + body))
  if r < 0.16: return msg("features_request")
  if r < 0.22: return msg("get_config_request")
  if r < 0.28: return msg("set_config", flags=rng.choice([0, 1, 2, 3]),
                          miss_send_len=rng.choice([0, 64, 128, 0xffff]))
  if r < 0.36: return msg("barrier_request")
  if r < 0.39: return msg("vendor", vendor=rng.choice([0x2320, 1, 0xffffffff]),
                          data=b"\0" * rng.choice([0, 4, 12]))
  if r < 0.43: return msg("queue_get_config_request",
                          port=rng.choice([1, 2, NPORTS, NPORTS + 1, 0xfffe]))
  if r < 0.50:
    pn = rng.choice([1, 2, 3, NPORTS, NPORTS + 3, 0])
    hw = port_hw(pn) if rng.random() < 0.7 else bytes.fromhex("0a0b0c0d0e0f")
    return msg("port_mod", port_no=pn, hw_addr=hw,
               config=rng.choice([0, 1, 1 << 4, 1 << 5, 0x7f]),
               mask=rng.choice([0, 1, 1 << 4, 0x7f, 1 << 5]), advertise=0)
  if r < 0.66:
    cmd = rng.choice([0, 0, 0, 1, 2, 3, 4, 5, 9, 0xffff])
    return msg("flow_mod", match=rng.choice(MATCHES), cookie=rng.getrandbits(32),
               command=cmd, idle_timeout=rng.choice([0, 0, 0, 5]),
               hard_timeout=rng.choice([0, 0, 0, 5]),
               priority=rng.choice([1, 2, 0x8000]), buffer_id=0xffffffff,
               out_port=rng.choice([0xffff, 0xffff, 2, 0xfffd, 0xfffb]) if cmd in (3, 4) else 0xffff,
               # (the emergency flag only with ADD: what it means on the other
               #  commands is not settled)
               flags=rng.choice([0, 0, 1, 2, 3, 4, 5, 6, 7] if cmd == 0 else [0, 0, 1, 2, 3]),
               # (entries that output to reserved ports too: the out_port
               #  filters of delete and of the statistics requests name those
               #  like any other port)
               actions=rng.choice([[], [dict(type=0, port=2, max_len=0)],
                                   [dict(type=0, port=3, max_len=0)],
                                   [dict(type=0, port=0xfffd, max_len=64)],
                                   [dict(type=0, port=2, max_len=0),
                                    dict(type=0, port=0xfffb, max_len=0)]] +
                                  ([[dict(type=0, port=2, max_len=0),
                                     dict(type=0xffff, vendor=rng.choice([0x2320, 0x1234]),
                                          body=b"\x00\x0a" + b"\0" * rng.choice([2, 6, 10, 14]))]]
                                   if rng.random() < 0.15 else [])))
  if r < 0.76:
    k = rng.random()
    acts = rng.choice([[dict(type=0, port=2, max_len=0)],
                       [dict(type=0, port=0xfffb, max_len=0)],
                       [dict(type=0, port=0xfffc, max_len=0)],
                       [dict(type=0, port=1, max_len=0), dict(type=0, port=3, max_len=0)],
                       []])
    if k < 0.2:
      # (with or without a frame behind the actions: data only means
      #  something when no buffer is named)
      return msg("packet_out", buffer_id=rng.choice([0, 1, 5, 0x7fffffff]),
                 in_port=1, actions=acts,
                 # (... or a frame so long that the error cannot quote all of
                 #  the request: it quotes what fits)
                 data=rng.choice([b"", b"", FRAME] +
                                 ([b"\xaa" * (65519 - 8 * len(acts) - rng.choice([0, 1, 8, 11, 12, 20]))]
                                  if rng.random() < 0.1 else [])))
    if k < 0.35:
      bad = lambda: dict(type=rng.choice([12, 0x77]), data=b"\0" * 4)
      return msg("packet_out", buffer_id=0xffffffff, in_port=1,
                 actions=rng.choice([[bad()], [bad(), bad()],
                                     [bad(), dict(type=0, port=2, max_len=0)],
                                     [bad(), dict(type=0, port=0xfffb, max_len=0), bad()]]),
                 data=FRAME)
    return msg("packet_out", buffer_id=0xffffffff,
               in_port=rng.choice([1, 2, 0xffff]), actions=acts, data=FRAME)
  # stats
  t = rng.choice([0, 1, 1, 2, 2, 3, 4, 4, 5, 5, 0xffff, 6, 7, 0x100])
  if t == 0 or t == 3: body = {}
  elif t in (1, 2):
    body = dict(match=rng.choice(MATCHES), table_id=rng.choice([0xff, 0xff, 0, 1, 5]),
                out_port=rng.choice([0xffff, 0xffff, 2, 3, 0xfffd, 0xfffb, 0xfffc,
                                     0xfff8, 0xfffe, 0xff00]))
  elif t == 4: body = dict(port_no=rng.choice([0xffff, 1, 2, NPORTS, NPORTS + 1, 0]))
  elif t == 5:
    body = dict(port_no=rng.choice([0xfffc, 1, NPORTS + 1]),
                queue_id=rng.choice([0xffffffff, 0xffffffff, 0, 7]))
  elif t == 0xffff: body = dict(vendor=0x2320, data=b"\0" * 4)
  else: body = b"\0" * rng.choice([0, 4])
  # (the request's flags field is reserved in 1.0; whatever it holds must not
  #  leak into the reply's "more parts follow" bit)
  return msg("stats_request", type=t, flags=rng.choice([0, 0, 0, 1, 0xffff, 2]),
             body=body)


def new_switch (max_entries=None):
  kw = {}
  if max_entries: kw["max_entries"] = max_entries
  d = simnet.DirectSwitch(dpid=DPID, ports=NPORTS, max_buffers=0,
                          miss_send_len=128, **kw)
  d.switch.add_port(d.switch.generate_port(XPORT))
  d.take_bytes()
  return d


def decode_out (b, fire):
  try:
    return ofwire.dec_stream(b)
  except ofwire.WireError as e:
    fire("switch emitted undecodable bytes", "%r: %s" % (e, b[:120].hex()))
    return None


def run_sequence (case, rep):
  rng = random.Random(case["seed"])
  n = case["n"]
  def fire (key, what):
    rep.violation("C13 " + key, what, case)
  reqs = []
  used = set()
  for i in range(n):
    xid = rng.choice(XIDS) if rng.random() < 0.4 else rng.getrandbits(32)
    reqs.append(gen_request(rng, xid))
    r = reqs[-1]
    if r["name"] == "flow_mod" and r["fields"]["command"] == 0 and \
       any(a["type"] == 0xffff for a in r["fields"]["actions"]):
      # ... and the controller asks what is installed now
      reqs.append(dict(name="stats_request", fields=dict(
        xid=rng.getrandbits(32), type=rng.choice([1, 1, 2]), flags=0,
        body=dict(match=ALLM, table_id=0xff, out_port=0xffff))))
  # --- one by one
  sw = new_switch(case.get("max_entries"))
  model = Model()
  if case.get("max_entries"):
    model.table = OT.Table(max_entries=case["max_entries"])
    rep.count("bounded_table_cases")
  # the ports' initial configuration, as the switch itself reports it before
  # anything was asked of it (port_mods are applied to this)
  sw.feed(ofwire.enc_message("features_request", dict(xid=1)))
  try:
    for m in ofwire.dec_stream(sw.take_bytes()):
      if m["name"] == "features_reply":
        for pt in m["ports"]: model.config[pt["port_no"]] = pt["config"]
  except ofwire.WireError:
    pass
  per_request_out = []
  nt = False
  ok = True
  ticking = rng.random() < 0.3 and bool(_clk)
  for i, req in enumerate(reqs):
    raw = encode(req)
    if ticking and rng.random() < 0.3:
      # time passes between two requests (entries age)
      _clk[0].now += rng.choice([0.25, 1.5, 2.5, 4.5, 7.0])
      rep.count("requests_sent_some_time_after_the_one_before")
    rep.count("requests")
    if req["name"] == "stats_request": rep.count("stats_requests")
    try:
      exp = expect(model, req)
    except Exception:
      fire("reference responder failed", traceback.format_exc()[-500:]); return True
    try:
      sw.feed(raw)
    except Exception:
      fire("exception escapes the connection while handling %s" % label(req),
           traceback.format_exc()[-700:])
      return True
    if sw.worker.closed or sw.worker._shutdown_send:
      fire("connection dropped on %s" % label(req), ""); return True
    out = sw.take_bytes()
    per_request_out.append(out)
    msgs = decode_out(out, fire)
    if msgs is None: return True
    sync = [m for m in msgs if m["name"] not in ASYNC]
    xid = req["fields"]["xid"]
    lab = label(req)
    if exp[0] != "none" or exp[0] == "error": nt = nt or exp[0] in ("error", "either")
    if exp[0] == "optional":
      rep.count("mid_session_hellos")
      if sync and sync[0]["name"] == exp[1]:
        model.hellos_sent = getattr(model, "hellos_sent", 0) + 1
        if model.hellos_sent > 1:
          fire("switch sent its HELLO more than once on one connection",
               "%d so far" % model.hellos_sent); ok = False
          continue
      if len(sync) > 1 or (sync and sync[0]["name"] != exp[1]):
        fire("%s answered with %s" % (lab, describe(sync[0] if sync[0]["name"] != exp[1] else sync[1])),
             "expected nothing or one %s; got %r" % (exp[1], [describe(m) for m in sync]))
        ok = False
      continue
    if exp[0] == "error_or_none":
      rep.count("requests_after_an_entry_with_a_vendor_action")
      if len(sync) > 1 or (sync and (sync[0]["name"] != "error" or sync[0]["xid"] != xid)):
        fire("%s answered with %s" % (lab, describe(sync[0])),
             "expected nothing or one error; got %r" % ([describe(m) for m in sync],))
        ok = False
      continue
    if exp[0] == "none":
      rep.count("no_reply_checked")
      if sync:
        fire("%s produced a %s" % (lab, describe(sync[0])),
             "expected no reply; got %d message(s)" % len(sync)); ok = False
      continue
    if len(sync) == 0:
      fire("%s not answered (silence)" % lab, "expected %s" % (exp[1],)); ok = False
      continue
    if len(sync) > 1:
      fire("%s answered %d times" % (lab, len(sync)),
           repr([describe(m) for m in sync])); ok = False
      continue
    m = sync[0]
    if m["xid"] != xid:
      fire("%s answered with another xid" % lab, "%d vs %d" % (m["xid"], xid))
      ok = False; continue
    if exp[0] == "reply":
      if m["name"] != exp[1]:
        fire("%s answered with %s" % (lab, describe(m)), "expected %s" % exp[1])
        ok = False; continue
      rep.count("replies_checked")
      if m["name"] == "stats_reply" and (m["flags"] & 1):
        # the only reply announces a continuation that never comes: the
        # request is not (completely) answered
        fire("%s single reply has the more-parts flag set" % lab,
             "reply flags 0x%04x, request flags 0x%04x" % (m["flags"], req.get("flags", 0)))
        ok = False
      why = exp[2](m)
      if why:
        fire("%s reply content: %s" % (lab, why.split(" ")[0]), why); ok = False
      if req["name"] == "barrier_request":
        rep.count("barrier_probes")
        # "only after the effects of all earlier messages are in place": the
        # state the earlier messages ask for, read at the moment the reply is
        # out and before anything else is sent (not through another request,
        # which would give the switch a chance to catch up)
        try:
          n_sw = len(sw.switch.table.entries)
          n_model = len(model.table.entries)
          if getattr(model, "tainted", False): n_model = n_sw
          if n_sw != n_model:
            fire("barrier reply sent before earlier flow_mods took effect",
                 "the table holds %d entries when the reply is out, the "
                 "requests before the barrier leave %d" % (n_sw, n_model))
            ok = False
          for pn, c in model.config.items():
            got_c = sw.switch.ports[pn].config
            if (got_c ^ c) & 0x7f & ~0x2:
              fire("barrier reply sent before earlier port_mods took effect",
                   "port %d config %#x, requested %#x" % (pn, got_c, c))
              ok = False; break
          if model.table.entries or any(model.config.values()):
            rep.count("barrier_state_probes_with_state_to_see")
        except AttributeError:
          pass
    elif exp[0] == "error":
      rep.count("invalid_requests")
      if m["name"] != "error":
        fire("%s answered with %s instead of an error" % (lab, describe(m)),
             "expected error %r" % (exp[1],)); ok = False; continue
      rep.count("errors_checked")
      if (m["type"], m["code"]) not in exp[1]:
        fire("%s error type/code" % lab, "got (%d,%d), specified %r" %
             (m["type"], m["code"], exp[1])); ok = False
      elif (len(m["data"]) < min(64, len(raw)) or m["data"][:8] != raw[:8]
            or (req["name"] != "flow_mod" and m["data"] != raw[:len(m["data"])])):
        # (a flow_mod is echoed re-encoded, i.e. with the wildcard bits of
        #  inapplicable fields normalised; header and length must still agree)
        fire("%s error does not carry the offending request" % lab,
             "data %s" % m["data"][:32].hex()); ok = False
    else:
      rep.count("invalid_requests")
      if m["name"] not in (exp[1], "error"):
        fire("%s answered with %s" % (lab, describe(m)), ""); ok = False
  # --- differential: same sequence as one segmented batch on a fresh switch
  # (not for the histories in which time passed between requests: the ages
  #  reported would differ)
  if ticking: return nt
  if ok:
    sw2 = new_switch(case.get("max_entries"))
    blob = b"".join(encode(r) for r in reqs)
    cuts = sorted(rng.randrange(1, len(blob)) for _ in range(rng.choice([0, 1, 3, 8])))
    prev = 0
    try:
      for c in cuts + [len(blob)]:
        if c > prev: sw2.feed(blob[prev:c]); prev = c
    except Exception:
      fire("exception escapes the connection (batched delivery)",
           traceback.format_exc()[-700:]); return True
    out2 = sw2.take_bytes()
    rep.count("batch_compared")
    rep.maxi("requests_in_one_delivery", len(reqs) // (len(cuts) + 1))
    def norm (b):
      # asynchronous messages carry freshly generated xids
      ms = decode_out(b, fire) or []
      out = []
      off = 0
      for m in ms:
        chunk = b[off:off + m["length"]]; off += m["length"]
        if m["name"] in ASYNC: chunk = chunk[:4] + b"\0\0\0\0" + chunk[8:]
        out.append(chunk)
      return out
    if norm(out2) != norm(b"".join(per_request_out)):
      a = decode_out(out2, fire) or []
      b = decode_out(b"".join(per_request_out), fire) or []
      fire("batched delivery answers differently (order/content)",
           "batched: %r\none by one: %r" % ([describe(m) for m in a][:12],
                                            [describe(m) for m in b][:12]))
      ok = False
  # --- and once more with a controller that is wired to the switch back to
  # back and reacts at once: the next request arrives from inside the
  # switch's send() of the reply before it
  if ok and case["n"] <= 24:
    sw3 = new_switch(case.get("max_entries"))
    pending = [encode(r) for r in reqs]
    real_send = sw3.worker.send
    depth = [0]
    def send (data):
      real_send(data)
      if pending and depth[0] < 30 and not sw3.worker.closed:
        depth[0] += 1
        try:
          sw3.sock.feed(pending.pop(0))
          sw3.worker._do_recv(sw3.loop)
        finally:
          depth[0] -= 1
    sw3.worker.send = send
    try:
      guard = 0
      while pending and guard < 100:
        guard += 1
        sw3.feed(pending.pop(0))
    except Exception:
      fire("exception escapes the connection (requests arriving from inside send())",
           traceback.format_exc()[-700:]); return True
    out3 = sw3.take_bytes()
    rep.count("reactive_delivery_compared")
    if norm(out3) != norm(b"".join(per_request_out)):
      a = decode_out(out3, fire) or []
      b = decode_out(b"".join(per_request_out), fire) or []
      fire("requests arriving from inside send() are answered differently (order/content)",
           "reactive: %r\none by one: %r" % ([describe(m) for m in a][:12],
                                             [describe(m) for m in b][:12]))
  return nt


def label (req):
  n = req["name"]; d = req["fields"]
  if n == "malformed": return "malformed[%s]" % d["of"]
  if n == "stats_request":
    t = d["type"]
    s = ofwire.STATS[t][0] if t in ofwire.STATS else "unknown-type"
    extra = ""
    if t in (1, 2) and d["body"]["table_id"] not in (0, 0xff): extra = " other-table"
    if t == 4 and d["body"]["port_no"] != 0xffff:
      extra = " port" if d["body"]["port_no"] in PORTS else " missing-port"
    if t == 5 and d["body"]["queue_id"] != 0xffffffff: extra = " specific-queue"
    return "stats_request[%s%s]" % (s, extra)
  if n == "flow_mod":
    return "flow_mod[%s]" % ("cmd%d" % d["command"] if d["command"] <= 4 else
                             "unknown-command")
  if n == "packet_out":
    if d["buffer_id"] != 0xffffffff: return "packet_out[unknown-buffer]"
    if any(a["type"] not in ofwire.ACTIONS for a in d["actions"]):
      return "packet_out[unknown-action]"
    return "packet_out"
  if n == "port_mod":
    if d["port_no"] not in PORTS: return "port_mod[bad-port]"
    if d["hw_addr"] != port_hw(d["port_no"]): return "port_mod[bad-hw-addr]"
    return "port_mod"
  if n == "queue_get_config_request":
    return "queue_get_config_request%s" % ("" if d["port"] in PORTS
                                           else "[missing-port]")
  return n


def describe (m):
  if m["name"] == "error": return "error(%d,%d)" % (m["type"], m["code"])
  if m["name"] == "stats_reply": return "stats_reply[%d]" % m["type"]
  return m["name"]


_clk = []

def do_case (case, rep):
  _REP[0] = rep
  clock = simnet.VClock(5000.5)
  clock.install()       # durations in stats replies must not depend on wall time
  _clk[:] = [clock]
  try:
    nt = run_sequence(case, rep)
  except Exception:
    rep.violation("C13 harness-visible exception",
                  traceback.format_exc()[-900:], case)
    nt = True
  finally:
    clock.uninstall()
  rep.case(("%s/%d" % (case["seed"], case["n"])).encode(), nontrivial=bool(nt))


def plan (tier, seed):
  if tier == "quick":
    # (and a few long sequences: dozens to hundreds of requests that reach
    #  the switch in one delivery)
    return [dict(count=1200, n=12, sub=i) for i in range(16)] + \
        [dict(count=12, n=40 + 30 * i, sub=100 + i) for i in range(4)] + \
        [dict(count=3, n=300, sub=110), dict(count=2, n=1100, sub=111)]
  return [dict(count=20000, n=40, sub=i) for i in range(48)] + \
      [dict(count=300, n=40 + 17 * i, sub=100 + i) for i in range(16)] + \
      [dict(count=6, n=k, sub=200 + k) for k in (1030, 2050, 4100, 8200)]


def run (spec, rep):
  for i in range(spec["count"]):
    case = dict(seed="c13/%d/%d/%d" % (spec["seed"], spec["sub"], i),
                n=spec["n"] if i % 3 else max(2, spec["n"] // 3))
    if i % 5 == 4: case["max_entries"] = 2
    do_case(case, rep)
    if i == 0: rep.sample(case)


def replay (witness, rep):
  do_case(witness, rep)
