"""
C20 - the send path preserves the byte stream under partial writes and
back-pressure.

(a) controller side: a real of_01.Connection on a scripted FakeSocket with the
    real DeferredSender thread.  The thread, its RLock and its select() are
    the controlled ones of engine E3, so which line of Connection.send /
    DeferredSender.send / run / kill runs next is a recorded choice; the
    "cooperative thread" is the scenario's main thread.  The socket script
    decides the outcome of every send() call (accept k bytes, everything,
    EAGAIN, EAGAIN-until-drained, fatal error).
(b) switch side: real RecocoIOLoop + RecocoIOWorker on the virtual-time world
    (engine E2) with the same scripted sockets; send(), send_fast(),
    shutdown(), close() interleaved with runs of the I/O loop.

Every message carries its (connection, index) and a position-dependent
filler, so the bytes the socket accepted identify which message each came
from: the oracle is plain comparison with the concatenation of the messages
that were queued while the connection was up.
"""
import itertools
import random
import traceback

from pvm import ilv, simnet

ID = "C20"
LEVEL = "fault_enumeration"
RULE = ("a case is (program of send/flush/drain/close steps over 1-2 "
        "connections or workers, per-socket script of send() outcomes "
        "{accept k, all, EAGAIN, EAGAIN until drained, fatal}) and, on the "
        "controller side, a thread schedule; scripts of 4-5 calls over a "
        "5-letter alphabet are enumerated for three 3-message programs, "
        "longer ones drawn from VERIF_SEED, schedules by bounded-preemption "
        "search, random and PCT; non-trivial = at least one call did not "
        "accept everything; distinct = distinct (case, interleaving)")
ASSUMPTIONS = ["a socket that reported a fatal error or was shut down by POX "
               "refuses later writes (EPIPE), as a real one does; attempts "
               "are counted, accepted bytes after the error are violations",
               "the harness does what the OpenFlow task does when it sees a "
               "disconnected connection (close it); ConnectionDown is counted "
               "on the connection and on the nexus",
               "select() on a closed socket raises ValueError as CPython does",
               "one cooperative sender per connection; concurrent sends from "
               "several foreign threads are out of scope"]
REQUIRED = ["ctl_backlogs_of_very_many_pieces", "ctl_runs", "ctl_deferred_flushes", "ctl_partial_writes",
            "ctl_eagain", "ctl_fatal", "ctl_streams_compared",
            "iow_cases", "iow_partial_writes", "iow_eagain", "iow_fatal",
            "iow_fast_sends", "iow_streams_compared",
            "iow_connect_with_bytes_already_queued", "ctl_message_objects_sent",
            "iow_sends_on_a_closed_worker",
            "ctl_connections_disconnected_again_by_a_down_listener",
            "ctl_message_objects_changed_after_send"]
TIMEOUT = {"quick": 1500, "thorough": 10800}


def msg_bytes (ci, mi, n):
  tag = b"<%d.%d:" % (ci, mi)
  n = max(n, len(tag) + 1)
  body = bytes((ci * 7 + mi * 13 + j * 3) & 0xff for j in range(n - len(tag) - 1))
  return tag + body + b">"


def first_diff (a, b):
  n = min(len(a), len(b))
  for i in range(n):
    if a[i] != b[i]: return i
  return n


def describe (got, exp):
  i = first_diff(got, exp)
  return ("accepted %d bytes, expected %d; first difference at offset %d: "
          "got %r expected %r" % (len(got), len(exp), i,
                                  bytes(got[max(0, i - 6):i + 10]),
                                  bytes(exp[max(0, i - 6):i + 10])))


# ==========================================================================
# (a) controller side under the interleaving controller

_ctl = {}


def ctl_setup ():
  if "of_01" in _ctl: return _ctl
  from pvm import ctl
  core, of_01 = ctl.boot_controller()
  import pox.lib.util as U
  fs = [of_01.DeferredSender.send, of_01.DeferredSender.kill,
        of_01.DeferredSender.run, of_01.DeferredSender._sliceup,
        of_01.Connection.send, of_01.Connection.disconnect,
        of_01.Connection.close]
  p = U.makePinger()
  for n in ("ping", "pongAll", "pong_all"):
    f = getattr(type(p), n, None)
    if f is not None: fs.append(f)
  _ctl.update(core=core, of_01=of_01, codes=[f.__code__ for f in fs])
  # the controlled twin of the sender class: same functions, CThread base
  d = {k: v for k, v in of_01.DeferredSender.__dict__.items()
       if k not in ("__dict__", "__weakref__")}
  _ctl["CDS"] = type("DeferredSender", (ilv.CThread,), d)
  return _ctl


class NexusStub (object):
  def __init__ (self):
    self.downs = []
    self.disconnects = []
  def getConnection (self, dpid): return None
  def _disconnect (self, dpid): self.disconnects.append(dpid)
  reclose = False
  def raiseEventNoErrors (self, ev, *a, **kw):
    self.downs.append(a[0] if a else None)
    if self.reclose and a and len(self.downs) < 6:
      # a listener that drops the connection it is told about once more
      self.reclosed = getattr(self, "reclosed", 0) + 1
      a[0].disconnect()
  raiseEvent = raiseEventNoErrors


def run_ctl (scn, schedule, policy, seed):
  C = ctl_setup()
  of_01 = C["of_01"]; core = C["core"]
  import select as _select
  rng = random.Random(seed)
  pct = None
  if policy == "pct":
    pct = [rng.randrange(5, 400) for _ in range(3)]
  c = ilv.Controller(C["codes"], schedule=schedule, policy=policy, rng=rng,
                     max_steps=scn.get("max_steps", 40000), pct_points=pct)
  shim = ilv.ThreadingShim(c)

  def vpoll (r, w, x, t):
    ro = []; wo = []; xo = []
    real = []
    for o in r:
      s = simnet._sock_of(o)
      if s is None: real.append(o)
      else:
        if s.closed: raise ValueError("file descriptor cannot be a negative integer (-1)")
        if s.readable(): ro.append(o)
    for o in list(w) + list(x):
      s = simnet._sock_of(o)
      if s is not None and s.closed:
        raise ValueError("file descriptor cannot be a negative integer (-1)")
    for o in w:
      s = simnet._sock_of(o)
      if s is not None and s.writable(): wo.append(o)
    if real:
      a, _, _ = _select.select(real, [], [], 0)
      ro += a
    return ro, wo, xo
  # (ilv's controlled select swallows OSError/ValueError from its poll; here
  #  they are exactly what must reach the code under test)
  def cselect (r, w, x, timeout=None):
    r = list(r); w = list(w); x = list(x)
    if c.me() is None: return vpoll(r, w, x, 0)
    c.yield_point("select")
    res = vpoll(r, w, x, 0)
    if res[0] or res[1] or res[2]: return res
    def pred ():
      try:
        a = vpoll(r, w, x, 0)
      except ValueError:
        return True
      return bool(a[0] or a[1] or a[2])
    c.block(pred, timeout, "select")
    return vpoll(r, w, x, 0)

  class SelectShim (object):
    error = _select.error
    select = staticmethod(cselect)

  saved = (of_01.threading, of_01.select, of_01.deferredSender)
  of_01.threading = shim; of_01.select = SelectShim
  obs = dict(socks=[], cons=[], expected=[], sent_while_up=[], raised=[],
             nexus=NexusStub(), con_downs=[], ds=None, violations=[],
             callers=[])
  obs["nexus"].reclose = scn.get("reclose") == "nexus"
  ncons = scn["ncons"]

  def sender_quiet ():
    ds = obs["ds"]
    st = c.threads.get(ds.lid) if ds is not None and ds.lid is not None else None
    if st is None: return True
    if st.status == "done": return True
    if st.status != "blocked": return False
    try:
      return not st.pred()
    except Exception:
      return False

  def task_react (ci):
    con = obs["cons"][ci]; s = obs["socks"][ci]
    if con.disconnected and not s.closed:
      con.close()

  def main ():
    ds = C["CDS"]()
    obs["ds"] = ds
    of_01.deferredSender = ds
    for ci in range(ncons):
      s = simnet.FakeSocket("c%d" % ci)
      s.sticky_fatal = False
      s.send_script = list(scn["scripts"][ci])
      def send (data, flags=0, _orig=s.send, ci=ci):
        obs["callers"].append(c.me())
        return _orig(data, flags)
      s.send = send
      s.fileno = lambda s=s: -1 if s.closed else s._fd
      obs["socks"].append(s)
      obs["expected"].append(bytearray())
      obs["con_downs"].append(0)
      # the hello that Connection.__init__ sends is message 0 of the stream
      con = of_01.Connection.__new__(of_01.Connection)
      obs["cons"].append(con)
      # the hello that Connection.__init__ sends is message 0 of the stream
      def spy (data, con=con, ci=ci):
        # (what is handed on is what the constructor handed over: a message
        #  object, which send() has to pack itself)
        obs["expected"][ci] += data if type(data) is bytes else data.pack()
        return of_01.Connection.send(con, data)
      con.send = spy
      of_01.Connection.__init__(con, s)
      del con.send
      # (datapath id 0 is an id like any other)
      con.dpid = 0 if (scn.get("dpid0") and ci == 0) else 100 + ci
      con.ofnexus = obs["nexus"]
      def down (e, ci=ci, con=con):
        obs["con_downs"][ci] += 1
        if scn.get("reclose") == "con" and obs["con_downs"][ci] < 6:
          obs["reclosed"] = obs.get("reclosed", 0) + 1
          con.disconnect()
      con.addListener(of_01.ConnectionDown, down)
    counts = [0] * ncons
    for op in scn["program"]:
      k = op[0]
      if k == "send":
        ci = op[1]; con = obs["cons"][ci]
        counts[ci] += 1
        data = msg_bytes(ci, counts[ci], op[2])
        payload = data
        if (ci + counts[ci]) % 3 == 0 and op[2] < 60000:
          # the usual call shape: a message object, not bytes
          import pox.openflow.libopenflow_01 as of
          payload = of.ofp_echo_request(xid=counts[ci], body=data)
          data = payload.pack()
          obs["objects_sent"] = obs.get("objects_sent", 0) + 1
        if not con.disconnected:
          obs["expected"][ci] += data
        try:
          con.send(payload)
        except ilv.RunAborted:
          raise
        except BaseException:
          obs["raised"].append(("send", traceback.format_exc()[-500:]))
        if payload is not data and counts[ci] % 2:
          # "build one message, send it, change a field, send it again": what
          # was handed over is what it was when it was handed over
          obs["objects_changed_after_send"] = obs.get("objects_changed_after_send", 0) + 1
          payload.xid = 0x7fff0000 | counts[ci]
          payload.body = b"changed after send"
      elif k == "flush":
        c.block(sender_quiet, None, "flush")
      elif k == "drain":
        obs["socks"][op[1]].unblock()
      elif k == "react":
        task_react(op[1])
      elif k == "close":
        try:
          obs["cons"][op[1]].close()
        except BaseException:
          obs["raised"].append(("close", traceback.format_exc()[-500:]))
    # wind down: everything drains, the sender gets all the time it wants,
    # and the OpenFlow task would close what is disconnected
    # (one round per remaining "blocked" script entry: each round only takes
    #  away the entries at the head of a script)
    rounds = 3 + sum(sc.count("eagain_blocked") for sc in scn["scripts"])
    for rnd in range(rounds):
      for ci in range(ncons):
        while obs["socks"][ci].unblock(): pass
      c.block(sender_quiet, None, "flush")
      for ci in range(ncons): task_react(ci)
    obs["main_done"] = True

  def on_idle (cc):
    return False

  c.on_idle = on_idle
  try:
    ok = c.run(main, wall_timeout=scn.get("wall", 30))
  finally:
    of_01.threading, of_01.select, of_01.deferredSender = saved
    ds = obs["ds"]
    if ds is not None:
      from pox.core import GoingDownEvent
      hs = core._eventMixin_handlers.get(GoingDownEvent)
      if hs:
        hs[:] = [h for h in hs if getattr(h[1], "__self__", None) is not ds]
  obs["ok"] = ok
  obs["failure"] = c.failure
  obs["trace"] = c.trace
  obs["sig"] = c.signature()
  obs["preemptions"] = c.preemptions
  obs["sites"] = c.sites
  obs["steps_taken"] = c.steps
  obs["watchdog"] = getattr(c, "watchdog", False)
  return obs


def judge_ctl (scn, obs, fire, rep):
  if obs["watchdog"]:
    return "inconclusive"
  f = obs["failure"]
  if f:
    if "died" in f:
      fire("deferred sender thread died", f[-600:])
    elif "step limit" in f:
      fire("sender spins without making progress", f)
    else:
      fire("threads stuck", f)
    return None
  if not obs.get("main_done"):
    fire("threads stuck", "the sending thread never finished its program")
    return None
  if obs["raised"]:
    fire("send raises", "%s: %s" % obs["raised"][0]); return None
  nontrivial = False
  for ci in range(scn["ncons"]):
    s = obs["socks"][ci]; con = obs["cons"][ci]
    exp = bytes(obs["expected"][ci]); got = bytes(s.sent)
    rep.count("ctl_streams_compared")
    fatal = any(o == "fatal" for (o, n, k) in s.send_log)
    closed_by_prog = any(op[0] == "close" and op[1] == ci for op in scn["program"])
    for (o, n, k) in s.send_log:
      if o == "eagain" or o == "eagain_blocked": rep.count("ctl_eagain"); nontrivial = True
      elif o == "fatal": rep.count("ctl_fatal"); nontrivial = True
      elif k < n: rep.count("ctl_partial_writes"); nontrivial = True
    if s.bytes_after_fatal:
      fire("bytes written to the socket after a fatal error",
           "connection %d: %d bytes accepted after the error; log %r" %
           (ci, s.bytes_after_fatal, s.send_log[-6:]))
      return None
    if not exp.startswith(got):
      fire("accepted bytes are not the queued messages in order",
           "connection %d: %s" % (ci, describe(got, exp)))
      return None
    if not fatal and not closed_by_prog and got != exp:
      fire("queued bytes never reached the socket",
           "connection %d: %s; log tail %r" % (ci, describe(got, exp),
                                               s.send_log[-5:]))
      return None
    downs_n = sum(1 for x in obs["nexus"].downs if x is con)
    downs_c = obs["con_downs"][ci]
    if fatal or closed_by_prog:
      if downs_n != 1 or downs_c != 1:
        fire("connection not reported closed exactly once",
             "connection %d after %s: ConnectionDown %d time(s) on the nexus, "
             "%d on the connection" % (ci, "a fatal send error" if fatal else
                                       "close", downs_n, downs_c))
        return None
      if not con.disconnected:
        fire("connection not reported closed exactly once",
             "connection %d not marked disconnected" % ci); return None
      if obs["nexus"].disconnects.count(con.dpid) < 1:
        # (reported closed to the nexus that lists live connections, too)
        fire("closed connection stays registered with the nexus",
             "connection %d (dpid %d)" % (ci, con.dpid)); return None
    else:
      if downs_n or downs_c or con.disconnected:
        fire("healthy connection reported closed",
             "connection %d: %d/%d ConnectionDown" % (ci, downs_n, downs_c))
        return None
  ds = obs["ds"]
  left = {k: v for k, v in ds._dataForConnection.items() if v}
  live = [k for k in left if not k.disconnected]
  if live:
    fire("queued bytes never reached the socket",
         "data still queued for a live connection at the end"); return None
  return nontrivial


def do_ctl (scn, schedule, policy, seed, rep):
  case = dict(part="ctl", scn=scn, schedule=schedule, policy=policy, seed=seed)
  fired = []
  def fire (key, what):
    fired.append(key)
    rep.violation("C20 controller: " + key, what, case)
  try:
    obs = run_ctl(scn, schedule, policy, seed)
  except Exception:
    rep.violation("C20 harness-visible exception",
                  traceback.format_exc()[-900:], case)
    return None
  case["schedule"] = [t[1] for t in obs["trace"]]
  case["policy"] = "nonpreemptive"
  r = judge_ctl(scn, obs, fire, rep)
  if r == "inconclusive":
    rep.inconclusive_because("wall-clock watchdog in a C20 schedule")
    return None
  rep.count("ctl_runs")
  nre = obs.get("reclosed", 0) + getattr(obs["nexus"], "reclosed", 0)
  if nre: rep.count("ctl_connections_disconnected_again_by_a_down_listener", nre)
  if obs.get("objects_sent"): rep.count("ctl_message_objects_sent", obs["objects_sent"])
  if obs.get("objects_changed_after_send"):
    rep.count("ctl_message_objects_changed_after_send", obs["objects_changed_after_send"])
  ds = obs["ds"]
  nd = sum(1 for l in obs["callers"] if ds is not None and l == ds.lid)
  if nd:
    rep.count("ctl_deferred_flushes")
    rep.count("ctl_socket_calls_by_sender_thread", nd)
  rep.count("ctl_socket_calls_by_cooperative_thread", len(obs["callers"]) - nd)
  if obs["preemptions"]: rep.count("ctl_preempting_schedules")
  rep.maxi("ctl_preemptions", obs["preemptions"])
  rep.maxi("ctl_yield_points_per_run", obs["steps_taken"])
  for s, n in obs["sites"].items():
    d = rep.extra.setdefault("switch_sites", {})
    d[s] = d.get(s, 0) + n
  rep.case(repr((scn, obs["sig"])).encode(), nontrivial=bool(r))
  return obs


ALPHA = ["all", 3, "half", "eagain", "fatal", 0]


def concrete_script (script, sizes):
  """'half' needs the size of the write it applies to; a generous constant
  that is below every multi-byte message works as 'about half'."""
  return [(2500 if x == "half" else x) for x in script]


CTL_PROGRAMS = [
  [["send", 0, 20], ["send", 0, 5000], ["send", 0, 9]],
  [["send", 0, 20], ["flush"], ["send", 0, 5000], ["flush"], ["send", 0, 9]],
  [["send", 0, 5000], ["send", 0, 20], ["flush"], ["send", 0, 9]],
]


def gen_ctl_enum (shard, nshards, length):
  i = 0
  for pi, prog in enumerate(CTL_PROGRAMS):
    for script in itertools.product(ALPHA, repeat=length):
      if i % nshards == shard:
        yield dict(ncons=1, program=prog,
                   scripts=[concrete_script(script, None)])
      i += 1


def gen_ctl_mass (sizes):
  """A switch that has stopped reading for a while: thousands of messages (or
  one message of thousands of write-sized pieces) pile up for the deferred
  sender before the socket takes anything again.  However long the backlog,
  what the socket finally accepts is the queued messages, whole and in order."""
  for n in sizes:
    yield dict(ncons=1, scripts=[["eagain_blocked"]], mass=n,
               program=[["send", 0, 8 + i % 5] for i in range(n)] + [["drain", 0], ["flush"]],
               max_steps=400 * n + 100000, wall=600)
    yield dict(ncons=1, scripts=[["eagain_blocked"]], mass=n,
               program=[["send", 0, 24], ["send", 0, 4096 * n + 17], ["send", 0, 9],
                        ["drain", 0], ["flush"]],
               max_steps=400 * n + 100000, wall=600)


def gen_ctl_random (rng, n):
  for _ in range(n):
    ncons = rng.choice([1, 2, 2, 3])
    prog = []
    for _ in range(rng.randrange(2, 9)):
      r = rng.random()
      ci = rng.randrange(ncons)
      if r < 0.62:
        prog.append(["send", ci, rng.choice([8, 8, 24, 300, 4096, 4097, 6000, 9000])])
      elif r < 0.78: prog.append(["flush"])
      elif r < 0.90: prog.append(["drain", ci])
      elif r < 0.96: prog.append(["react", ci])
      else: prog.append(["close", ci])
    scripts = []
    for ci in range(ncons):
      sc = []
      for _ in range(rng.randrange(0, 8)):
        r = rng.random()
        if r < 0.30: sc.append("all")
        elif r < 0.62: sc.append(rng.choice([1, 3, 7, 100, 2500, 4095, 4096, 5000, 0, 0]))
        elif r < 0.80: sc.append("eagain")
        elif r < 0.93: sc.append("eagain_blocked")
        else: sc.append(rng.choice(["fatal", "fatal", "fatal:EPIPE", "fatal:ETIMEDOUT",
                                    "fatal:EHOSTUNREACH", "fatal:ENOTCONN"]))
      scripts.append(sc)
    scn = dict(ncons=ncons, program=prog, scripts=scripts)
    if rng.random() < 0.25: scn["reclose"] = rng.choice(["con", "nexus"])
    if rng.random() < 0.3: scn["dpid0"] = True
    yield scn


CTL_DFS = [
  dict(ncons=1, program=[["send", 0, 20], ["send", 0, 30], ["send", 0, 9]],
       scripts=[["all", 5, 2, "all"]]),
  dict(ncons=2, program=[["send", 0, 20], ["send", 1, 30], ["send", 0, 9],
                         ["send", 1, 12]],
       scripts=[["all", 5, "eagain", 3], ["all", "all", 4]]),
  dict(ncons=2, program=[["send", 0, 20], ["send", 1, 30], ["send", 0, 9],
                         ["send", 1, 12]],
       scripts=[["all", 5, "fatal"], ["all", 7, 2]]),
  # the cooperative thread closes the connection while the sender thread is
  # dealing with a fatal error on it
  dict(ncons=1, program=[["send", 0, 20], ["send", 0, 30], ["close", 0]],
       scripts=[["all", 5, "fatal"]]),
  dict(ncons=2, program=[["send", 0, 20], ["send", 1, 30], ["send", 0, 9], ["close", 0],
                         ["send", 1, 12]],
       scripts=[["all", 5, "fatal:EPIPE"], ["all", 0, 7]]),
  dict(ncons=1, program=[["send", 0, 5000], ["send", 0, 30], ["drain", 0],
                         ["send", 0, 9]],
       scripts=[["all", 100, "eagain_blocked", 4096, 1]]),
  dict(ncons=2, program=[["send", 0, 40], ["send", 1, 40], ["close", 0],
                         ["send", 1, 9]],
       scripts=[["all", 5, "eagain_blocked"], ["all", 6, 3]]),
  # ConnectionDown listeners that disconnect the connection once more
  dict(ncons=1, program=[["send", 0, 20], ["send", 0, 30], ["close", 0]],
       scripts=[["all", 5, "fatal"]], reclose="con"),
  dict(ncons=1, program=[["send", 0, 20], ["send", 0, 30], ["send", 0, 9]],
       scripts=[["all", 5, "fatal:EPIPE"]], dpid0=True),
  dict(ncons=2, program=[["send", 0, 20], ["send", 1, 30], ["send", 0, 9], ["close", 0],
                         ["send", 1, 12]],
       scripts=[["all", 5, "fatal:EPIPE"], ["all", 0, 7]], reclose="nexus"),
]


def explore_ctl_dfs (scn, bound, limit, rep):
  work = [[]]
  seen = set()
  n = 0
  pick = random.Random(repr(scn))
  while work and n < limit:
    sch = work.pop(pick.randrange(len(work)))
    obs = do_ctl(scn, sch, "nonpreemptive", 0, rep)
    n += 1
    if obs is None: continue
    sig = obs["sig"]
    if sig in seen: continue
    seen.add(sig)
    for ch in ilv.children(obs["trace"], len(sch), bound):
      work.append(ch)
  rep.count("ctl_distinct_interleavings", len(seen))


# ==========================================================================
# (b) switch side on the virtual-time world

_iow = {}


def world ():
  w = _iow.get("w")
  if w is None:
    w = simnet.World()
    _iow["w"] = w
  return w


def run_iow (case, rep):
  """Returns (nontrivial) or raises; violations through rep."""
  w = world()
  import pox.lib.ioworker as iow
  def fire (key, what):
    rep.violation("C20 ioworker: " + key, what, case)
  loop = iow.RecocoIOLoop()
  loop.start()
  n = case["nworkers"]
  socks = []; workers = []; expected = []; closes = []; shut = [False] * n
  closed_by_prog = [False] * n
  for wi in range(n):
    s = simnet.FakeSocket("w%d" % wi)
    s.sticky_fatal = False
    s.send_script = list(case["scripts"][wi])
    socks.append(s); expected.append(bytearray()); closes.append(0)
    wk = loop.new_worker(s)
    def on_close (worker, wi=wi): closes[wi] += 1
    wk.close_handler = on_close
    workers.append(wk)
    if wi in case.get("connecting", ()):
      # an outgoing connection still being established; once it is, the
      # connect handler queues a greeting of its own (as the switch side's
      # OpenFlow worker does with its HELLO) - behind whatever was queued
      # before and ahead of whatever is queued later
      wk._connecting = True
      def on_connect (worker, wi=wi):
        connects[wi] += 1
        if not shut[wi] and not worker.closed:
          g = msg_bytes(wi, 0, 24)
          expected[wi] += g
          rep.count("iow_greetings_queued_by_connect_handler")
          if len(worker.send_buf): rep.count("iow_connect_with_bytes_already_queued")
          worker.send(g)
      wk.connect_handler = on_connect
  connects = [0] * n
  if not case.get("connecting"): w.run()
  counts = [0] * n
  raised = []
  for op in case["program"]:
    k = op[0]
    try:
      if k in ("send", "fast"):
        wi = op[1]; wk = workers[wi]
        counts[wi] += 1
        data = msg_bytes(wi, counts[wi], op[2])
        if not wk.closed and not shut[wi]:
          expected[wi] += data
          if k == "fast":
            rep.count("iow_fast_sends"); wk.send_fast(data)
          else:
            wk.send(data)
        elif wk.closed and not closed_by_prog[wi]:
          # a client that goes on sending on a worker that a fatal error has
          # closed (its socket may still be open until the loop gets round to
          # it): nothing of it reaches the socket
          rep.count("iow_sends_on_a_closed_worker")
          try:
            if k == "fast": wk.send_fast(data)
            else: wk.send(data)
          except Exception:
            pass
      elif k == "run":
        w.run()
      elif k == "drain":
        socks[op[1]].unblock()
      elif k == "shutdown":
        workers[op[1]].shutdown(); shut[op[1]] = True
      elif k == "close":
        closed_by_prog[op[1]] = True
        workers[op[1]].close()
    except Exception:
      raised.append((k, traceback.format_exc()[-600:]))
      break
  if raised:
    fire("%s raises" % ("send_fast" if raised[0][0] == "fast" else raised[0][0]),
         raised[0][1])
  else:
    rounds = 3 + sum(sc.count("eagain_blocked") for sc in case["scripts"])
    for rnd in range(rounds):
      for s in socks:
        while s.unblock(): pass
      w.run()
  # is the loop still serving?  a canary worker must get its bytes out
  cs = simnet.FakeSocket("canary")
  loop_dead = False
  try:
    cw = loop.new_worker(cs)
    cw.send(b"canary")
    w.run()
    loop_dead = bytes(cs.sent) != b"canary"
    workers_all = workers + [cw]
  except Exception:
    loop_dead = True
    workers_all = workers
  nontrivial = False
  try:
    if raised: return True
    if loop_dead:
      fire("I/O loop task died", "the RecocoIOLoop is no longer scheduled")
      return True
    for wi in range(n):
      s = socks[wi]; wk = workers[wi]
      exp = bytes(expected[wi]); got = bytes(s.sent)
      rep.count("iow_streams_compared")
      fatal = any(o == "fatal" for (o, nn, kk) in s.send_log)
      for (o, nn, kk) in s.send_log:
        if o in ("eagain", "eagain_blocked"): rep.count("iow_eagain"); nontrivial = True
        elif o == "fatal": rep.count("iow_fatal"); nontrivial = True
        elif kk < nn: rep.count("iow_partial_writes"); nontrivial = True
      if connects[wi] > 1:
        fire("connect handler ran more than once",
             "worker %d: %d times" % (wi, connects[wi])); return True
      if s.bytes_after_fatal:
        fire("bytes written to the socket after a fatal error",
             "worker %d: %d bytes; log %r" % (wi, s.bytes_after_fatal,
                                              s.send_log[-6:])); return True
      if not exp.startswith(got):
        fire("accepted bytes are not the queued messages in order",
             "worker %d: %s" % (wi, describe(got, exp))); return True
      if not fatal and not closed_by_prog[wi] and got != exp:
        fire("queued bytes never reached the socket",
             "worker %d: %s; log tail %r" % (wi, describe(got, exp),
                                             s.send_log[-5:])); return True
      if fatal or closed_by_prog[wi]:
        if closes[wi] != 1 or not wk.closed:
          fire("worker not reported closed exactly once",
               "worker %d after %s: close handler ran %d time(s), closed=%r" %
               (wi, "a fatal send error" if fatal else "close()", closes[wi],
                wk.closed)); return True
        if not s.closed:
          fire("socket of a closed worker never closed",
               "worker %d" % wi); return True
        if wk in loop._workers:
          fire("closed worker still served by the I/O loop", "worker %d" % wi)
          return True
      else:
        if closes[wi] or wk.closed:
          fire("healthy worker reported closed",
               "worker %d: close handler ran %d time(s)" % (wi, closes[wi]))
          return True
        if not shut[wi] and s.shut_wr:
          fire("socket shut down without shutdown()", "worker %d" % wi)
          return True
    return nontrivial
  finally:
    for wk in workers_all:
      try: wk.close()
      except Exception: pass
    loop.stop()
    try: w.run()
    except Exception: pass
    for t in list(w.hub._tasks.keys()):
      if t is loop: del w.hub._tasks[t]


def do_iow (case, rep):
  try:
    nt = run_iow(case, rep)
  except simnet.AdapterError:
    raise
  except Exception:
    rep.violation("C20 harness-visible exception",
                  traceback.format_exc()[-900:], case)
    nt = True
  rep.count("iow_cases")
  rep.case(repr((case["program"], case["scripts"])).encode(), nontrivial=bool(nt))


IOW_PROGRAMS = [
  [["send", 0, 20], ["send", 0, 9000], ["send", 0, 9]],
  [["send", 0, 20], ["run"], ["send", 0, 9000], ["run"], ["send", 0, 9]],
  [["fast", 0, 20], ["fast", 0, 9000], ["fast", 0, 9]],
  [["fast", 0, 20], ["run"], ["fast", 0, 9000], ["run"], ["fast", 0, 9]],
  [["send", 0, 9000], ["run"], ["fast", 0, 20], ["send", 0, 9], ["shutdown", 0]],
]


def gen_iow_enum (shard, nshards, length):
  i = 0
  for prog in IOW_PROGRAMS:
    for script in itertools.product(ALPHA, repeat=length):
      if i % nshards == shard:
        yield dict(part="iow", nworkers=1, program=prog,
                   scripts=[concrete_script(script, None)])
        if i % 3 == 0:
          yield dict(part="iow", nworkers=1, program=prog, connecting=[0],
                     scripts=[concrete_script(script, None)])
      i += 1


def gen_iow_random (rng, n):
  for _ in range(n):
    nw = rng.choice([1, 2, 2, 3])
    prog = []
    dead = set()
    for _ in range(rng.randrange(2, 12)):
      r = rng.random()
      wi = rng.randrange(nw)
      if r < 0.30:
        prog.append(["send", wi, rng.choice([8, 24, 300, 8192, 8193, 20000])])
      elif r < 0.55:
        prog.append(["fast", wi, rng.choice([8, 24, 300, 8192, 8193, 20000])])
      elif r < 0.80: prog.append(["run"])
      elif r < 0.90: prog.append(["drain", wi])
      elif r < 0.95: prog.append(["shutdown", wi])
      else: prog.append(["close", wi])
    scripts = []
    for wi in range(nw):
      sc = []
      for _ in range(rng.randrange(0, 9)):
        r = rng.random()
        if r < 0.30: sc.append("all")
        elif r < 0.62: sc.append(rng.choice([1, 3, 7, 100, 2500, 8191, 8192, 15000, 0, 0]))
        elif r < 0.80: sc.append("eagain")
        elif r < 0.93: sc.append("eagain_blocked")
        else: sc.append(rng.choice(["fatal", "fatal", "fatal:EPIPE", "fatal:ETIMEDOUT",
                                    "fatal:EHOSTUNREACH", "fatal:ENOTCONN"]))
      scripts.append(sc)
    case = dict(part="iow", nworkers=nw, program=prog, scripts=scripts)
    if rng.random() < 0.3:
      case["connecting"] = sorted(set(rng.randrange(nw) for _ in range(nw)))
    yield case


# ==========================================================================

def plan (tier, seed):
  if tier == "quick":
    return ([dict(mode="ctl_enum", shard=i, nshards=5, length=4) for i in range(5)] +
            [dict(mode="ctl_rand", policy=p, n=250, sub=i)
             for i, p in enumerate(["random", "pct", "nonpreemptive"])] +
            [dict(mode="ctl_dfs", scn=i, bound=2, limit=150)
             for i in range(len(CTL_DFS))] +
            [dict(mode="iow_enum", shard=i, nshards=2, length=4) for i in range(2)] +
            [dict(mode="iow_rand", n=3000, sub=0)] +
            [dict(mode="ctl_mass", sizes=[70, 300, 1100]), dict(mode="ctl_mass", sizes=[4200])])
  return ([dict(mode="ctl_enum", shard=i, nshards=8, length=5) for i in range(8)] +
          [dict(mode="ctl_rand", policy=p, n=6000, sub=i)
           for i, p in enumerate(["random", "pct", "nonpreemptive",
                                  "random", "pct", "random"])] +
          [dict(mode="ctl_dfs", scn=i, bound=3, limit=4000)
           for i in range(len(CTL_DFS))] +
          [dict(mode="iow_enum", shard=i, nshards=4, length=5) for i in range(4)] +
          [dict(mode="iow_rand", n=60000, sub=i) for i in range(4)] +
          [dict(mode="ctl_mass", sizes=[s_]) for s_ in (130, 520, 1030, 2050, 4100, 8200)])


def run (spec, rep):
  m = spec["mode"]
  first = True
  if m == "ctl_enum":
    for scn in gen_ctl_enum(spec["shard"], spec["nshards"], spec["length"]):
      do_ctl(scn, [], "nonpreemptive", 0, rep)
      if first: rep.sample(dict(part="ctl", scn=scn)); first = False
  elif m == "ctl_mass":
    for scn in gen_ctl_mass(spec["sizes"]):
      obs = do_ctl(scn, [], "nonpreemptive", 0, rep)
      if obs is not None:
        rep.count("ctl_backlogs_of_very_many_pieces")
        rep.maxi("ctl_pieces_queued_for_one_connection", scn["mass"])
  elif m == "ctl_rand":
    rng = random.Random("c20/ctl/%d/%d" % (spec["seed"], spec["sub"]))
    sigs = set()
    for i, scn in enumerate(gen_ctl_random(rng, spec["n"])):
      obs = do_ctl(scn, [], spec["policy"],
                   "c20/%d/%d/%d" % (spec["seed"], spec["sub"], i), rep)
      if obs is not None: sigs.add((repr(scn), obs["sig"]))
      if first: rep.sample(dict(part="ctl", scn=scn, policy=spec["policy"])); first = False
    rep.count("ctl_distinct_interleavings", len(sigs))
  elif m == "ctl_dfs":
    explore_ctl_dfs(CTL_DFS[spec["scn"]], spec["bound"], spec["limit"], rep)
    rep.sample(dict(part="ctl", scn=CTL_DFS[spec["scn"]], mode="dfs",
                    bound=spec["bound"]))
  elif m == "iow_enum":
    for case in gen_iow_enum(spec["shard"], spec["nshards"], spec["length"]):
      do_iow(case, rep)
      if first: rep.sample(case); first = False
  else:
    rng = random.Random("c20/iow/%d/%d" % (spec["seed"], spec["sub"]))
    for case in gen_iow_random(rng, spec["n"]):
      do_iow(case, rep)
      if first: rep.sample(case); first = False


def replay (witness, rep):
  if witness.get("part") == "ctl":
    do_ctl(witness["scn"], witness["schedule"], "nonpreemptive",
           witness.get("seed", 0), rep)
  else:
    do_iow(witness, rep)
