"""
C03 - flow match and lookup semantics agree with OpenFlow 1.0.

Matches are sent as flow_mod *bytes* (built by the independent encoder) to a
real SoftwareSwitch through OFConnection; frames are raw bytes built by the
independent frame builder.  Observation: the data-plane port the frame comes
out of (each entry outputs to its own marker port) or the packet-in that a
miss produces.  Oracle: pvm.ref.ofmatch.
"""
import random
import struct
import traceback

from pvm import simnet
from pvm.gen import framegen
from pvm.ref import ofwire, ofmatch as OM

ID = "C03"
LEVEL = "exploration"
RULE = ("single: (wire match, frame, in_port) where the match is derived "
        "from the frame's own header fields with random wildcard bits and "
        "prefix lengths and each kept field equal / one bit off / different "
        "only in masked-out bits; table: 1..8 (quick) or 1..32 entries with "
        "arbitrary priorities incl. exact-match entries, probed with related "
        "frames; non-trivial = reference says 'match' for at least one entry "
        "with at least one non-wildcarded field; distinct = distinct case")
ASSUMPTIONS = ["pvm/ref/ofmatch.py states OpenFlow 1.0 matching correctly",
               "nw_tos compared on the DSCP bits only (frames carry ECN marks; "
               "matches do not)",
               "which of several equal-priority matching entries wins is "
               "not demanded; ARP opcodes > 255 not generated"]
REQUIRED = ["single_cases", "single_match", "single_nomatch", "tables",
            "table_hits", "table_misses", "exact_entries_hit", "vlan_frames",
            "llc_frames", "arp_frames", "frag_frames", "prefix_matches",
            "sibling_frames_matched", "tables_read_between_install_and_lookup", "packet_objects_rewritten_between_two_lookups",
            "probes_that_are_answers_or_neighbours_of_an_earlier_one"]
TIMEOUT = {"quick": 900, "thorough": 7200}

NPORTS = 40
IN_PORTS = [39, 40]

_sw = {}


def get_switch ():
  s = _sw.get("sw")
  if s is None:
    s = simnet.DirectSwitch(dpid=7, ports=NPORTS, max_buffers=0,
                            miss_send_len=0xffff)
    _sw["sw"] = s
  return s


def flow_mod_bytes (match, priority, out_port, command=0, cookie=0, xid=1):
  d = dict(xid=xid, match=match, cookie=cookie, command=command,
           idle_timeout=0, hard_timeout=0, priority=priority,
           buffer_id=0xffffffff, out_port=0xffff, flags=0,
           actions=[dict(type=0, port=out_port, max_len=0)] if out_port else [])
  return ofwire.enc_message("flow_mod", d)


DELETE_ALL = flow_mod_bytes(dict(wildcards=OM.FW_ALL, in_port=0, dl_src=b"\0" * 6,
                                 dl_dst=b"\0" * 6, dl_vlan=0, dl_vlan_pcp=0,
                                 dl_type=0, nw_tos=0, nw_proto=0, nw_src=0,
                                 nw_dst=0, tp_src=0, tp_dst=0), 0, None,
                            command=3)


def derive_match (rng, f, exactish=False):
  """A wire match derived from frame fields f."""
  m = dict(in_port=f["in_port"], dl_src=bytes(f["dl_src"]),
           dl_dst=bytes(f["dl_dst"]), dl_vlan=f["dl_vlan"],
           dl_vlan_pcp=f["dl_vlan_pcp"], dl_type=f["dl_type"],
           nw_tos=f["nw_tos"], nw_proto=f["nw_proto"], nw_src=f["nw_src"],
           nw_dst=f["nw_dst"], tp_src=f["tp_src"], tp_dst=f["tp_dst"])
  wc = 0
  p_wild = rng.choice([0.0, 0.15, 0.5, 0.8]) if not exactish else 0.0
  for bit in (OM.FW_IN_PORT, OM.FW_DL_VLAN, OM.FW_DL_SRC, OM.FW_DL_DST,
              OM.FW_DL_TYPE, OM.FW_NW_PROTO, OM.FW_TP_SRC, OM.FW_TP_DST,
              OM.FW_DL_VLAN_PCP, OM.FW_NW_TOS):
    if rng.random() < p_wild: wc |= bit
  for sh in (OM.FW_NW_SRC_SHIFT, OM.FW_NW_DST_SHIFT):
    r = rng.random()
    if exactish or r < 0.35: w = 0
    elif r < 0.5: w = rng.choice([32, 33, 45, 63])
    else: w = rng.randrange(0, 33)
    wc |= w << sh
  m["wildcards"] = wc
  # perturb kept fields
  n_pert = rng.choice([0, 0, 0, 1, 1, 2])
  flds = ["in_port", "dl_src", "dl_dst", "dl_vlan", "dl_vlan_pcp", "dl_type",
          "nw_tos", "nw_proto", "nw_src", "nw_dst", "tp_src", "tp_dst"]
  for _ in range(n_pert):
    k = rng.choice(flds)
    if k in ("dl_src", "dl_dst"):
      b = bytearray(m[k]); i = rng.randrange(6); b[i] ^= 1 << rng.randrange(8)
      m[k] = bytes(b)
    elif k in ("nw_src", "nw_dst"):
      sh = OM.FW_NW_SRC_SHIFT if k == "nw_src" else OM.FW_NW_DST_SHIFT
      bits = OM.nw_bits(wc, sh)
      r = rng.random()
      if r < 0.5 and bits < 32:
        # differ only below the prefix (host bits): must still match
        m[k] ^= 1 << rng.randrange(0, 32 - bits)
      elif bits > 0:
        m[k] ^= 1 << rng.randrange(32 - bits, 32)
      else:
        m[k] ^= 1 << rng.randrange(32)
    elif k == "nw_tos":
      m[k] = (m[k] ^ (4 << rng.randrange(6))) & 0xfc
    elif k == "dl_vlan_pcp":
      m[k] = (m[k] ^ (1 << rng.randrange(3))) & 7
    elif k in ("nw_proto",):
      m[k] = (m[k] ^ (1 << rng.randrange(8))) & 0xff
    else:
      m[k] = (m[k] ^ (1 << rng.randrange(16))) & 0xffff
  return m


def count_frame (rep, desc, f):
  if desc["tagged"]: rep.count("vlan_frames")
  if desc["kind"] in ("llc", "snap0", "snapx", "snap_ip"): rep.count("llc_frames")
  if desc["kind"].startswith("arp"): rep.count("arp_frames")
  if desc["kind"].startswith("frag"): rep.count("frag_frames")


def observe (sw, raw, in_port, obj=None):
  """Returns ('out', [ports]) or ('miss', n_packet_in) or ('none',)."""
  sw.take_out(); sw.take_bytes()
  if obj is not None: sw.switch.rx_packet(obj, in_port, raw)
  else: sw.inject(in_port, raw)
  out = sw.take_out()
  ctl = sw.take_bytes()
  pins = 0
  if ctl:
    try:
      for d in ofwire.dec_stream(ctl):
        if d["name"] == "packet_in": pins += 1
    except ofwire.WireError:
      pins = -1
  return out, pins


def readings (m, f):
  """
  The verdicts of every defensible reading of the specification for match m
  and frame fields f; a case is judged only when they all agree.  Besides the
  two readings of 'prerequisites are met', an ARP frame whose opcode does not
  fit in eight bits has three: the low eight bits with the addresses (the
  match structure's comment), protocol 0 without addresses (the reference
  switch) and no network-layer fields at all.
  """
  r = [OM.matches(m, f), OM.matches_frame_based(m, f)]
  if f.get("_arp_op", 0) > 255:
    g = dict(f, nw_proto=0, nw_src=0, nw_dst=0)
    r += [OM.matches(m, g), OM.matches_frame_based(m, g)]
    wc = m["wildcards"]
    for applies, base in ((OM.applicable(m)[1], r[0]), (True, r[1])):
      constrains = applies and (not wc & OM.FW_NW_PROTO
                                or OM.nw_bits(wc, OM.FW_NW_SRC_SHIFT) > 0
                                or OM.nw_bits(wc, OM.FW_NW_DST_SHIFT) > 0)
      r.append(base and not constrains)
  return r


def still_processed (sw, raw, in_port, rep, fire):
  """An unjudged frame must still be processed without an exception."""
  rep.count("ambiguous_not_judged")
  try:
    observe(sw, raw, in_port)
    rep.count("unjudged_frames_still_processed")
    return True
  except Exception:
    fire("frame processing raises", traceback.format_exc()[-700:])
    return False


def run_single (case, rep):
  sw = get_switch()
  m = case["match"]; raw = case["frame"]; in_port = case["in_port"]
  def fire (key, what):
    rep.violation("C03 " + key, what, case)
  sw.feed(DELETE_ALL + flow_mod_bytes(m, case.get("priority", 100), 1))
  err = sw.take_bytes()
  if err:
    fire("flow_mod rejected", "switch answered %s" % err[:40].hex()); return
  f = OM.extract(raw, in_port)
  expect = OM.matches(m, f)
  if f.get("_arp_op", 0) > 255: rep.count("arp_frames_with_wide_opcode")
  if len(set(readings(m, f))) != 1:
    # the readings of the specification disagree: not judged
    still_processed(sw, raw, in_port, rep, fire)
    return False
  try:
    out, pins = observe(sw, raw, in_port)
  except Exception:
    fire("frame processing raises", traceback.format_exc()[-700:]); return
  got = len(out) > 0
  rep.count("single_cases")
  rep.count("single_match" if expect else "single_nomatch")
  if case.get("sibling") and expect: rep.count("sibling_frames_matched")
  if expect:
    for fld, sh in (("nw_src", OM.FW_NW_SRC_SHIFT), ("nw_dst", OM.FW_NW_DST_SHIFT)):
      b = OM.nw_bits(m["wildcards"], sh)
      if 0 < b < 32 and (OM.applicable(m)[0] or OM.applicable(m)[1]):
        rep.count("prefix_matches"); break
  if got != expect:
    diffs = []
    for k in ("in_port", "dl_src", "dl_dst", "dl_vlan", "dl_vlan_pcp",
              "dl_type", "nw_tos", "nw_proto", "nw_src", "nw_dst", "tp_src",
              "tp_dst"):
      if m[k] != f[k]: diffs.append(k)
    kind = case.get("desc", {}).get("kind", "?")
    wc = m["wildcards"]
    why = mech(m, f, expect, case)
    fire("match decision differs: switch %s, spec %s [%s]" %
         ("matches" if got else "misses", "match" if expect else "miss", why),
         "frame kind %s fields %r; match wildcards %#x fields differing from "
         "frame: %r" % (kind, {k: (v.hex() if isinstance(v, bytes) else v)
                               for k, v in f.items()}, wc, diffs))
  elif expect and [p for p, _ in out] != [1]:
    fire("matched frame not output exactly once on the action port",
         repr([p for p, _ in out]))
  elif not expect and pins != 1:
    fire("miss did not produce exactly one packet-in", "packet-ins: %d" % pins)
  return expect


def mech (m, f, expect, case):
  """Mechanism label for a disagreement (no random values)."""
  kind = case.get("desc", {}).get("kind", "?")
  fam = ("llc" if kind in ("llc", "snap0", "snapx", "snap_ip") else
         "arp" if kind.startswith("arp") else
         "frag" if kind.startswith("frag") else
         "ip" if kind in ("tcp", "udp", "icmp", "ipother", "tcp_opts") else
         "other")
  wc = m["wildcards"]
  parts = [fam]
  if case.get("desc", {}).get("tagged"): parts.append("vlan")
  ip, arp, tp = OM.applicable(m)
  for fld, sh in (("nw_src", OM.FW_NW_SRC_SHIFT), ("nw_dst", OM.FW_NW_DST_SHIFT)):
    b = OM.nw_bits(wc, sh)
    if (ip or arp) and 0 < b < 32:
      mask = OM.prefix_mask(b)
      if m[fld] & ~mask & 0xffffffff: parts.append("prefix-with-host-bits")
      else: parts.append("prefix")
      break
  return ",".join(parts)


ALL_MATCH = dict(wildcards=OM.FW_ALL, in_port=0, dl_src=b"\0" * 6, dl_dst=b"\0" * 6,
                 dl_vlan=0, dl_vlan_pcp=0, dl_type=0, nw_tos=0, nw_proto=0, nw_src=0,
                 nw_dst=0, tp_src=0, tp_dst=0)
READS = (ofwire.enc_message("stats_request", dict(xid=71, type=1, flags=0, body=dict(
           match=ALL_MATCH, table_id=0xff, out_port=0xffff))) +
         ofwire.enc_message("stats_request", dict(xid=72, type=2, flags=0, body=dict(
           match=ALL_MATCH, table_id=0xff, out_port=0xffff))) +
         ofwire.enc_message("stats_request", dict(xid=73, type=3, flags=0, body={})) +
         ofwire.enc_message("barrier_request", dict(xid=74)))


def ask (sw, rep, fire):
  """Read-only requests: flow, aggregate and table statistics, a barrier."""
  sw.feed(READS)
  b = sw.take_bytes()
  try:
    names = [m["name"] for m in ofwire.dec_stream(bytes(b))]
  except ofwire.WireError:
    names = None
  if names != ["stats_reply"] * 3 + ["barrier_reply"]:
    fire("read-only requests not answered", "answers: %r" % (names,))
    return False
  rep.count("tables_read_between_install_and_lookup")
  return True


def run_table (case, rep):
  sw = get_switch()
  entries = case["entries"]     # list of dict(match, priority)
  def fire (key, what):
    rep.violation("C03 " + key, what, case)
  blob = DELETE_ALL
  for i, e in enumerate(entries):
    blob += flow_mod_bytes(e["match"], e["priority"], 1 + i, cookie=i)
  # some of the entries are taken out again before the lookups (strict
  # delete): what is left must still be searched in rank order
  removed = set(case.get("removed", []))
  for i in sorted(removed):
    blob += flow_mod_bytes(entries[i]["match"], entries[i]["priority"], None,
                           command=4)
  if removed: rep.count("tables_with_removals")
  sw.feed(blob)
  err = sw.take_bytes()
  if err:
    fire("flow_mod rejected", err[:40].hex()); return
  rep.count("tables")
  nt = False
  queue = [dict(p_) for p_ in case["probes"]]
  pi = -1
  while queue:
    probe = queue.pop(0); pi += 1
    if case.get("asked") and pi % 2 == 0:
      if not ask(sw, rep, fire): return
    raw = probe["frame"]; in_port = probe["in_port"]
    if case.get("relay") and pi < 4 and "obj" not in probe:
      # the frame comes from a software switch in the same process, which
      # hands the packet *object* on: looked up here once, then rewritten in
      # place by that switch's next action (another destination address) and
      # handed over again on the same port.  The second lookup is by the
      # headers the object has then.
      try:
        import pox.lib.packet as pkt
        from pox.lib.addresses import EthAddr
        po = pkt.ethernet(raw)
        others = [q_["frame"][0:6] for q_ in case["probes"] if q_["frame"][0:6] != raw[0:6]]
        if po.pack() == raw and others:
          sw.take_out(); sw.take_bytes()
          sw.switch.rx_packet(po, in_port, raw)
          po.dst = EthAddr(others[pi % len(others)])
          queue.insert(0, dict(frame=po.pack(), in_port=in_port, obj=po))
          rep.count("packet_objects_rewritten_between_two_lookups")
      except Exception:
        fire("frame processing raises", traceback.format_exc()[-700:]); return
    if probe.get("relative"): rep.count("probes_that_are_answers_or_neighbours_of_an_earlier_one")
    f = OM.extract(raw, in_port)
    matching = [i for i, e in enumerate(entries) if i not in removed
                and OM.matches(e["match"], f)]
    if f.get("_arp_op", 0) > 255: rep.count("arp_frames_with_wide_opcode")
    if [i for i, e in enumerate(entries) if i not in removed
        and len(set(readings(e["match"], f))) != 1]:
      if not still_processed(sw, raw, in_port, rep, fire): return
      continue
    exact = [i for i in matching if OM.is_exact(entries[i]["match"])]
    # entries whose only wildcard bits belong to fields that cannot apply to
    # their own ethertype/protocol: "exact" in effect, wildcarded on the
    # wire; either rank is accepted for them
    maybe = [i for i in matching if i not in exact
             and OM.is_effectively_exact(entries[i]["match"])]
    def best (ex):
      if ex: return ex
      if matching:
        top = max(entries[i]["priority"] for i in matching)
        return [i for i in matching if entries[i]["priority"] == top]
      return []
    winners = best(exact)
    if maybe:
      winners = sorted(set(winners) | set(best(exact + maybe)) | set(best(maybe)))
    try:
      out, pins = observe(sw, raw, in_port, probe.get("obj"))
    except Exception:
      fire("frame processing raises", traceback.format_exc()[-700:]); return
    ports = [p for p, _ in out]
    if winners:
      nt = True
      rep.count("table_hits")
      if exact: rep.count("exact_entries_hit")
      if len(ports) != 1 or (ports[0] - 1) not in winners:
        got = ports[0] - 1 if ports else None
        if got is None:
          what = "lookup reports a miss although an entry matches"
        elif got in matching:
          what = ("lookup returns a lower-ranked entry%s" %
                  (" (an exact-match entry exists)" if exact else ""))
        else:
          what = "lookup returns an entry that does not match"
        fire(what, "entries (priority, exact): %r; matching %r; winners %r; "
             "switch chose %r" % ([(e["priority"], OM.is_exact(e["match"]))
                                   for e in entries], matching, winners, got))
        return
    else:
      rep.count("table_misses")
      if ports or pins != 1:
        fire("lookup hit although no entry matches" if ports else
             "miss did not produce exactly one packet-in",
             "ports %r packet-ins %d" % (ports, pins))
        return
  return nt


def do_case (case, rep):
  try:
    if case["kind"] == "single":
      nt = run_single(case, rep)
    else:
      nt = run_table(case, rep)
  except Exception:
    rep.violation("C03 harness-visible exception",
                  traceback.format_exc()[-900:], case)
    nt = True
  rep.case(repr(sorted(case.items(), key=lambda kv: kv[0])).encode(),
           nontrivial=bool(nt))


SIBLINGS = ["tcp", "udp", "icmp", "ipother", "frag_later", "frag_first", "arp_req",
            "icmp_quote", "gre_ip", "tcp_opts", "other"]


def gen_single (rng, n):
  for _ in range(n):
    fs = rng.getrandbits(48)
    raw, desc = framegen.gen_frame(random.Random(fs))
    in_port = rng.choice(IN_PORTS)
    f = OM.extract(raw, in_port)
    m = derive_match(rng, f)
    if rng.random() < 0.25:
      # the match comes from one frame, the probe is a *sibling*: the same
      # hosts, tag and type of service carrying something else (so a field
      # the match wildcards differs in the frame while the kept ones agree)
      raw2, desc2 = framegen.gen_frame(random.Random(fs), rng.choice(SIBLINGS))
      yield dict(kind="single", match=m, frame=raw2, in_port=in_port, desc=desc2,
                 sibling=True)
      continue
    yield dict(kind="single", match=m, frame=raw, in_port=in_port, desc=desc)


def gen_table (rng, n, maxn):
  for _ in range(n):
    k = rng.randrange(1, maxn + 1)
    base = [framegen.gen_frame(rng) for _ in range(rng.choice([1, 1, 2, 3]))]
    entries = []
    seen = []
    for _ in range(k):
      raw, desc = rng.choice(base)
      in_port = rng.choice(IN_PORTS)
      f = OM.extract(raw, in_port)
      m = derive_match(rng, f, exactish=rng.random() < 0.25)
      if rng.random() < 0.15 and not (m["wildcards"] & OM.FW_ALL & ~(
          OM.FW_NW_SRC_MASK | OM.FW_NW_DST_MASK)):
        m["wildcards"] = 0
      near = False
      if rng.random() < 0.12:
        # all but exact: one single wildcard bit set (still a wildcarded
        # entry: its priority counts, it does not outrank anything)
        m = derive_match(rng, f, exactish=True)
        m["wildcards"] = rng.choice([OM.FW_IN_PORT, OM.FW_DL_VLAN, OM.FW_DL_SRC,
                                     OM.FW_DL_DST, OM.FW_NW_PROTO, OM.FW_TP_SRC,
                                     OM.FW_TP_DST, OM.FW_DL_VLAN_PCP, OM.FW_NW_TOS,
                                     1 << OM.FW_NW_SRC_SHIFT, 1 << OM.FW_NW_DST_SHIFT])
        near = True
      c = OM.canon(m)
      pr = rng.choice([0, 1, 1, 2, 100, 0x8000, 0xffff])
      if near:
        pr = rng.choice([0, 1, 100])
        # ... and a broader entry of higher priority for the same frame
        m2 = derive_match(rng, f, exactish=True)
        m2["wildcards"] = OM.FW_ALL & ~OM.FW_DL_TYPE & ~OM.FW_IN_PORT
        if not any(OM.canon(m2) == c2 and 0x9000 == p2 for c2, p2 in seen):
          seen.append((OM.canon(m2), 0x9000))
          entries.append(dict(match=m2, priority=0x9000))
      if any(c == c2 and pr == p2 for c2, p2 in seen): continue
      seen.append((c, pr))
      entries.append(dict(match=m, priority=pr))
    # (entry i outputs to marker port 1+i; the ingress ports are 39 and 40)
    del entries[36:]
    probes = []
    for raw, desc in base:
      for in_port in IN_PORTS:
        probes.append(dict(frame=raw, in_port=in_port))
      # the rest of the conversation, on the same port: the answer (sources
      # and destinations exchanged) and a neighbouring connection
      for rel in (framegen.mirror(raw), framegen.twin(raw)):
        if rel is not None and rng.random() < 0.6:
          probes.append(dict(frame=rel, in_port=rng.choice(IN_PORTS), relative=True))
    raw, desc = framegen.gen_frame(rng)
    probes.append(dict(frame=raw, in_port=IN_PORTS[0]))
    case = dict(kind="table", entries=entries, probes=probes)
    if len(entries) >= 3 and rng.random() < 0.4:
      case["removed"] = sorted(rng.sample(range(len(entries)),
                                          rng.randrange(1, max(2, len(entries) // 2))))
    # the controller looks at the table (statistics, a barrier) between
    # installing and the traffic, and between frames: reading changes nothing
    if rng.random() < 0.35: case["asked"] = True
    if rng.random() < 0.3: case["relay"] = True
    yield case


def plan (tier, seed):
  if tier == "quick":
    return ([dict(mode="single", n=4000, sub=i) for i in range(12)] +
            [dict(mode="table", n=500, maxn=8, sub=i) for i in range(4)])
  return ([dict(mode="single", n=250000, sub=i) for i in range(32)] +
          [dict(mode="table", n=12000, maxn=32, sub=i) for i in range(16)])


def run (spec, rep):
  rng = random.Random("c03/%d/%s/%d" % (spec["seed"], spec["mode"], spec["sub"]))
  g = gen_single(rng, spec["n"]) if spec["mode"] == "single" else \
      gen_table(rng, spec["n"], spec["maxn"])
  first = True
  for case in g:
    if case["kind"] == "single":
      count_frame(rep, case["desc"], None)
    do_case(case, rep)
    if first: rep.sample(case); first = False


def replay (witness, rep):
  do_case(witness, rep)
