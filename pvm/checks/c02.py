"""
C02 - message framing is independent of how the byte stream is segmented.

Real of_01.Connection (controller side) and real IOWorker._do_recv ->
OFConnection.read (switch side) on scripted in-memory sockets; recording
handlers; oracle over the bytes *pulled from the socket so far*.
"""
import random
import struct
import traceback

from pvm.gen import ofgen
from pvm.ref import ofwire
from pvm import simnet

ID = "C02"
LEVEL = "exploration"
RULE = ("a case is (side, stream seed, cut positions): a concatenation of "
        "1..12 well-formed messages of the kinds that side receives, "
        "delivered in the given segments; all 1-cuts and 2-cuts of short "
        "streams are enumerated, plus 1-byte dribble, header-boundary cuts "
        "+-1, cuts around the controller's 2048-byte read, random k-cuts; "
        "non-trivial = at least one cut falls strictly inside a message; "
        "distinct = distinct (side, stream, cuts)")
ASSUMPTIONS = ["segmentation is simulated at the socket API (recv return "
               "sizes), the kernel is not involved",
               "messages come from the C01 generators; a message is "
               "identified by its exact bytes (re-packed on delivery)"]
REQUIRED = ["reads", "delivered", "cuts_inside_header", "cuts_inside_body",
            "held_partial", "ctl_cases", "sw_cases", "over_2048",
            "handshake_streams", "reads_inside_a_handler", "hello_with_body"]
TIMEOUT = {"quick": 900, "thorough": 7200}

_cache = {}


def boot ():
  import pox.core
  if pox.core.core is None:
    from pvm import env
    env.make_core()
  import pox.openflow.of_01 as of_01
  if of_01.deferredSender is None or not isinstance(of_01.deferredSender,
                                                    simnet.DeferredSenderStub):
    of_01.deferredSender = simnet.DeferredSenderStub()
  return of_01


def make_stream (side, seed, big):
  key = (side, seed, big)
  if key in _cache: return _cache[key]
  rng = random.Random("c02stream/%s" % seed)
  kinds = ofgen.FROM_SWITCH if side == "ctl" else ofgen.FROM_CONTROLLER
  n = rng.randrange(1, 13)
  msgs = []
  pl = (0, 0, 1, 3, 8, 20) if not big else (0, 8, 100, 700, 1400, 1500)
  if big == "huge":
    # one message at (or near) the largest expressible length between
    # ordinary ones: the receive buffer holds almost 64 KiB of an incomplete
    # message plus whatever the next read brings
    L = rng.choice([63488, 63489, 65528, 65534, 65535])
    msgs = []
    for _ in range(rng.randrange(0, 3)):
      msgs.append(ofgen.gen_message(rng, "echo_request", payload_lens=(0, 3, 20)).pack())
    msgs.append(struct.pack("!BBHL", 1, 2, L, rng.getrandbits(32)) +
                bytes((i * 5 + 1) & 0xff for i in range(L - 8)))
    for _ in range(rng.randrange(1, 4)):
      msgs.append(ofgen.gen_message(rng, "echo_request", payload_lens=(0, 3, 20)).pack())
    _cache[key] = msgs
    return msgs
  if big == "many":
    # many short messages, so that a single read completes dozens of them
    n = rng.choice([13, 16, 17, 31, 32, 33, 64, 65, rng.randrange(13, 200)])
    pl = (0, 0, 1, 3)
  for _ in range(n):
    k = rng.choice(kinds)
    if side == "sw" and k == "hello" and rng.random() < 0.7:
      k = "echo_request"
    m = ofgen.gen_message(rng, k, payload_lens=pl)
    msgs.append(m.pack())
  if rng.random() < 0.3:
    # a HELLO that carries a body (OpenFlow 1.0 5.5.1: receivers accept it
    # and ignore the contents); the library never packs one, so it is built
    # by hand.  The controller side also lets a foreign-version HELLO through.
    ver = 1 if (side == "sw" or rng.random() < 0.5) else rng.choice([2, 4, 5])
    body = bytes(rng.getrandbits(8) for _ in range(rng.choice([1, 4, 8, 8, 9, 24, 100])))
    if rng.random() < 0.4: body = struct.pack("!HHL", 1, 8, 0x12)[:len(body)] or body
    msgs.insert(rng.randrange(0, len(msgs) + 1),
                struct.pack("!BBHL", ver, 0, 8 + len(body), rng.getrandbits(32)) + body)
  if len(_cache) > 64: _cache.clear()
  _cache[key] = msgs
  return msgs


def delivered_form (m):
  """What the recording handler sees for message bytes m: the re-packed
  message.  A HELLO's body is ignored, so it comes back as its header."""
  if m[1] == 0 and len(m) > 8:
    return m[:2] + b"\x00\x08" + m[4:8]
  return m


class Recorder (object):
  def __init__ (self):
    self.got = []
  def ctl_handler (self, con, msg):
    self.got.append(msg.pack())
  def sw_handler (self, conn, msg):
    self.got.append(msg.pack())


def run_case (case, rep):
  side = case["side"]
  msgs = make_stream(side, case["seed"], case.get("big", False))
  stream = b"".join(msgs)
  exp = [delivered_form(m) for m in msgs]
  if exp != msgs: rep.count("hello_with_body")
  cuts = sorted(set(c for c in case["cuts"] if 0 < c < len(stream)))
  bounds = [0]
  for m in msgs: bounds.append(bounds[-1] + len(m))
  def fire (key, what):
    rep.violation("C02 %s %s" % (side, key), what, case)
  rec = Recorder()
  of_01 = boot()
  if side == "ctl":
    sock = simnet.FakeSocket("c02")
    con = of_01.Connection(sock)
    con.handlers = [rec.ctl_handler] * 32
    def pump ():
      r = con.read()
      return r
    def residual (): return bytes(con.buf)
    limit = 2048
  else:
    import pox.lib.ioworker as iow
    import pox.datapaths.switch as sw
    sock = simnet.FakeSocket("c02")
    loop = getattr(run_case, "_loop", None)
    if loop is None:
      loop = iow.RecocoIOLoop()
      run_case._loop = loop
    worker = iow.RecocoIOWorker(sock)
    worker.pinger = loop.pinger
    worker.on_close = lambda w: None
    conn = sw.OFConnection(worker)
    conn.set_message_handler(rec.sw_handler)
    def pump ():
      worker._do_recv(loop)
      return not worker.closed
    def residual (): return bytes(worker.receive_buf)
    limit = loop._BUF_SIZE
  # classify cuts
  inside_hdr = inside_body = 0
  for c in cuts:
    for i in range(len(msgs)):
      if bounds[i] < c < bounds[i + 1]:
        if c - bounds[i] < 8: inside_hdr += 1
        else: inside_body += 1
  if inside_hdr: rep.count("cuts_inside_header", inside_hdr)
  if inside_body: rep.count("cuts_inside_body", inside_body)
  if len(stream) > 2048 and side == "ctl": rep.count("over_2048")
  segs = []
  prev = 0
  for c in cuts + [len(stream)]:
    segs.append(stream[prev:c]); prev = c
  ok = True
  for seg in segs:
    if not seg: continue
    sock.feed(seg)
    guard = 0
    while sock.rx and ok:
      guard += 1
      if guard > len(stream) + 10:
        fire("read makes no progress", "socket still has %d bytes" % len(sock.rx))
        ok = False; break
      try:
        r = pump()
      except Exception:
        fire("read raises", traceback.format_exc()[-600:]); ok = False; break
      rep.count("reads")
      if r is False:
        fire("connection dropped on well-formed input",
             "read() returned False after %d bytes" % sock.pulled)
        ok = False; break
      P = sock.pulled
      # messages wholly contained in the pulled prefix
      k = 0
      while k < len(msgs) and bounds[k + 1] <= P: k += 1
      if rec.got != exp[:k]:
        n = len(rec.got)
        if n > k:
          what = "delivered early/extra"
        elif n < k:
          what = "complete message not delivered"
        else:
          what = "delivered message differs"
        j = 0
        while j < min(n, k) and rec.got[j] == exp[j]: j += 1
        fire(what, "after pulling %d of %d bytes (cuts %r): delivered %d "
             "messages, %d are complete; first mismatch at #%d: got %s "
             "expected %s" % (P, len(stream), cuts, n, k, j,
                              rec.got[j][:24].hex() if j < n else None,
                              msgs[j][:24].hex() if j < len(msgs) else None))
        ok = False; break
      res = residual()
      if res != stream[bounds[k]:P]:
        fire("residual buffer is not the incomplete tail",
             "after %d bytes: residual %d bytes, expected %d" %
             (P, len(res), P - bounds[k]))
        ok = False; break
      if P > bounds[k]: rep.count("held_partial")
    if not ok: break
  if ok and rec.got != exp:
    fire("final delivery differs", "%d of %d" % (len(rec.got), len(msgs)))
  rep.count("delivered", len(rec.got))
  rep.count("ctl_cases" if side == "ctl" else "sw_cases")
  rep.case(("%s|%s|%r" % (side, case["seed"], cuts)).encode(),
           nontrivial=bool(inside_hdr or inside_body))


# ---------------------------------------------------------------------------
# a read that happens while a handler is still running (switch side)

def run_reentrant (case, rep):
  """
  The next segment arrives - and is read - from inside the handler of a
  message of the previous one (a peer in the same process that answers
  synchronously does this).  Every message must still be delivered exactly
  once, in order, and nothing may be left over.
  """
  boot()
  import pox.lib.ioworker as iow
  import pox.datapaths.switch as sw
  msgs = make_stream("sw", case["seed"], case.get("big", False))
  stream = b"".join(msgs)
  msgs = [delivered_form(m) for m in msgs]
  cuts = sorted(set(c for c in case["cuts"] if 0 < c < len(stream)))
  def fire (key, what):
    rep.violation("C02 sw-reentrant %s" % key, what, case)
  segs = []; prev = 0
  for c in cuts + [len(stream)]:
    segs.append(stream[prev:c]); prev = c
  sock = simnet.FakeSocket("c02r")
  loop = getattr(run_case, "_loop", None)
  if loop is None:
    loop = iow.RecocoIOLoop(); run_case._loop = loop
  worker = iow.RecocoIOWorker(sock)
  worker.pinger = loop.pinger
  worker.on_close = lambda w: None
  conn = sw.OFConnection(worker)
  got = []
  depth = [0]
  def handler (c, msg):
    got.append(msg.pack())
    if segs and depth[0] < 50:
      depth[0] += 1
      rep.count("reads_inside_a_handler")
      try:
        sock.feed(segs.pop(0))
        while sock.rx and not worker.closed: worker._do_recv(loop)
      finally:
        depth[0] -= 1
  conn.set_message_handler(handler)
  try:
    while segs:
      sock.feed(segs.pop(0))
      while sock.rx and not worker.closed: worker._do_recv(loop)
      rep.count("reads")
  except Exception:
    fire("raises", traceback.format_exc()[-600:])
    rep.case(("r|%s|%r" % (case["seed"], cuts)).encode(), nontrivial=True); return
  if worker.closed:
    fire("connection dropped on well-formed input", "")
  elif got != msgs:
    j = 0
    while j < min(len(got), len(msgs)) and got[j] == msgs[j]: j += 1
    fire("messages lost, repeated or reordered",
         "cuts %r: %d delivered, %d sent; first difference at #%d" %
         (cuts, len(got), len(msgs), j))
  elif bytes(worker.receive_buf):
    fire("bytes left over", "%d" % len(worker.receive_buf))
  rep.count("delivered", len(got))
  rep.case(("r|%s|%r" % (case["seed"], cuts)).encode(), nontrivial=bool(cuts))


# ---------------------------------------------------------------------------
# segmentation across the end of the handshake (real handler tables)

def hs_stream (seed):
  """(messages before the barrier reply, messages after it) as dicts."""
  from pvm import ctl
  rng = random.Random("c02hs/%s" % seed)
  def ps (n):
    return ("port_status", dict(xid=0, reason=rng.choice([0, 2]),
                                desc=ctl.phy_port(n, config=rng.choice([0, 1]))))
  early = [ps(rng.randrange(1, 5)) for _ in range(rng.randrange(0, 3))]
  late = []
  for i in range(rng.randrange(1, 7)):
    k = rng.choice(["packet_in", "packet_in", "port_status", "flow_removed",
                    "error", "barrier_reply", "echo_request"])
    if k == "packet_in":
      data = bytes([i, 2, 3, 4, 5, 6, 2, 0, 0, 0, 0, 1, 0x88, 0xb5]) + bytes(rng.randrange(0, 40))
      late.append((k, dict(xid=0, buffer_id=0xffffffff, total_len=len(data),
                           in_port=1 + i % 4, reason=0, data=data)))
    elif k == "port_status": late.append(ps(rng.randrange(1, 5)))
    elif k == "flow_removed":
      m = dict(wildcards=(1 << 22) - 1, in_port=0, dl_src=bytes(6), dl_dst=bytes(6),
               dl_vlan=0, dl_vlan_pcp=0, dl_type=0, nw_tos=0, nw_proto=0,
               nw_src=0, nw_dst=0, tp_src=0, tp_dst=0)
      late.append((k, dict(xid=0, match=m, cookie=100 + i, priority=i, reason=0,
                           duration_sec=1, duration_nsec=0, idle_timeout=0,
                           packet_count=i, byte_count=i)))
    elif k == "error":
      late.append((k, dict(xid=50 + i, type=1, code=1, data=bytes(8))))
    elif k == "barrier_reply": late.append((k, dict(xid=900 + i)))
    else: late.append((k, dict(xid=700 + i, body=b"e%d" % i)))
  return early, late


def run_hs (case, rep):
  """
  Hello and features reply arrive first (the barrier request's xid has to be
  read from what the controller sends); everything from there on - early
  port-status messages, the barrier reply that completes the handshake, and
  the traffic behind it - is cut as the case says.  What is observed is the
  events the connection raises, through POX's own listener API.
  """
  from pvm import ctl
  of_01 = boot()
  import pox.openflow as pofm
  core = __import__("pox.core").core.core
  if not core.hasComponent("openflow"): pofm.launch()
  def fire (key, what):
    rep.violation("C02 ctl-handshake %s" % key, what, case)
  early, late = hs_stream(case["seed"])
  peer = ctl.Peer(of_01)
  got = []
  con = peer.con
  con.addListenerByName("ConnectionUp", lambda e: got.append(("up",)))
  con.addListenerByName("PortStatus", lambda e: got.append(
    ("port_status", e.ofp.reason, e.ofp.desc.port_no)))
  con.addListenerByName("PacketIn", lambda e: got.append(
    ("packet_in", e.port, bytes(e.data))))
  con.addListenerByName("FlowRemoved", lambda e: got.append(
    ("flow_removed", e.ofp.cookie)))
  con.addListenerByName("ErrorIn", lambda e: got.append(("error", e.xid)))
  con.addListenerByName("BarrierIn", lambda e: got.append(("barrier_reply", e.xid)))
  peer.feed(ofwire.enc_message("hello", dict(xid=0)))
  peer.sent_messages()
  peer.feed(ofwire.enc_message("features_reply", dict(
    xid=1, datapath_id=case.get("dpid", 0x2002), n_buffers=0, n_tables=1,
    capabilities=0, actions=0xfff, ports=[ctl.phy_port(n) for n in (1, 2, 3, 4)])))
  bx = None
  for m in peer.sent_messages():
    if m["name"] == "barrier_request": bx = m["xid"]
  if bx is None:
    raise simnet.AdapterError("no barrier request after features reply")
  msgs = [ofwire.enc_message(k, d) for k, d in early]
  msgs.append(ofwire.enc_message("barrier_reply", dict(xid=bx)))
  msgs += [ofwire.enc_message(k, d) for k, d in late]
  stream = b"".join(msgs)
  cuts = sorted(set(c for c in case["cuts"] if 0 < c < len(stream)))
  prev = 0
  for c in cuts + [len(stream)]:
    if not peer.feed(stream[prev:c]):
      fire("connection closed by valid traffic", "at byte %d" % c); return
    prev = c
    rep.count("reads")
  want = [("up",)]
  for k, d in early + late:
    if k == "port_status": want.append((k, d["reason"], d["desc"]["port_no"]))
    elif k == "packet_in": want.append((k, d["in_port"], d["data"]))
    elif k == "flow_removed": want.append((k, d["cookie"]))
    elif k == "error": want.append((k, d["xid"]))
    elif k == "barrier_reply": want.append((k, d["xid"]))
  rep.count("handshake_streams")
  rep.count("delivered", len(got))
  if got != want:
    j = 0
    while j < min(len(got), len(want)) and got[j] == want[j]: j += 1
    fire("events differ from the messages sent" +
         (" (messages behind the barrier reply in the same read)"
          if not any(sum(len(x) for x in msgs[:len(early) + 1]) == c for c in cuts)
          else ""),
         "cuts %r: %d events, %d expected; first difference at #%d: got %r "
         "expected %r" % (cuts, len(got), len(want), j,
                          got[j][:2] if j < len(got) else None,
                          want[j][:2] if j < len(want) else None))
  try:
    con.disconnect()
  except Exception:
    pass
  rep.case(repr(("hs", case["seed"], cuts)).encode(), nontrivial=bool(cuts))


def gen_cases (spec):
  rng = random.Random("c02/%d/%d" % (spec["seed"], spec["sub"]))
  mode = spec["mode"]
  if mode == "hs":
    for si in range(spec["streams"]):
      seed = "%d/%d/%d/hs" % (spec["seed"], spec["sub"], si)
      base = dict(kind="hs", side="ctl", seed=seed, dpid=0x2000 + si % 5)
      yield dict(base, cuts=[])
      early, late = hs_stream(seed)
      L = 8 * (len(early) + 1) + 64 * len(early) + 80 * len(late) + 64
      for _ in range(spec.get("rand", 6)):
        yield dict(base, cuts=sorted(rng.randrange(1, L)
                                     for _ in range(rng.randrange(1, 4))))
      yield dict(base, cuts=list(range(1, L)))
    return
  for si in range(spec["streams"]):
    side = ("ctl", "sw")[si % 2]
    seed = "%d/%d/%d/%s" % (spec["seed"], spec["sub"], si, mode)
    big = mode if mode in ("many", "huge") else mode in ("big",)
    msgs = make_stream(side, seed, big)
    L = sum(len(m) for m in msgs)
    bounds = [0]
    for m in msgs: bounds.append(bounds[-1] + len(m))
    base = dict(side=side, seed=seed, big=big)
    if mode == "cut1":
      step = 1 if L <= 700 else max(1, L // 700)
      for c in range(1, L, step):
        yield dict(base, cuts=[c])
    elif mode == "cut2":
      if L > spec.get("maxlen", 90): continue
      for a in range(1, L):
        for b in range(a + 1, L):
          yield dict(base, cuts=[a, b])
    elif mode == "huge":
      yield dict(base, cuts=[])
      for step in (2048, 8192, 2047, 4096):
        yield dict(base, cuts=list(range(step, L, step)))
      for d in (-1, 0, 1, 7, 8):
        yield dict(base, cuts=[b + d for b in bounds[1:-1]])
      for _ in range(spec.get("rand", 4)):
        yield dict(base, cuts=sorted(rng.randrange(1, L) for _ in range(rng.randrange(1, 40))))
    elif mode == "many":
      yield dict(base, cuts=[])                        # one giant segment
      yield dict(base, cuts=[bounds[len(bounds) // 2]])
      yield dict(base, cuts=[bounds[1] + 3])
      for step in (37, 256, 1000, 2048):
        yield dict(base, cuts=list(range(step, L, step)))
      for _ in range(spec.get("rand", 6)):
        k = rng.randrange(1, 5)
        yield dict(base, cuts=sorted(rng.randrange(1, max(2, L))
                                     for _ in range(k)))
    elif mode == "misc" or mode == "big":
      yield dict(base, cuts=list(range(1, L)) if L < 3000 else
                 list(range(1, L, 7)))                  # dribble
      yield dict(base, cuts=[])                        # one giant segment
      hb = []
      for b in bounds[:-1]:
        for d in (-1, 1, 3, 4, 5, 7, 8, 9):
          hb.append(b + d)
      yield dict(base, cuts=hb)
      for d in (-1, 0, 1, 2):
        yield dict(base, cuts=[b + d for b in bounds[1:-1]])
      if L > 2048:
        for d in (-9, -8, -7, -1, 0, 1, 7, 8, 9):
          yield dict(base, cuts=[2048 + d])
          yield dict(base, cuts=[2048 + d, 4096 + d])
        yield dict(base, cuts=[x for x in range(2048, L, 2048)])
      for _ in range(spec.get("rand", 20)):
        k = rng.randrange(1, 12)
        yield dict(base, cuts=sorted(rng.randrange(1, max(2, L))
                                     for _ in range(k)))


def plan (tier, seed):
  if tier == "quick":
    sp = [dict(mode="cut1", streams=10, sub=i) for i in range(6)]
    sp += [dict(mode="cut2", streams=60, sub=i, maxlen=80) for i in range(4)]
    sp += [dict(mode="misc", streams=120, sub=i, rand=15) for i in range(3)]
    sp += [dict(mode="big", streams=30, sub=i, rand=10) for i in range(3)]
    sp += [dict(mode="many", streams=40, sub=i, rand=6) for i in range(2)]
    sp += [dict(mode="hs", streams=150, sub=i, rand=6) for i in range(2)]
    sp += [dict(mode="huge", streams=6, sub=i, rand=3) for i in range(2)]
    return sp
  sp = [dict(mode="cut1", streams=150, sub=i) for i in range(16)]
  sp += [dict(mode="cut2", streams=400, sub=i, maxlen=140) for i in range(16)]
  sp += [dict(mode="misc", streams=3000, sub=i, rand=40) for i in range(8)]
  sp += [dict(mode="big", streams=500, sub=i, rand=40) for i in range(8)]
  sp += [dict(mode="many", streams=1500, sub=i, rand=20) for i in range(8)]
  sp += [dict(mode="hs", streams=6000, sub=i, rand=12) for i in range(8)]
  sp += [dict(mode="huge", streams=150, sub=i, rand=10) for i in range(8)]
  return sp


def run (spec, rep):
  boot()
  first = True
  for case in gen_cases(spec):
    try:
      if case.get("kind") == "hs": run_hs(case, rep)
      else:
        run_case(case, rep)
        if case["side"] == "sw" and case["cuts"] and len(case["cuts"]) < 40:
          run_reentrant(case, rep)
    except Exception:
      rep.violation("C02 harness-visible exception",
                    traceback.format_exc()[-900:], case)
    if first and case["cuts"] and case.get("kind") != "hs":
      rep.sample(dict(case=case, stream_len=sum(
        len(m) for m in make_stream(case["side"], case["seed"],
                                    case.get("big", False)))))
      first = False


def replay (witness, rep):
  boot()
  if witness.get("kind") == "hs": run_hs(witness, rep)
  else:
    run_case(witness, rep)
    if witness["side"] == "sw" and witness["cuts"]: run_reentrant(witness, rep)
