"""
C02 - message framing is independent of how the byte stream is segmented.

Real of_01.Connection (controller side) and real IOWorker._do_recv ->
OFConnection.read (switch side) on scripted in-memory sockets; recording
handlers; oracle over the bytes *pulled from the socket so far*.
"""
import random
import struct
import traceback

from pvm.gen import ofgen
from pvm.ref import ofwire
from pvm import simnet

ID = "C02"
LEVEL = "exploration"
RULE = ("a case is (side, stream seed, cut positions): a concatenation of "
        "1..12 well-formed messages of the kinds that side receives, "
        "delivered in the given segments; all 1-cuts and 2-cuts of short "
        "streams are enumerated, plus 1-byte dribble, header-boundary cuts "
        "+-1, cuts around the controller's 2048-byte read, random k-cuts; "
        "non-trivial = at least one cut falls strictly inside a message; "
        "distinct = distinct (side, stream, cuts)")
ASSUMPTIONS = ["segmentation is simulated at the socket API (recv return "
               "sizes), the kernel is not involved",
               "messages come from the C01 generators; a message is "
               "identified by its exact bytes (re-packed on delivery)"]
REQUIRED = ["reads", "delivered", "cuts_inside_header", "cuts_inside_body",
            "held_partial", "ctl_cases", "sw_cases", "over_2048",
            "handshake_streams", "reads_inside_a_handler", "reads_of_another_connection_inside_a_handler", "hello_with_body", "ctl_endpoints_with_the_nicira_unpacker",
            "ctl_endpoints_with_the_connection_s_own_idle_handlers",
            "moments_with_several_partial_messages", "handlers_that_raised",
            "sw_first_read_while_connecting", "sw_over_8192",
            "handshake_prefixes_segmented",
            "ctl_reads_filled_with_header_only_messages",
            "sw_reads_filled_with_header_only_messages",
            "streams_through_the_listening_loop", "messages_handled_by_a_slow_handler",
            "loop_arrivals_that_complete_no_message"]
TIMEOUT = {"quick": 900, "thorough": 7200}

_cache = {}


def boot ():
  import pox.core
  if pox.core.core is None:
    from pvm import env
    env.make_core()
  import pox.openflow.of_01 as of_01
  if of_01.deferredSender is None or not isinstance(of_01.deferredSender,
                                                    simnet.DeferredSenderStub):
    of_01.deferredSender = simnet.DeferredSenderStub()
  return of_01


_vendor = {}

def vendor_unpacker (nicira):
  """The controller's vendor unpacker: the library's own, or the one the
  Nicira extension installs in its place when it is launched."""
  of_01 = boot()
  import pox.openflow.nicira as nx
  if "plain" not in _vendor:
    _vendor["plain"] = of_01.unpackers[4]
    nx._init_unpacker()
    _vendor["nicira"] = of_01.unpackers[4]
  of_01.unpackers[4] = _vendor["nicira" if nicira else "plain"]


def make_stream (side, seed, big):
  key = (side, seed, big)
  if key in _cache: return _cache[key]
  rng = random.Random("c02stream/%s" % seed)
  kinds = ofgen.FROM_SWITCH if side == "ctl" else ofgen.FROM_CONTROLLER
  n = rng.randrange(1, 13)
  msgs = []
  pl = (0, 0, 1, 3, 8, 20) if not big else (0, 8, 100, 700, 1400, 1500)
  if big == "huge":
    # one message at (or near) the largest expressible length between
    # ordinary ones: the receive buffer holds almost 64 KiB of an incomplete
    # message plus whatever the next read brings
    L = rng.choice([63488, 63489, 65528, 65534, 65535])
    msgs = []
    for _ in range(rng.randrange(0, 3)):
      msgs.append(ofgen.gen_message(rng, "echo_request", payload_lens=(0, 3, 20)).pack())
    msgs.append(struct.pack("!BBHL", 1, 2, L, rng.getrandbits(32)) +
                bytes((i * 5 + 1) & 0xff for i in range(L - 8)))
    for _ in range(rng.randrange(1, 4)):
      msgs.append(ofgen.gen_message(rng, "echo_request", payload_lens=(0, 3, 20)).pack())
    _cache[key] = msgs
    return msgs
  if big == "tiny":
    # nothing but header-only messages: one read completes as many messages
    # as it has room for (256 in the controller's 2048 octets, 1024 in the
    # switch worker's 8192)
    n = rng.choice([255, 256, 257, 300, 1023, 1024, 1025, 3000] if side == "sw"
                   else [255, 256, 257, 300, 511, 512, 513, 1025])
    types = [2, 3, 5, 7, 18] if side == "sw" else [2, 3, 19, 19]
    msgs = [struct.pack("!BBHL", 1, rng.choice(types), 8, i) for i in range(n)]
    _cache[key] = msgs
    return msgs
  if big == "many":
    # many short messages, so that a single read completes dozens of them
    n = rng.choice([13, 16, 17, 31, 32, 33, 64, 65, rng.randrange(13, 200)])
    pl = (0, 0, 1, 3)
  for _ in range(n):
    k = rng.choice(kinds)
    if side == "sw" and k == "hello" and rng.random() < 0.7:
      k = "echo_request"
    m = ofgen.gen_message(rng, k, payload_lens=pl)
    msgs.append(m.pack())
  if rng.random() < 0.3:
    # a HELLO that carries a body (OpenFlow 1.0 5.5.1: receivers accept it
    # and ignore the contents); the library never packs one, so it is built
    # by hand.  The controller side also lets a foreign-version HELLO through.
    ver = 1 if (side == "sw" or rng.random() < 0.5) else rng.choice([2, 4, 5])
    body = bytes(rng.getrandbits(8) for _ in range(rng.choice([1, 4, 8, 8, 9, 24, 100])))
    if rng.random() < 0.4: body = struct.pack("!HHL", 1, 8, 0x12)[:len(body)] or body
    msgs.insert(rng.randrange(0, len(msgs) + 1),
                struct.pack("!BBHL", ver, 0, 8 + len(body), rng.getrandbits(32)) + body)
  if len(_cache) > 64: _cache.clear()
  _cache[key] = msgs
  return msgs


def delivered_form (m):
  """What the recording handler sees for message bytes m: the re-packed
  message.  A HELLO's body is ignored, so it comes back as its header."""
  if m[1] == 0 and len(m) > 8:
    return m[:2] + b"\x00\x08" + m[4:8]
  return m


class HandlerFails (RuntimeError):
  pass


class Recorder (object):
  def __init__ (self, raise_at=()):
    self.got = []
    self.raise_at = set(raise_at)
    self.raised = 0
  def _rec (self, msg):
    self.got.append(msg.pack())
    if len(self.got) - 1 in self.raise_at:
      # a handler that fails after having seen its message: the messages
      # behind it in the same read are still to be delivered
      self.raised += 1
      raise HandlerFails("handler of message #%d fails on purpose" % (len(self.got) - 1))
  def ctl_handler (self, con, msg): self._rec(msg)
  def sw_handler (self, conn, msg): self._rec(msg)


class Endpoint (object):
  """One connection under observation: the real controller-side Connection or
  the real switch-side IOWorker + OFConnection on a scripted socket, a
  recording handler, and the oracle over the bytes pulled so far."""
  def __init__ (self, side, msgs, rep, fire, connecting=False, raise_at=(), tag="",
                nicira=False, real_table=False):
    self.skipped = set()
    self.side = side; self.msgs = msgs; self.rep = rep; self.fire = fire
    self.stream = b"".join(msgs)
    self.exp = [delivered_form(m) for m in msgs]
    self.all_msgs = msgs
    self.bounds = [0]
    for m in msgs: self.bounds.append(self.bounds[-1] + len(m))
    self.rec = Recorder(raise_at)
    self.tag = tag
    self.ok = True
    self.max_per_read = 0
    of_01 = boot()
    if side == "ctl":
      vendor_unpacker(nicira)
      if nicira: rep.count("ctl_endpoints_with_the_nicira_unpacker")
      self.sock = simnet.FakeSocket("c02" + tag)
      self.con = of_01.Connection(self.sock)
      if real_table:
        # the connection's own handler table with only the handlers that do
        # something replaced by the recorder: message types the controller
        # has no use for (those a switch should never send) keep their
        # do-nothing handler, and are framed and skipped like any other
        hs = list(self.con.handlers)
        idle = set(t for t, h in enumerate(hs)
                   if getattr(h, "__func__", h) is of_01.OpenFlowHandlers.handle_default)
        self.con.handlers = [h if t in idle else self.rec.ctl_handler
                             for t, h in enumerate(hs)]
        self.skipped = idle | set(range(len(hs), 256))
        rep.count("ctl_endpoints_with_the_connection_s_own_idle_handlers")
      else:
        self.con.handlers = [self.rec.ctl_handler] * 32
    else:
      import pox.lib.ioworker as iow
      import pox.datapaths.switch as sw
      self.sock = simnet.FakeSocket("c02" + tag)
      loop = getattr(run_case, "_loop", None)
      if loop is None:
        loop = iow.RecocoIOLoop()
        run_case._loop = loop
      self.loop = loop
      self.worker = iow.RecocoIOWorker(self.sock)
      self.worker.pinger = loop.pinger
      self.worker.on_close = lambda w: None
      self.conn = sw.OFConnection(self.worker)
      self.conn.set_message_handler(self.rec.sw_handler)
      if connecting:
        # an outgoing connection whose completion is noticed on the first
        # read (the switch side's own workers start like this)
        self.worker._connecting = True
        rep.count("sw_first_read_while_connecting")

  def pump (self):
    if self.side == "ctl": return self.con.read()
    self.worker._do_recv(self.loop)
    return not self.worker.closed

  def residual (self):
    return bytes(self.con.buf) if self.side == "ctl" else bytes(self.worker.receive_buf)

  def feed (self, seg):
    """Returns False once a violation was reported for this endpoint."""
    if not self.ok: return False
    if not seg: return True
    fire = self.fire; rec = self.rec; msgs = self.msgs; exp = self.exp
    bounds = self.bounds; sock = self.sock; stream = self.stream
    sock.feed(seg)
    guard = 0
    while sock.rx and self.ok:
      guard += 1
      if guard > len(stream) + 10:
        fire("read makes no progress", "socket still has %d bytes" % len(sock.rx))
        self.ok = False; break
      before = len(rec.got)
      try:
        r = self.pump()
      except Exception:
        fire("read raises", traceback.format_exc()[-600:]); self.ok = False; break
      self.rep.count("reads")
      self.max_per_read = max(self.max_per_read, len(rec.got) - before)
      if r is False:
        fire("connection dropped on well-formed input",
             "read() returned False after %d bytes" % sock.pulled)
        self.ok = False; break
      P = sock.pulled
      # messages wholly contained in the pulled prefix
      k = 0
      while k < len(msgs) and bounds[k + 1] <= P: k += 1
      if self.skipped:
        exp_k = [exp[i] for i in range(k) if msgs[i][1] not in self.skipped]
      else:
        exp_k = exp[:k]
      if rec.got != exp_k:
        n = len(rec.got)
        if n > k:
          what = "delivered early/extra"
        elif n < k:
          what = "complete message not delivered"
        else:
          what = "delivered message differs"
        j = 0
        while j < min(n, k) and rec.got[j] == exp[j]: j += 1
        fire(what, "%safter pulling %d of %d bytes: delivered %d "
             "messages, %d are complete; first mismatch at #%d: got %s "
             "expected %s" % (self.tag and "connection %s: " % self.tag, P, len(stream), n, k, j,
                              rec.got[j][:24].hex() if j < n else None,
                              msgs[j][:24].hex() if j < len(msgs) else None))
        self.ok = False; break
      res = self.residual()
      if res != stream[bounds[k]:P]:
        fire("residual buffer is not the incomplete tail",
             "%safter %d bytes: residual %d bytes, expected %d" %
             (self.tag and "connection %s: " % self.tag, P, len(res), P - bounds[k]))
        self.ok = False; break
      if P > bounds[k]: self.rep.count("held_partial")
    return self.ok

  def holds_partial (self):
    P = self.sock.pulled
    return any(self.bounds[i] < P < self.bounds[i + 1] for i in range(len(self.msgs)))

  def finish (self):
    if self.ok and self.rec.got != [e for e, m in zip(self.exp, self.msgs)
                                    if m[1] not in self.skipped]:
      self.fire("final delivery differs", "%d of %d" % (len(self.rec.got), len(self.msgs)))
      self.ok = False
    self.rep.count("delivered", len(self.rec.got))
    if self.rec.raised: self.rep.count("handlers_that_raised", self.rec.raised)
    self.rep.maxi("%s_messages_completed_by_one_read" % self.side, self.max_per_read)
    if self.max_per_read >= (256 if self.side == "ctl" else 1024):
      self.rep.count("%s_reads_filled_with_header_only_messages" % self.side)


def segments (stream, cuts):
  segs = []; prev = 0
  for c in cuts + [len(stream)]:
    segs.append(stream[prev:c]); prev = c
  return segs


def run_case (case, rep):
  side = case["side"]
  msgs = make_stream(side, case["seed"], case.get("big", False))
  stream = b"".join(msgs)
  if [delivered_form(m) for m in msgs] != msgs: rep.count("hello_with_body")
  cuts = sorted(set(c for c in case["cuts"] if 0 < c < len(stream)))
  bounds = [0]
  for m in msgs: bounds.append(bounds[-1] + len(m))
  def fire (key, what):
    rep.violation("C02 %s %s" % (side, key), what + " (cuts %r)" % (cuts[:12],), case)
  raise_at = ()
  if case.get("raise_at"):
    raise_at = [i % len(msgs) for i in case["raise_at"]]
  ep = Endpoint(side, msgs, rep, fire, connecting=case.get("connecting", False),
                raise_at=raise_at, nicira=case.get("nicira", False),
                real_table=case.get("real_table", False))
  # classify cuts
  inside_hdr = inside_body = 0
  for c in cuts:
    for i in range(len(msgs)):
      if bounds[i] < c < bounds[i + 1]:
        if c - bounds[i] < 8: inside_hdr += 1
        else: inside_body += 1
  if inside_hdr: rep.count("cuts_inside_header", inside_hdr)
  if inside_body: rep.count("cuts_inside_body", inside_body)
  if len(stream) > 2048 and side == "ctl": rep.count("over_2048")
  if len(stream) > 8192 and side == "sw": rep.count("sw_over_8192")
  for seg in segments(stream, cuts):
    if not ep.feed(seg): break
  ep.finish()
  rep.count("ctl_cases" if side == "ctl" else "sw_cases")
  rep.case(("%s|%s|%r|%r|%r|%r" % (side, case["seed"], cuts, case.get("connecting"),
                                   case.get("raise_at"), case.get("nicira"))).encode(),
           nontrivial=bool(inside_hdr or inside_body))


def run_multi (case, rep):
  """
  Several connections of one side alive at once, their segments interleaved,
  so that more than one of them holds an incomplete message at the same
  moment: what one connection has buffered must never show up in another.
  """
  side = case["side"]
  def fire (key, what):
    rep.violation("C02 %s %s (several connections at once)" % (side, key), what, case)
  eps = []; queues = []
  for i, (seed, cuts) in enumerate(zip(case["seeds"], case["cutsets"])):
    msgs = make_stream(side, seed, False)
    ep = Endpoint(side, msgs, rep, fire, tag=str(i))
    cs = sorted(set(c for c in cuts if 0 < c < len(ep.stream)))
    eps.append(ep); queues.append(segments(ep.stream, cs))
  order = list(case["order"])
  oi = 0
  while any(queues):
    i = order[oi % len(order)] % len(eps); oi += 1
    if not queues[i]:
      i = next(j for j in range(len(eps)) if queues[j])
    seg = queues[i].pop(0)
    if not eps[i].feed(seg): break
    if sum(1 for e in eps if e.holds_partial()) >= 2:
      rep.count("moments_with_several_partial_messages")
  for e in eps: e.finish()
  rep.count("multi_connection_cases")
  rep.case(repr(("multi", side, case["seeds"], case["cutsets"], order)).encode(),
           nontrivial=True)


# ---------------------------------------------------------------------------
# a read that happens while a handler is still running (switch side)

def run_reentrant (case, rep):
  """
  The next segment arrives - and is read - from inside the handler of a
  message of the previous one (a peer in the same process that answers
  synchronously does this).  Every message must still be delivered exactly
  once, in order, and nothing may be left over.
  """
  boot()
  import pox.lib.ioworker as iow
  import pox.datapaths.switch as sw
  msgs = make_stream("sw", case["seed"], case.get("big", False))
  stream = b"".join(msgs)
  msgs = [delivered_form(m) for m in msgs]
  cuts = sorted(set(c for c in case["cuts"] if 0 < c < len(stream)))
  def fire (key, what):
    rep.violation("C02 sw-reentrant %s" % key, what, case)
  segs = []; prev = 0
  for c in cuts + [len(stream)]:
    segs.append(stream[prev:c]); prev = c
  sock = simnet.FakeSocket("c02r")
  loop = getattr(run_case, "_loop", None)
  if loop is None:
    loop = iow.RecocoIOLoop(); run_case._loop = loop
  worker = iow.RecocoIOWorker(sock)
  worker.pinger = loop.pinger
  worker.on_close = lambda w: None
  conn = sw.OFConnection(worker)
  got = []
  depth = [0]
  def handler (c, msg):
    got.append(msg.pack())
    if segs and depth[0] < 50:
      depth[0] += 1
      rep.count("reads_inside_a_handler")
      try:
        sock.feed(segs.pop(0))
        while sock.rx and not worker.closed: worker._do_recv(loop)
      finally:
        depth[0] -= 1
  # a second connection of the same process whose segments arrive - and are
  # read - while a handler of the first one is running (the peer answers the
  # first connection's message by writing to the second at once): each
  # connection's stream is its own
  two = None
  if case.get("two"):
    msgs2 = make_stream("sw", str(case["seed"]) + "/b", False)
    stream2 = b"".join(msgs2)
    msgs2 = [delivered_form(m) for m in msgs2]
    rng2 = random.Random("c02r2/%s" % case["seed"])
    cuts2 = sorted(set(rng2.randrange(1, len(stream2)) for _ in range(rng2.randrange(1, 6))))
    segs2 = []; prev = 0
    for c in cuts2 + [len(stream2)]:
      segs2.append(stream2[prev:c]); prev = c
    sock2 = simnet.FakeSocket("c02r2")
    worker2 = iow.RecocoIOWorker(sock2)
    worker2.pinger = loop.pinger
    worker2.on_close = lambda w: None
    conn2 = sw.OFConnection(worker2)
    got2 = []
    conn2.set_message_handler(lambda c, msg: got2.append(msg.pack()))
    two = (segs2, sock2, worker2, got2, msgs2)
    inner = handler
    def handler (c, msg):
      if segs2:
        rep.count("reads_of_another_connection_inside_a_handler")
        sock2.feed(segs2.pop(0))
        while sock2.rx and not worker2.closed: worker2._do_recv(loop)
      if not case.get("two_only"): inner(c, msg)
      else: got.append(msg.pack())
  conn.set_message_handler(handler)
  try:
    while segs:
      sock.feed(segs.pop(0))
      while sock.rx and not worker.closed: worker._do_recv(loop)
      rep.count("reads")
    if two:
      while two[0]:
        two[1].feed(two[0].pop(0))
        while two[1].rx and not two[2].closed: two[2]._do_recv(loop)
  except Exception:
    fire("raises", traceback.format_exc()[-600:])
    rep.case(("r|%s|%r" % (case["seed"], cuts)).encode(), nontrivial=True); return
  if two:
    if two[2].closed:
      fire("the other connection dropped on well-formed input", "")
    elif two[3] != two[4]:
      fire("messages of a connection read while another connection's handler "
           "runs are lost, repeated or reordered",
           "%d delivered, %d sent, %d octets left in its buffer" %
           (len(two[3]), len(two[4]), len(two[2].receive_buf)))
    elif bytes(two[2].receive_buf):
      fire("bytes left over on the other connection", "%d" % len(two[2].receive_buf))
  if worker.closed:
    fire("connection dropped on well-formed input", "")
  elif got != msgs:
    j = 0
    while j < min(len(got), len(msgs)) and got[j] == msgs[j]: j += 1
    fire("messages lost, repeated or reordered",
         "cuts %r: %d delivered, %d sent; first difference at #%d" %
         (cuts, len(got), len(msgs), j))
  elif bytes(worker.receive_buf):
    fire("bytes left over", "%d" % len(worker.receive_buf))
  rep.count("delivered", len(got))
  rep.case(("r|%s|%r" % (case["seed"], cuts)).encode(), nontrivial=bool(cuts))


# ---------------------------------------------------------------------------
# segmentation across the end of the handshake (real handler tables)

def hs_stream (seed):
  """(messages before the barrier reply, messages after it) as dicts."""
  from pvm import ctl
  rng = random.Random("c02hs/%s" % seed)
  def ps (n):
    return ("port_status", dict(xid=0, reason=rng.choice([0, 2]),
                                desc=ctl.phy_port(n, config=rng.choice([0, 1]))))
  early = [ps(rng.randrange(1, 5)) for _ in range(rng.randrange(0, 3))]
  late = []
  for i in range(rng.randrange(1, 7)):
    k = rng.choice(["packet_in", "packet_in", "port_status", "flow_removed",
                    "error", "barrier_reply", "echo_request"])
    if k == "packet_in":
      data = bytes([i, 2, 3, 4, 5, 6, 2, 0, 0, 0, 0, 1, 0x88, 0xb5]) + bytes(rng.randrange(0, 40))
      late.append((k, dict(xid=0, buffer_id=0xffffffff, total_len=len(data),
                           in_port=1 + i % 4, reason=0, data=data)))
    elif k == "port_status": late.append(ps(rng.randrange(1, 5)))
    elif k == "flow_removed":
      m = dict(wildcards=(1 << 22) - 1, in_port=0, dl_src=bytes(6), dl_dst=bytes(6),
               dl_vlan=0, dl_vlan_pcp=0, dl_type=0, nw_tos=0, nw_proto=0,
               nw_src=0, nw_dst=0, tp_src=0, tp_dst=0)
      late.append((k, dict(xid=0, match=m, cookie=100 + i, priority=i, reason=0,
                           duration_sec=1, duration_nsec=0, idle_timeout=0,
                           packet_count=i, byte_count=i)))
    elif k == "error":
      late.append((k, dict(xid=50 + i, type=1, code=1, data=bytes(8))))
    elif k == "barrier_reply": late.append((k, dict(xid=900 + i)))
    else: late.append((k, dict(xid=700 + i, body=b"e%d" % i)))
  return early, late


def run_hs (case, rep):
  """
  Hello and features reply arrive first (the barrier request's xid has to be
  read from what the controller sends); everything from there on - early
  port-status messages, the barrier reply that completes the handshake, and
  the traffic behind it - is cut as the case says.  What is observed is the
  events the connection raises, through POX's own listener API.
  """
  from pvm import ctl
  of_01 = boot()
  import pox.openflow as pofm
  core = __import__("pox.core").core.core
  if not core.hasComponent("openflow"): pofm.launch()
  def fire (key, what):
    rep.violation("C02 ctl-handshake %s" % key, what, case)
  early, late = hs_stream(case["seed"])
  peer = ctl.Peer(of_01)
  got = []
  con = peer.con
  con.addListenerByName("ConnectionUp", lambda e: got.append(("up",)))
  con.addListenerByName("PortStatus", lambda e: got.append(
    ("port_status", e.ofp.reason, e.ofp.desc.port_no)))
  con.addListenerByName("PacketIn", lambda e: got.append(
    ("packet_in", e.port, bytes(e.data))))
  con.addListenerByName("FlowRemoved", lambda e: got.append(
    ("flow_removed", e.ofp.cookie)))
  con.addListenerByName("ErrorIn", lambda e: got.append(("error", e.xid)))
  con.addListenerByName("BarrierIn", lambda e: got.append(("barrier_reply", e.xid)))
  hello = ofwire.enc_message("hello", dict(xid=0))
  feat = ofwire.enc_message("features_reply", dict(
    xid=1, datapath_id=case.get("dpid", 0x2002), n_buffers=0, n_tables=1,
    capabilities=0, actions=0xfff, ports=[ctl.phy_port(n) for n in (1, 2, 3, 4)]))
  pc = case.get("prefix_cuts")
  if pc is None:
    peer.feed(hello)
    peer.sent_messages()
    peer.feed(feat)
  else:
    # hello, features reply and the early port-status messages as one stream,
    # cut anywhere (a switch that answers at once sends them back to back)
    pre = hello + feat
    rep.count("handshake_prefixes_segmented")
    for seg in segments(pre, sorted(set(c for c in pc if 0 < c < len(pre)))):
      if not peer.feed(seg):
        fire("connection closed by valid traffic", "in the handshake prefix"); return
  bx = None
  for m in peer.sent_messages():
    if m["name"] == "barrier_request": bx = m["xid"]
  if bx is None:
    raise simnet.AdapterError("no barrier request after features reply")
  msgs = [ofwire.enc_message(k, d) for k, d in early]
  msgs.append(ofwire.enc_message("barrier_reply", dict(xid=bx)))
  msgs += [ofwire.enc_message(k, d) for k, d in late]
  stream = b"".join(msgs)
  cuts = sorted(set(c for c in case["cuts"] if 0 < c < len(stream)))
  prev = 0
  for c in cuts + [len(stream)]:
    if not peer.feed(stream[prev:c]):
      fire("connection closed by valid traffic", "at byte %d" % c); return
    prev = c
    rep.count("reads")
  want = [("up",)]
  for k, d in early + late:
    if k == "port_status": want.append((k, d["reason"], d["desc"]["port_no"]))
    elif k == "packet_in": want.append((k, d["in_port"], d["data"]))
    elif k == "flow_removed": want.append((k, d["cookie"]))
    elif k == "error": want.append((k, d["xid"]))
    elif k == "barrier_reply": want.append((k, d["xid"]))
  rep.count("handshake_streams")
  rep.count("delivered", len(got))
  if got != want:
    j = 0
    while j < min(len(got), len(want)) and got[j] == want[j]: j += 1
    fire("events differ from the messages sent" +
         (" (messages behind the barrier reply in the same read)"
          if not any(sum(len(x) for x in msgs[:len(early) + 1]) == c for c in cuts)
          else ""),
         "cuts %r: %d events, %d expected; first difference at #%d: got %r "
         "expected %r" % (cuts, len(got), len(want), j,
                          got[j][:2] if j < len(got) else None,
                          want[j][:2] if j < len(want) else None))
  try:
    con.disconnect()
  except Exception:
    pass
  rep.case(repr(("hs", case["seed"], cuts, pc)).encode(), nontrivial=bool(cuts))


# --------------------------------------------------------------------------
# the controller's own listening loop (OpenFlow_01_Task) in front of read()

_lw = {}


def loop_world ():
  """One World per process: the real OpenFlow_01_Task on a fake listener."""
  w = _lw.get("w")
  if w is None:
    w = simnet.World()
    w.start_openflow()
    _lw["w"] = w
    _lw["got"] = {}
    nexus = w.core.openflow
    def rec (kind, f):
      def h (e):
        L = _lw["got"].get(e.dpid)
        if L is not None: L.append((kind,) + f(e))
        if _lw.get("slow") and kind != "up":
          # a handler that takes its time (a database lookup, a path
          # computation): the clock moves on while the rest of what was
          # read is still waiting to be handed out
          w.clock.advance(_lw["slow"])
          _lw["slow_calls"] = _lw.get("slow_calls", 0) + 1
      return h
    nexus.addListenerByName("ConnectionUp", rec("up", lambda e: ()))
    nexus.addListenerByName("ConnectionDown", rec("down", lambda e: ()))
    nexus.addListenerByName("PortStatus", rec(
      "port_status", lambda e: (e.ofp.reason, e.ofp.desc.port_no)))
    nexus.addListenerByName("PacketIn", rec(
      "packet_in", lambda e: (e.port, bytes(e.data))))
    nexus.addListenerByName("FlowRemoved", rec("flow_removed", lambda e: (e.ofp.cookie,)))
    nexus.addListenerByName("ErrorIn", rec("error", lambda e: (e.xid,)))
    nexus.addListenerByName("BarrierIn", rec("barrier_reply", lambda e: (e.xid,)))
  return w


def loop_stream (seed):
  """Messages a switch sends once it is connected, some of them longer than
  one read of the controller's (2048 octets)."""
  from pvm import ctl
  rng = random.Random("c02loop/%s" % seed)
  out = []
  for i in range(rng.randrange(1, 9)):
    k = rng.choice(["packet_in", "packet_in", "packet_in", "port_status",
                    "flow_removed", "error", "barrier_reply", "big_packet_in"])
    if k in ("packet_in", "big_packet_in"):
      n = rng.randrange(0, 60) if k == "packet_in" else rng.choice([2030, 2040, 2100, 4200, 9000])
      data = bytes([i, 2, 3, 4, 5, 6, 2, 0, 0, 0, 0, 1, 0x88, 0xb5]) + bytes(
        rng.randrange(256) for _ in range(n))
      out.append(("packet_in", dict(xid=0, buffer_id=0xffffffff, total_len=len(data),
                                    in_port=1 + i % 4, reason=0, data=data)))
    elif k == "port_status":
      out.append((k, dict(xid=0, reason=rng.choice([0, 2]),
                          desc=ctl.phy_port(rng.randrange(1, 5), config=rng.choice([0, 1])))))
    elif k == "flow_removed":
      m = dict(wildcards=(1 << 22) - 1, in_port=0, dl_src=bytes(6), dl_dst=bytes(6),
               dl_vlan=0, dl_vlan_pcp=0, dl_type=0, nw_tos=0, nw_proto=0,
               nw_src=0, nw_dst=0, tp_src=0, tp_dst=0)
      out.append((k, dict(xid=0, match=m, cookie=100 + i, priority=i, reason=0,
                          duration_sec=1, duration_nsec=0, idle_timeout=0,
                          packet_count=i, byte_count=i)))
    elif k == "error":
      out.append((k, dict(xid=50 + i, type=1, code=1, data=bytes(8))))
    else:
      out.append((k, dict(xid=900 + i)))
  return out


def run_loop (case, rep):
  """
  The stream reaches Connection.read() the way it does in a running
  controller: through the listening task's select loop, which accepts the
  connection, calls read() when the socket is readable and decides from what
  read() returns whether to keep the connection.  Every segment is one
  arrival; a segment that ends inside a message makes a read that completes
  nothing.  Observed: the events the nexus raises, the socket, the registry.
  """
  from pvm import ctl
  w = loop_world()
  def fire (key, what):
    rep.violation("C02 ctl-loop %s" % key, what, case)
  _lw["n"] = _lw.get("n", 0) + 1
  _lw["slow"] = case.get("slow")
  _lw["slow_calls"] = 0
  dpid = 0x5000 + _lw["n"]
  got = _lw["got"][dpid] = []
  c, s = w.connect_switch_socket("L%d" % _lw["n"])
  w.run()
  s.rx.clear()
  late = loop_stream(case["seed"])
  hello = ofwire.enc_message("hello", dict(xid=0))
  feat = ofwire.enc_message("features_reply", dict(
    xid=1, datapath_id=dpid, n_buffers=0, n_tables=1,
    capabilities=0, actions=0xfff, ports=[ctl.phy_port(n) for n in (1, 2, 3, 4)]))
  def arrive (seg):
    s.send(seg); w.run()
    rep.count("loop_arrivals")
    return not c.closed
  pre = hello + feat
  pc = sorted(set(x for x in case.get("prefix_cuts", []) if 0 < x < len(pre)))
  for seg in segments(pre, pc):
    if not arrive(seg):
      fire("connection closed by valid traffic",
           "in the handshake prefix (cuts %r of %d octets)" % (pc, len(pre)))
      return
  bx = None
  try:
    for m in ofwire.dec_stream(bytes(s.rx)):
      if m["name"] == "barrier_request": bx = m["xid"]
  except ofwire.WireError:
    pass
  s.rx.clear()
  if bx is None: raise simnet.AdapterError("no barrier request after features reply")
  msgs = [ofwire.enc_message("barrier_reply", dict(xid=bx))]
  msgs += [ofwire.enc_message(k, d) for k, d in late]
  stream = b"".join(msgs)
  bounds = [0]
  for m in msgs: bounds.append(bounds[-1] + len(m))
  cuts = sorted(set(x for x in case["cuts"] if 0 < x < len(stream)))
  prev = 0
  for x in cuts + [len(stream)]:
    # (an arrival that lies wholly inside one message completes nothing)
    if any(bounds[i] <= prev and x < bounds[i + 1] or bounds[i] < prev and x <= bounds[i + 1]
           for i in range(len(msgs))) and x - prev < 2048:
      rep.count("loop_arrivals_that_complete_no_message")
    if not arrive(stream[prev:x]):
      fire("connection closed by valid traffic",
           "after octet %d of %d (cuts %r, message boundaries %r)" %
           (x, len(stream), cuts[:12], bounds[:12]))
      return
    prev = x
  want = [("up",)]
  for k, d in late:
    if k == "port_status": want.append((k, d["reason"], d["desc"]["port_no"]))
    elif k == "packet_in": want.append((k, d["in_port"], d["data"]))
    elif k == "flow_removed": want.append((k, d["cookie"]))
    elif k == "error": want.append((k, d["xid"]))
    elif k == "barrier_reply": want.append((k, d["xid"]))
  rep.count("streams_through_the_listening_loop")
  if _lw.get("slow_calls"): rep.count("messages_handled_by_a_slow_handler", _lw["slow_calls"])
  _lw["slow"] = None
  rep.count("delivered", len(got))
  if len(stream) > 2048: rep.count("over_2048")
  if got != want:
    j = 0
    while j < min(len(got), len(want)) and got[j] == want[j]: j += 1
    fire("events differ from the messages sent",
         "cuts %r: %d events, %d expected; first difference at #%d: got %r expected %r" %
         (cuts[:12], len(got), len(want), j, got[j][:2] if j < len(got) else None,
          want[j][:2] if j < len(want) else None))
  elif dpid not in w.core.openflow.connections:
    fire("connection not registered after valid traffic", "dpid %x" % dpid)
  # the switch goes away; the controller notices and lets go of the socket
  s.close(); w.run()
  del _lw["got"][dpid]
  rep.case(repr(("loop", case["seed"], cuts, pc)).encode(), nontrivial=bool(cuts))


def gen_cases (spec):
  rng = random.Random("c02/%d/%d" % (spec["seed"], spec["sub"]))
  mode = spec["mode"]
  if mode == "hs":
    for si in range(spec["streams"]):
      seed = "%d/%d/%d/hs" % (spec["seed"], spec["sub"], si)
      base = dict(kind="hs", side="ctl", seed=seed, dpid=0x2000 + si % 5)
      yield dict(base, cuts=[])
      early, late = hs_stream(seed)
      L = 8 * (len(early) + 1) + 64 * len(early) + 80 * len(late) + 64
      for _ in range(spec.get("rand", 6)):
        yield dict(base, cuts=sorted(rng.randrange(1, L)
                                     for _ in range(rng.randrange(1, 4))))
      yield dict(base, cuts=list(range(1, L)))
      P = 8 + 32 + 48 * 4
      yield dict(base, cuts=[], prefix_cuts=[])
      yield dict(base, cuts=[rng.randrange(1, L)], prefix_cuts=[8])
      for _ in range(2):
        yield dict(base, cuts=sorted(rng.randrange(1, L) for _ in range(rng.randrange(0, 3))),
                   prefix_cuts=sorted(rng.randrange(1, P) for _ in range(rng.randrange(1, 4))))
    return
  if mode == "loop":
    for si in range(spec["streams"]):
      seed = "%d/%d/%d/loop" % (spec["seed"], spec["sub"], si)
      base = dict(kind="loop", side="ctl", seed=seed)
      L = 8 + sum(len(ofwire.enc_message(k, d)) for k, d in loop_stream(seed))
      P = 8 + 32 + 48 * 4
      yield dict(base, cuts=[])
      yield dict(base, cuts=list(range(1, L)) if L < 400 else list(range(3, L, 61)))
      yield dict(base, cuts=list(range(2048, L, 2048)))
      for _ in range(spec.get("rand", 6)):
        yield dict(base, cuts=sorted(rng.randrange(1, L) for _ in range(rng.randrange(1, 6))),
                   prefix_cuts=sorted(rng.randrange(1, P) for _ in range(rng.randrange(0, 3))))
      yield dict(base, cuts=[], slow=rng.choice([0.3, 0.4, 1.0, 6.0]))
      yield dict(base, cuts=sorted(rng.randrange(1, L) for _ in range(2)),
                 slow=rng.choice([0.1, 0.4, 2.5, 31.0]))
    return
  if mode == "multi":
    for si in range(spec["streams"]):
      side = ("ctl", "sw")[si % 2]
      k = rng.choice([2, 2, 3])
      seeds = ["%d/%d/%d/multi%d" % (spec["seed"], spec["sub"], si, j) for j in range(k)]
      cutsets = []
      for sd in seeds:
        L = sum(len(m) for m in make_stream(side, sd, False))
        cutsets.append(sorted(rng.randrange(1, max(2, L))
                              for _ in range(rng.randrange(1, 8))))
      yield dict(kind="multi", side=side, seeds=seeds, cutsets=cutsets,
                 order=[rng.randrange(k) for _ in range(16)], cuts=[1])
    return
  for si in range(spec["streams"]):
    side = ("ctl", "sw")[si % 2]
    seed = "%d/%d/%d/%s" % (spec["seed"], spec["sub"], si, mode)
    big = mode if mode in ("many", "huge", "tiny") else mode in ("big",)
    msgs = make_stream(side, seed, big)
    L = sum(len(m) for m in msgs)
    bounds = [0]
    for m in msgs: bounds.append(bounds[-1] + len(m))
    base = dict(side=side, seed=seed, big=big)
    if mode == "cut1":
      step = 1 if L <= 700 else max(1, L // 700)
      for c in range(1, L, step):
        yield dict(base, cuts=[c])
    elif mode == "cut2":
      if L > spec.get("maxlen", 90): continue
      for a in range(1, L):
        for b in range(a + 1, L):
          yield dict(base, cuts=[a, b])
    elif mode == "huge":
      yield dict(base, cuts=[])
      for step in (2048, 8192, 2047, 4096):
        yield dict(base, cuts=list(range(step, L, step)))
      for d in (-1, 0, 1, 7, 8):
        yield dict(base, cuts=[b + d for b in bounds[1:-1]])
      for _ in range(spec.get("rand", 4)):
        yield dict(base, cuts=sorted(rng.randrange(1, L) for _ in range(rng.randrange(1, 40))))
    elif mode == "tiny":
      yield dict(base, cuts=[])
      yield dict(base, cuts=[2048, 4096])
      yield dict(base, cuts=[8192 + 3])
      yield dict(base, cuts=sorted(rng.randrange(1, L) for _ in range(3)))
    elif mode == "many":
      yield dict(base, cuts=[])                        # one giant segment
      yield dict(base, cuts=[bounds[len(bounds) // 2]])
      yield dict(base, cuts=[bounds[1] + 3])
      for step in (37, 256, 1000, 2048):
        yield dict(base, cuts=list(range(step, L, step)))
      for _ in range(spec.get("rand", 6)):
        k = rng.randrange(1, 5)
        yield dict(base, cuts=sorted(rng.randrange(1, max(2, L))
                                     for _ in range(k)))
    elif mode == "misc" or mode == "big":
      yield dict(base, cuts=list(range(1, L)) if L < 3000 else
                 list(range(1, L, 7)))                  # dribble
      yield dict(base, cuts=[])                        # one giant segment
      hb = []
      for b in bounds[:-1]:
        for d in (-1, 1, 3, 4, 5, 7, 8, 9):
          hb.append(b + d)
      yield dict(base, cuts=hb)
      for d in (-1, 0, 1, 2):
        yield dict(base, cuts=[b + d for b in bounds[1:-1]])
      if L > 2048:
        for d in (-9, -8, -7, -1, 0, 1, 7, 8, 9):
          yield dict(base, cuts=[2048 + d])
          yield dict(base, cuts=[2048 + d, 4096 + d])
        yield dict(base, cuts=[x for x in range(2048, L, 2048)])
      for _ in range(spec.get("rand", 20)):
        k = rng.randrange(1, 12)
        yield dict(base, cuts=sorted(rng.randrange(1, max(2, L))
                                     for _ in range(k)))
      # handlers that fail, with more messages behind them in the same read
      for _ in range(3):
        yield dict(base, cuts=sorted(rng.randrange(1, max(2, L))
                                     for _ in range(rng.randrange(0, 3))),
                   raise_at=[rng.randrange(64) for _ in range(rng.randrange(1, 4))])
      if side == "sw":
        # the first read finds the connection still being established
        for c in ([], [1], [3], [7], [8, 9], [rng.randrange(1, max(2, L))]):
          yield dict(base, cuts=c, connecting=True)


def plan (tier, seed):
  if tier == "quick":
    sp = [dict(mode="cut1", streams=10, sub=i) for i in range(6)]
    sp += [dict(mode="cut2", streams=60, sub=i, maxlen=80) for i in range(4)]
    sp += [dict(mode="misc", streams=120, sub=i, rand=15) for i in range(3)]
    sp += [dict(mode="big", streams=30, sub=i, rand=10) for i in range(3)]
    sp += [dict(mode="many", streams=40, sub=i, rand=6) for i in range(2)]
    sp += [dict(mode="hs", streams=150, sub=i, rand=6) for i in range(2)]
    sp += [dict(mode="huge", streams=6, sub=i, rand=3) for i in range(2)]
    sp += [dict(mode="multi", streams=400, sub=i) for i in range(2)]
    sp += [dict(mode="tiny", streams=12, sub=i) for i in range(2)]
    sp += [dict(mode="loop", streams=60, sub=i, rand=6) for i in range(2)]
    return sp
  sp = [dict(mode="cut1", streams=150, sub=i) for i in range(16)]
  sp += [dict(mode="cut2", streams=400, sub=i, maxlen=140) for i in range(16)]
  sp += [dict(mode="misc", streams=3000, sub=i, rand=40) for i in range(8)]
  sp += [dict(mode="big", streams=500, sub=i, rand=40) for i in range(8)]
  sp += [dict(mode="many", streams=1500, sub=i, rand=20) for i in range(8)]
  sp += [dict(mode="hs", streams=6000, sub=i, rand=12) for i in range(8)]
  sp += [dict(mode="huge", streams=150, sub=i, rand=10) for i in range(8)]
  sp += [dict(mode="multi", streams=20000, sub=i) for i in range(8)]
  sp += [dict(mode="tiny", streams=300, sub=i) for i in range(4)]
  sp += [dict(mode="loop", streams=3000, sub=i, rand=10) for i in range(8)]
  return sp


def run (spec, rep):
  if spec["mode"] == "loop":
    # (its own process: the World brings its own core)
    for case in gen_cases(spec):
      try:
        run_loop(case, rep)
      except simnet.AdapterError:
        raise
      except Exception:
        rep.violation("C02 harness-visible exception", traceback.format_exc()[-900:], case)
    return
  boot()
  first = True
  n = 0
  for case in gen_cases(spec):
    n += 1
    # every third controller-side stream is read by a controller that has
    # the Nicira extension loaded (its unpacker handles all vendor messages)
    if case.get("side") == "ctl" and case.get("kind") is None and n % 3 == 0:
      case["nicira"] = True
    if case.get("side") == "ctl" and case.get("kind") is None and n % 4 == 1 \
       and not case.get("raise_at"):
      case["real_table"] = True
    try:
      if case.get("kind") == "hs": run_hs(case, rep)
      elif case.get("kind") == "multi": run_multi(case, rep)
      else:
        run_case(case, rep)
        if case["side"] == "sw" and case["cuts"] and len(case["cuts"]) < 40 \
           and not case.get("raise_at") and not case.get("connecting") \
           and case.get("big") != "tiny":
          run_reentrant(case, rep)
          if n % 2:
            c2 = dict(case); c2["two"] = True; c2["two_only"] = bool(n % 4 == 1)
            run_reentrant(c2, rep)
    except Exception:
      rep.violation("C02 harness-visible exception",
                    traceback.format_exc()[-900:], case)
    if first and case["cuts"] and case.get("kind") not in ("hs", "multi"):
      rep.sample(dict(case=case, stream_len=sum(
        len(m) for m in make_stream(case["side"], case["seed"],
                                    case.get("big", False)))))
      first = False


def replay (witness, rep):
  if witness.get("kind") == "loop":
    run_loop(witness, rep); return
  boot()
  if witness.get("kind") == "hs": run_hs(witness, rep)
  elif witness.get("kind") == "multi": run_multi(witness, rep)
  else:
    run_case(witness, rep)
    if witness["side"] == "sw" and witness["cuts"] and not witness.get("raise_at") \
       and not witness.get("connecting"):
      run_reentrant(witness, rep)
