"""
C09 - connection lifecycle events and the connection registry stay
consistent.

Scripted switch peers on in-memory sockets are driven through the real
OpenFlow_01_Task accept/read loop, the real Connection and handshake
handlers and the real OpenFlowNexus (engine E2, one process per shard).
A monitor listening on the nexus checks ConnectionUp / ConnectionDown /
PortStatus against a model of each connection's handshake progress, and the
registry (connections, sendToDPID) against "live, fully handshaken, most
recent".
"""
import itertools
import random
import traceback

from pvm import simnet, ctl
from pvm.ref import ofwire

ID = "C09"
LEVEL = "exploration"
RULE = ("a case is a history over up to 3 connections and 2 datapath ids: "
        "connect, handshake replies (hello, features reply, desc stats "
        "reply, barrier reply or barrier-unsupported error) interleaved with "
        "port_status / echo_request / packet_in / unrelated error / wrong-xid "
        "barrier, loss (EOF, ECONNRESET, fatal send) at any point, and "
        "sendToDPID probes; all interleavings of one connection's handshake "
        "with two async messages are enumerated, multi-connection histories "
        "are drawn from VERIF_SEED; non-trivial = an async message arrived "
        "mid-handshake, or two connections shared a datapath id, or a "
        "connection was lost; distinct = distinct history")
ASSUMPTIONS = ["port-status messages that arrive before the features reply "
               "are superseded by it (not demanded)",
               "a wrong-xid barrier reply during the handshake aborts that "
               "connection (no ConnectionUp, no ConnectionDown demanded)",
               "sockets are in-memory; loss is injected at the socket API"]
REQUIRED = ["histories", "connections_up", "connections_down",
            "early_port_status", "handshakes_with_very_many_early_port_status", "reconnect_before_stale_close",
            "registry_checks", "registry_checks_in_up_handler", "send_probes",
            "loss_mid_handshake",
            "barrier_unsupported_path", "reads_carrying_several_messages",
            "connection_level_events_compared", "registry_checks_in_down_handler",
            "histories_without_a_nexus_level_up_listener",
            "histories_with_a_fatal_write_in_mid_read",
            "nexus_level_up_listeners_that_failed",
            "errors_resembling_barrier_unsupported", "messages_split_across_reads",
            "features_replies_on_stale_connections",
            "connections_closed_again_by_a_down_handler",
            "histories_with_another_nexus_configuration",
            "connection_up_events_halted_on_the_nexus"]
TIMEOUT = {"quick": 900, "thorough": 7200}

# (datapath id 0 is a legal id: code that tests "if dpid:" instead of
#  "is not None" shows up with it)
DPIDS = [0x11, 0, (1 << 48) | 0x11]   # (the third differs from the first above bit 47 only)


_cons = []


def hook_connections ():
  """Every Connection object the controller creates is noted (a harness-side
  wrapper around the constructor), so that the events raised on the
  connection itself can be observed like those on the nexus."""
  import pox.openflow.of_01 as of_01
  if getattr(of_01.Connection, "_pvm_hooked", False): return
  real = of_01.Connection.__init__
  def init (self, sock, *a, **k):
    real(self, sock, *a, **k)
    _cons.append(self)
    del _cons[:-64]
  of_01.Connection.__init__ = init
  of_01.Connection._pvm_hooked = True


class PeerModel (object):
  def __init__ (self, idx, csock, ssock):
    self.idx = idx
    self.c = csock          # controller side socket (Connection.sock)
    self.s = ssock          # our side
    self.hello = False
    self.features = None    # dpid
    self.barrier_xid = None
    self.completed = False  # handshake should be complete
    self.aborted = False    # wrong-xid barrier
    self.lost = False
    self.up = 0; self.down = 0
    self.early_ps = []      # port numbers expected after Up, in order
    self.ps_expected = []   # all port-status expected to be raised (in order)
    self.ps_seen = []
    self.consumed = 0
    self.accepted = False
    self.order = None       # completion order stamp
    self.cup = 0; self.cdown = 0; self.cps = []   # events on the connection itself
    self.con = None
    self.refeatured = False


class Monitor (object):
  def __init__ (self, rep, case, world):
    self.rep = rep; self.case = case; self.w = world
    self.peers = {}
    self.by_sock = {}
    self.registry = {}     # dpid -> PeerModel
    self.stamp = 0
    self.flags = set()
    self.bad = False
    core = world.core
    # how the nexus-level ConnectionUp is listened to: by this monitor (the
    # usual way), by nobody (the monitor then listens on each connection
    # object only), or also by a component whose handler fails -- an event
    # that nobody on the nexus handled, or whose handling failed, is still
    # owed to the connection's own listeners
    self.upl = case.get("up_listener")
    if self.upl != "absent":
      core.openflow.addListenerByName("ConnectionUp", self.on_up)
    else:
      rep.count("histories_without_a_nexus_level_up_listener")
    core.openflow.addListenerByName("ConnectionDown", self.on_down)
    core.openflow.addListenerByName("PortStatus", self.on_ps)
    self.handlers_attached = True
    self.halter = None
    if case.get("halt_up"):
      # the last ConnectionUp listener on the nexus halts the event: it then
      # is not raised on the connection itself - and that is all halting
      # means (the port-status messages that came early are still owed)
      from pox.lib.revent import EventHalt
      def halter (e):
        self.rep.count("connection_up_events_halted_on_the_nexus")
        return EventHalt
      self.halter = halter
      core.openflow.addListenerByName("ConnectionUp", halter, priority=-1000)
    self.thrower = None
    self.thrower2 = None
    if self.upl == "throws":
      def thrower (e):
        self.rep.count("nexus_level_up_listeners_that_failed")
        raise RuntimeError("a component's ConnectionUp handler fails")
      self.thrower = thrower
      core.openflow.addListenerByName("ConnectionUp", thrower, priority=-1000)
      # (the same component fails on the other events of a connection's life
      #  too: they are owed to the connection's own listeners as well)
      def thrower2 (e):
        self.rep.count("nexus_level_down_or_port_status_listeners_that_failed")
        raise RuntimeError("a component's handler fails")
      self.thrower2 = thrower2
      core.openflow.addListenerByName("ConnectionDown", thrower2, priority=-1000)
      core.openflow.addListenerByName("PortStatus", thrower2, priority=-1000)

  def fire (self, key, what):
    self.bad = True
    self.rep.violation("C09 " + key, what, self.case)

  def peer_of (self, con):
    return self.by_sock.get(id(con.sock))

  def on_up (self, e):
    p = self.peer_of(e.connection)
    if p is None:
      self.fire("ConnectionUp for unknown connection", ""); return
    p.up += 1
    if p.up > 1:
      self.fire("ConnectionUp raised twice for one connection", "peer %d" % p.idx)
    if p.features is None or not p.completed:
      self.fire("ConnectionUp before %s" %
                ("the features reply" if p.features is None else
                 "the barrier reply"),
                "peer %d features=%r barrier answered=%r" %
                (p.idx, p.features, p.completed))
    if e.dpid != p.features:
      self.fire("ConnectionUp carries wrong datapath id", "%r vs %r" %
                (e.dpid, p.features))
    self.rep.count("connections_up")
    # The registry as a ConnectionUp handler sees it (the usual place to send
    # the first messages to a switch): this connection is live, handshaken
    # and the most recent one for its datapath id, so it is the one listed.
    try:
      core = self.w.core
      con = core.openflow.getConnection(e.dpid)
      if con is not e.connection:
        self.fire("registry does not list the connection while its "
                  "ConnectionUp is delivered",
                  "getConnection(%#x) is %s" %
                  (e.dpid, "None" if con is None else
                   "another (older) connection"))
      else:
        before = len(p.c.sent)
        probe = ofwire.enc_message("echo_request", dict(xid=0x7e57, body=b"up"))
        ok = core.openflow.sendToDPID(e.dpid, probe)
        if not ok or bytes(p.c.sent[before:]) != probe:
          self.fire("sendToDPID from a ConnectionUp handler does not reach "
                    "the new connection",
                    "returned %r, %d bytes written to its socket" %
                    (ok, len(p.c.sent) - before))
      self.rep.count("registry_checks_in_up_handler")
    except Exception:
      self.fire("registry unreadable inside ConnectionUp",
                traceback.format_exc()[-300:])

  def on_down (self, e):
    p = self.peer_of(e.connection)
    if p is None:
      self.fire("ConnectionDown for unknown connection", ""); return
    p.down += 1
    if p.down > 1:
      self.fire("ConnectionDown raised twice for one connection", "peer %d" % p.idx)
    if p.up == 0:
      # not demanded by the statement (it only speaks of announced
      # connections); counted for the record
      self.rep.count("down_without_up_not_judged")
    self.rep.count("connections_down")
    if not p.lost and not p.aborted and not (p.c.closed or p.c.shut_rd or p.c.shut_wr):
      self.fire("ConnectionDown raised for a connection that is not lost",
                "peer %d: its socket is open and nothing happened to it" % p.idx)
    # the registry as a ConnectionDown handler sees it: the dead connection is
    # no longer reachable
    try:
      core = self.w.core
      if p.up and e.dpid is not None:
        self.rep.count("registry_checks_in_down_handler")
        if core.openflow.getConnection(e.dpid) is e.connection:
          self.fire("registry still lists the connection while its "
                    "ConnectionDown is delivered", "dpid %#x" % e.dpid)
    except Exception:
      self.fire("registry unreadable inside ConnectionDown",
                traceback.format_exc()[-300:])
    self.reclose(p, e.connection, "nexus")

  def reclose (self, p, con, where):
    """A listener that makes sure the socket of a switch that went away is
    released: disconnect() on the connection whose loss is being
    announced."""
    how = self.case.get("reclose")
    if not how or how[0] != where or p.down > 2: return
    self.rep.count("connections_closed_again_by_a_down_handler")
    # (disconnect(), not close(): close() also closes the descriptor, and a
    #  connection the I/O loop still lists must keep one -- whoever closes it
    #  from outside that loop breaks the loop's select, in any version)
    try:
      if how[1] == "msg": con.disconnect("dropped once more")
      else: con.disconnect()
    except Exception:
      self.fire("disconnect() from a ConnectionDown handler raises",
                traceback.format_exc()[-300:])

  def on_ps (self, e):
    p = self.peer_of(e.connection)
    if p is None: return
    if p.up == 0:
      self.fire("port-status raised before ConnectionUp",
                "peer %d port %d" % (p.idx, e.ofp.desc.port_no))
    if p.down:
      self.fire("port-status raised after ConnectionDown",
                "peer %d port %d" % (p.idx, e.ofp.desc.port_no))
    p.ps_seen.append(e.ofp.desc.port_no)

  # -- ops
  def connect (self, idx):
    c, s = self.w.connect_switch_socket("p%d" % idx)
    p = PeerModel(idx, c, s)
    self.peers[idx] = p
    self.by_sock[id(c)] = p
    return p

  def attach (self, p):
    """Listen on the Connection object itself, once it exists."""
    if p.con is not None: return
    for con in reversed(_cons):
      if con.sock is p.c:
        p.con = con
        def up (e):
          p.cup += 1
          if self.upl == "absent": self.on_up(e)
        def down (e):
          p.cdown += 1
          self.reclose(p, con, "con")
        def ps (e): p.cps.append(e.ofp.desc.port_no)
        con.addListenerByName("ConnectionUp", up)
        con.addListenerByName("ConnectionDown", down)
        con.addListenerByName("PortStatus", ps)
        return

  def controller_wrote (self, p):
    b = bytes(p.s.rx)
    p.s.rx.clear()
    try:
      return ofwire.dec_stream(b)
    except ofwire.WireError:
      self.fire("controller wrote undecodable bytes", b[:60].hex())
      return []

  def after_step (self, what):
    """Consistency checks after the world has run to quiescence."""
    # learn barrier xids
    for p in self.peers.values():
      for m in self.controller_wrote(p):
        if m["name"] == "barrier_request" and p.features is not None \
           and p.barrier_xid is None:
          p.barrier_xid = m["xid"]
    for p in self.peers.values():
      if p.con is not None:
        self.rep.count("connection_level_events_compared")
        if (p.cup, p.cdown, p.cps) != (0 if self.halter else p.up, p.down, p.ps_seen):
          self.fire("events on the connection object differ from those on the nexus",
                    "peer %d after %s: connection saw up=%d down=%d port-status %r, "
                    "nexus up=%d down=%d port-status %r" %
                    (p.idx, what, p.cup, p.cdown, p.cps, p.up, p.down, p.ps_seen))
      if p.features is not None and p.hello and not p.aborted and not p.lost \
         and p.barrier_xid is None and not p.refeatured:
        self.fire("handshake stalled: no barrier request after hello and the "
                  "features reply", "peer %d after %s" % (p.idx, what))
      if p.completed and not p.aborted and p.up != 1 and not p.lost_before_complete():
        self.fire("ConnectionUp not raised after features and barrier replies",
                  "peer %d after %s (up=%d)" % (p.idx, what, p.up))
      if p.up and p.ps_seen != p.ps_expected[:len(p.ps_seen)]:
        self.fire("port-status events out of arrival order",
                  "peer %d seen %r expected %r" % (p.idx, p.ps_seen, p.ps_expected))
      if p.up and not p.lost and len(p.ps_seen) != len(p.ps_expected):
        self.fire("port-status messages lost or duplicated",
                  "peer %d seen %r expected %r (early ones: %r)" %
                  (p.idx, p.ps_seen, p.ps_expected, p.early_ps))
      if p.lost and p.up == 1 and p.down != 1:
        self.fire("ConnectionDown not raised exactly once for a lost, "
                  "announced connection",
                  "peer %d after %s (down=%d)" % (p.idx, what, p.down))
    # registry
    self.rep.count("registry_checks")
    core = self.w.core
    try:
      keys = sorted(core.openflow.connections.keys())
    except Exception:
      self.fire("registry unreadable", traceback.format_exc()[-300:]); return
    want = sorted(self.registry)
    if keys != want:
      self.fire("registry keys differ from live handshaken connections",
                "after %s: registry has %r, live and handshaken are %r%s" %
                (what, [hex(k) for k in keys], [hex(k) for k in want],
                 " (a stale connection to the same datapath closed)"
                 if "stale" in self.flags else ""))
      return
    for d, p in self.registry.items():
      con = core.openflow.getConnection(d)
      if con is None or self.peer_of(con) is not p:
        self.fire("registry maps a datapath id to another connection",
                  "dpid %#x -> peer %r, expected peer %d" %
                  (d, self.peer_of(con).idx if con is not None and
                   self.peer_of(con) else None, p.idx))
        return

  def lose (self, p):
    p.lost = True
    d = p.features
    if p.completed and not p.aborted and self.registry.get(d) is p:
      del self.registry[d]
    elif p.completed and d in self.registry:
      self.flags.add("stale")
      self.rep.count("reconnect_before_stale_close")
    if p.features is not None and not p.completed:
      self.rep.count("loss_mid_handshake")
    self.flags.add("nt")


def _lbc (self):
  return self.lost and self.up == 0
PeerModel.lost_before_complete = _lbc


def run_history (case, rep):
  w = _world["w"]
  core = w.core
  # how the nexus is told to configure a new switch (set_config / delete all
  # flows before the barrier, either, or neither); the barrier is owed anyway
  saved_cfg = (core.openflow.miss_send_len, core.openflow.clear_flows_on_connect)
  cfg = case.get("nexus_cfg")
  if cfg is not None:
    core.openflow.miss_send_len, core.openflow.clear_flows_on_connect = cfg
    rep.count("histories_with_another_nexus_configuration")
  try:
    return _run_history(case, rep, w)
  finally:
    core.openflow.miss_send_len, core.openflow.clear_flows_on_connect = saved_cfg


def _run_history (case, rep, w):
  mon = Monitor(rep, case, w)
  core = w.core
  rep.count("histories")
  uniq = [0]
  try:
    held = [None]
    def flush ():
      # bytes written earlier without letting the controller run are read now,
      # in one piece
      if held[0] is not None:
        q = held[0]; held[0] = None
        w.run(max_steps=_steps[0])
        rep.count("reads_carrying_several_messages")
        if q.aborted: q.lost = True
        mon.after_step("coalesced messages from peer %d" % q.idx)
    for op in list(case["ops"]) + [["end"]]:
      if mon.bad: break
      hold = False; split = False
      op_index = getattr(mon, "_opi", 0) + 1; mon._opi = op_index
      if op[-1] == "split":
        op = op[:-1]; split = True
      if op[-1] == "hold":
        op = op[:-1]; hold = True
      k = op[0]
      if held[0] is not None and not (k == "msg" and mon.peers.get(op[1]) is held[0]):
        flush()
        if mon.bad: break
      if k == "end": break
      if k == "connect":
        if op[1] in mon.peers: continue
        pnew = mon.connect(op[1])
        w.run(max_steps=_steps[0])
        mon.attach(pnew)
        mon.after_step("connect")
        continue
      if k == "send":
        d = DPIDS[op[1]]
        uniq[0] += 1
        body = b"probe%04d" % uniq[0]
        import pox.openflow.libopenflow_01 as of
        try:
          r = core.openflow.sendToDPID(d, of.ofp_echo_request(xid=77, body=body))
        except Exception:
          mon.fire("sendToDPID raises", traceback.format_exc()[-400:]); break
        w.run(max_steps=_steps[0])
        rep.count("send_probes")
        tgt = mon.registry.get(d)
        got = []
        for p in mon.peers.values():
          if body in bytes(p.s.rx): got.append(p.idx)
        if tgt is None:
          if got or r:
            mon.fire("sendToDPID delivered to a datapath with no live connection",
                     "dpid %#x reached peers %r" % (d, got))
        elif got != [tgt.idx]:
          mon.fire("sendToDPID did not reach the most recent live connection",
                   "dpid %#x reached peers %r, expected peer %d" %
                   (d, got, tgt.idx))
        mon.after_step("sendToDPID")
        continue
      p = mon.peers.get(op[1])
      if p is None or p.lost: continue
      if k == "lose":
        how = op[2]
        mon.lose(p)
        if how == "eof": p.s.close()
        elif how == "app":
          # the application drops the connection itself (public API); the
          # I/O loop notices the dead socket afterwards
          con = None
          for c in list(core.openflow.connections.values()):
            if mon.peer_of(c) is p: con = c
          if con is None:
            p.s.close()
          else:
            con.disconnect()
            if rep is not None: rep.count("app_disconnects")
        elif how == "reset": p.c.recv_error = 104
        else:
          # the next write by the controller fails fatally; provoke one
          p.c.send_script = ["fatal"]
          p.s.send(ofwire.enc_message("echo_request", dict(xid=3, body=b"x")))
        w.run(max_steps=_steps[0])
        mon.after_step("loss(%s)" % how)
        continue
      # k == "msg"
      kind = op[2]
      raw = None
      if kind == "hello":
        raw = ofwire.enc_message("hello", dict(xid=0)); p.hello = True
      elif kind == "features":
        if p.features is not None:
          # a second features reply, on a connection that is up (an
          # application asked again): nothing about the registry changes -
          # in particular a stale connection does not take the slot back
          if not (p.completed and not p.aborted and p.up == 1): continue
          if mon.registry.get(p.features) is None: continue
          raw = ofwire.enc_message("features_reply", dict(
            xid=77, datapath_id=p.features, n_buffers=0, n_tables=1, capabilities=0,
            actions=0, ports=[ctl.phy_port(1), ctl.phy_port(2)]))
          p.refeatured = True
          # (the port view is reset by it: C17's business, not judged here)
          rep.count("features_replies_on_established_connections")
          if mon.registry.get(p.features) is not p:
            rep.count("features_replies_on_stale_connections")
          p.s.send(raw)
          w.run(max_steps=_steps[0])
          mon.after_step("second features reply from peer %d" % p.idx)
          continue
        d = DPIDS[op[3] % len(DPIDS)]
        raw = ofwire.enc_message("features_reply", dict(
          xid=1, datapath_id=d, n_buffers=0, n_tables=1, capabilities=0,
          actions=0, ports=[ctl.phy_port(1), ctl.phy_port(2)]))
        p.features = d
        if [q for q in mon.peers.values() if q is not p and q.features == d
            and not q.lost]:
          mon.flags.add("nt")
      elif kind == "desc":
        raw = ofwire.enc_message("stats_reply", dict(
          xid=2, type=0, flags=0, body=dict(mfr_desc="m", hw_desc="h",
                                            sw_desc="s", serial_num="1",
                                            dp_desc="d")))
      elif kind in ("barrier_ok", "barrier_err", "barrier_wrong"):
        if p.barrier_xid is None or p.completed or p.aborted: continue
        if kind == "barrier_ok":
          raw = ofwire.enc_message("barrier_reply", dict(xid=p.barrier_xid))
          p.completed = True
        elif kind == "barrier_err":
          raw = ofwire.enc_message("error", dict(
            xid=p.barrier_xid, type=1, code=1, data=b"\x01\x12\0\x08"))
          p.completed = True
          rep.count("barrier_unsupported_path")
        else:
          raw = ofwire.enc_message("barrier_reply",
                                   dict(xid=(p.barrier_xid + 1) & 0xffffffff))
          p.aborted = True
        if p.completed:
          mon.stamp += 1; p.order = mon.stamp
          mon.registry[p.features] = p
          p.ps_expected = list(p.early_ps) + p.ps_expected
      elif kind == "port_status":
        no = op[3]
        # (the reason given with the operation, if any: a port that flaps
        #  sends the very same notification again and again)
        reason = (no + len(p.early_ps) + len(p.ps_expected)) % 3
        if len(op) > 4 and isinstance(op[4], int): reason = op[4]
        raw = ofwire.enc_message("port_status", dict(
          xid=0, reason=reason, desc=ctl.phy_port(no)))
        if p.aborted: pass
        elif p.completed: p.ps_expected.append(no)
        elif p.features is not None:
          p.early_ps.append(no); rep.count("early_port_status")
          mon.flags.add("nt")
      elif kind == "echo":
        raw = ofwire.enc_message("echo_request", dict(xid=9, body=b"e"))
      elif kind == "packet_in":
        raw = ofwire.enc_message("packet_in", dict(
          xid=0, buffer_id=0xffffffff, total_len=14, in_port=1, reason=0,
          data=b"\xff" * 6 + b"\x02\0\0\0\0\x01" + b"\x88\xb5"))
        if not p.completed: mon.flags.add("nt")
      elif kind == "error":
        raw = ofwire.enc_message("error", dict(xid=12345, type=1, code=0,
                                               data=b"zz"))
      elif kind == "error_near":
        # errors that share two of the three things which make an error the
        # "barrier not supported" answer (barrier xid, BAD_REQUEST, BAD_TYPE)
        # but not all three: the handshake goes on waiting
        bx = p.barrier_xid if p.barrier_xid is not None else 12345
        v = op[3] % 3
        x, t, c = [(bx, 1, 0), ((bx + 1) & 0xffffffff, 1, 1), (bx, 2, 1)][v]
        raw = ofwire.enc_message("error", dict(xid=x, type=t, code=c,
                                               data=b"\x01\x10\0\x08"))
        rep.count("errors_resembling_barrier_unsupported")
      if raw is None: continue
      if p.aborted and kind == "barrier_wrong":
        pass
      if split and len(raw) > 9:
        # the message reaches the controller in two reads
        p.c.recv_script = [[3, 8, 9, len(raw) - 1][op_index % 4]]
        rep.count("messages_split_across_reads")
      p.s.send(raw)
      if hold and not p.aborted:
        # the controller does not get to run: the next message of this peer
        # lands in the same read
        held[0] = p
        continue
      if held[0] is p:
        flush()
        continue
      w.run(max_steps=_steps[0])
      if p.aborted:
        # the controller closes this connection; from now on it is gone
        p.lost = True
      mon.after_step("%s from peer %d" % (kind, p.idx))
  except Exception:
    mon.fire("harness-visible exception", traceback.format_exc()[-800:])
  finally:
    # tear down: close everything so the next history starts clean
    try:
      for p in mon.peers.values():
        if not p.lost:
          p.lost = True
          p.s.close()
      w.run(max_steps=_steps[0])
      core.openflow.removeListeners([])  # no-op; listeners removed below
    except Exception:
      pass
    for name, h in (("ConnectionUp", mon.on_up), ("ConnectionDown", mon.on_down),
                    ("PortStatus", mon.on_ps), ("ConnectionUp", mon.halter),
                    ("ConnectionUp", mon.thrower), ("ConnectionDown", mon.thrower2),
                    ("PortStatus", mon.thrower2)):
      if h is None: continue
      try: core.openflow.removeListener(h)
      except Exception: pass
    try:
      leftovers = list(core.openflow.connections.keys())
      for d in leftovers:
        core.openflow._disconnect(d)
    except Exception:
      pass
  return bool(mon.flags)


def run_sendfault (case, rep):
  """
  The controller's write to a switch fails for good (EPIPE/ECONNRESET) while
  the read that provoked it still holds further messages of that switch: the
  connection is lost then and there, whatever the rest of that read says.
  When things have settled its datapath id is not reachable through the
  registry, it was announced down exactly as often as it was announced up
  (at most once), and its socket is closed.
  case: stage = "handshake" | "established", tail = messages behind the echo
  request in the same read.
  """
  w = _world["w"]
  core = w.core
  def fire (key, what):
    rep.violation("C09 " + key, what, case)
  d = DPIDS[case.get("d", 0) % len(DPIDS)]
  ups = []; downs = []
  def on_up (e):
    if e.dpid == d: ups.append(e.connection)
  def on_down (e):
    if e.dpid == d: downs.append(e.connection)
  core.openflow.addListenerByName("ConnectionUp", on_up)
  core.openflow.addListenerByName("ConnectionDown", on_down)
  rep.count("histories")
  rep.count("histories_with_a_fatal_write_in_mid_read")
  c = sw_side = None
  try:
    c, sw_side = w.connect_switch_socket("sf")
    w.run(max_steps=_steps[0])
    def wrote ():
      b = bytes(sw_side.rx); sw_side.rx.clear()
      return ofwire.dec_stream(b)
    feat = ofwire.enc_message("features_reply", dict(
      xid=1, datapath_id=d, n_buffers=0, n_tables=1, capabilities=0,
      actions=0, ports=[ctl.phy_port(1), ctl.phy_port(2)]))
    sw_side.send(ofwire.enc_message("hello", dict(xid=0))); w.run(max_steps=_steps[0])
    sw_side.send(feat); w.run(max_steps=_steps[0])
    bx = [m["xid"] for m in wrote() if m["name"] == "barrier_request"]
    if not bx:
      fire("handshake stalled: no barrier request after hello and the features reply",
           "send-fault scenario"); return
    barrier = ofwire.enc_message("barrier_reply", dict(xid=bx[-1]))
    if case["stage"] == "established":
      sw_side.send(barrier); w.run(max_steps=_steps[0])
      if len(ups) != 1:
        fire("ConnectionUp not raised after features and barrier replies",
             "send-fault scenario (up=%d)" % len(ups)); return
    # from now on every write to this switch fails
    c.send_script = ["fatal"]
    blob = ofwire.enc_message("echo_request", dict(xid=5, body=b"x"))
    for t in case["tail"]:
      if t == "barrier": blob += barrier
      elif t == "features":
        blob += ofwire.enc_message("features_reply", dict(
          xid=77, datapath_id=d, n_buffers=0, n_tables=1, capabilities=0,
          actions=0, ports=[ctl.phy_port(1), ctl.phy_port(2)]))
      elif t == "port_status":
        blob += ofwire.enc_message("port_status", dict(xid=0, reason=2,
                                                       desc=ctl.phy_port(2)))
      elif t == "echo":
        blob += ofwire.enc_message("echo_request", dict(xid=6, body=b"y"))
    sw_side.send(blob)
    w.run(max_steps=_steps[0])
    w.advance(1.0)
    # the switch notices in the end, too
    sw_side.close(); w.run(max_steps=_steps[0])
    rep.count("registry_checks")
    con = core.openflow.getConnection(d)
    if con is not None or d in core.openflow.connections:
      fire("registry lists a datapath whose only connection failed and was closed",
           "stage %s, read held an echo request and %r; connection %r" %
           (case["stage"], case["tail"], con))
    if len(ups) > 1:
      fire("ConnectionUp raised twice for one connection", "send-fault scenario")
    if not ups and downs: rep.count("down_without_up_not_judged")
    if ups and len(downs) != 1:
      fire("ConnectionDown not raised exactly once for a lost, announced connection",
           "send-fault scenario: up=%d down=%d" % (len(ups), len(downs)))
    if not c.closed:
      fire("socket of a connection whose write failed is left open", case["stage"])
  except Exception:
    fire("harness-visible exception", traceback.format_exc()[-800:])
  finally:
    for h in (on_up, on_down):
      try: core.openflow.removeListener(h)
      except Exception: pass
    try:
      if sw_side is not None and not sw_side.closed: sw_side.close()
      w.run(max_steps=_steps[0])
      for dd in list(core.openflow.connections.keys()): core.openflow._disconnect(dd)
    except Exception:
      pass


def gen_sendfault ():
  tails = [[], ["barrier"], ["features"], ["port_status"], ["echo"],
           ["barrier", "port_status"], ["port_status", "barrier"],
           ["features", "echo"], ["echo", "barrier", "echo"]]
  for stage in ("handshake", "established"):
    for tail in tails:
      for d in (0, 1):
        yield dict(kind="sendfault", stage=stage, tail=tail, d=d)


_world = {}
# (scheduler cycles the driver allows before it looks: a read takes 2048
#  octets, so megabytes of coalesced messages need more than the default)
_steps = [2000]


def ensure_world ():
  if "w" not in _world:
    w = simnet.World()
    hook_connections()
    w.start_openflow()
    _world["w"] = w
  return _world["w"]


def do_case (case, rep):
  ensure_world()
  if case.get("kind") == "sendfault":
    try:
      run_sendfault(case, rep)
    except Exception:
      rep.violation("C09 harness-visible exception", traceback.format_exc()[-900:], case)
    rep.case(repr(sorted(case.items())).encode(), nontrivial=True)
    return
  try:
    nt = run_history(case, rep)
  except Exception:
    rep.violation("C09 harness-visible exception",
                  traceback.format_exc()[-900:], case)
    nt = True
  rep.case(repr((case["ops"], case.get("reclose"), case.get("nexus_cfg"),
                 case.get("halt_up"), case.get("up_listener"))).encode(),
           nontrivial=bool(nt))


def gen_single (shard, nshards):
  """One connection: all interleavings of the handshake replies with two
  asynchronous messages, completed by the right barrier answer."""
  hs = [("hello",), ("features", 0), ("desc",)]
  asyncs = [("port_status", 1), ("port_status", 2), ("echo",), ("packet_in",),
            ("error",), ("barrier_wrong",), ("error_near", 0), ("error_near", 2),
            # (the same notification twice: a port that flaps)
            ("port_status", 1, 0), ("port_status", 1, 0, "again"),
            # (the switch's own LOCAL port, which Open vSwitch reports on at
            #  every connect, and the highest physical port number)
            ("port_status", 0xfffe), ("port_status", 0xfeff, 2)]
  i = 0
  for a1, a2 in itertools.combinations(asyncs, 2):
    items = hs + [a1, a2]
    for perm in itertools.permutations(items):
      # hello first is not required by the code; keep all orders
      for fin in ("barrier_ok", "barrier_err"):
        i += 1
        if i % nshards != shard: continue
        ops = [["connect", 0]]
        ops += [["msg", 0] + list(x) for x in perm]
        ops.append(["msg", 0, fin])
        hv = (i // 2) % 3
        if hv:
          # the handshake-completing reply shares a read with what follows it
          # (hv 2: also with the asynchronous messages just before it)
          ops[-1] = ops[-1] + ["hold"]
          if hv == 2:
            j = len(ops) - 2
            while j > 0 and ops[j][2] in ("port_status", "echo", "packet_in", "error"):
              ops[j] = ops[j] + ["hold"]; j -= 1
        ops += [["msg", 0, "port_status", 3], ["send", 0],
                ["lose", 0, ("eof", "reset", "fatal", "app")[i % 4]], ["send", 0]]
        yield dict(ops=ops)


def gen_multi (rng, n, maxlen):
  for _ in range(n):
    ops = []
    for _ in range(rng.randrange(4, maxlen)):
      r = rng.random()
      i = rng.randrange(3)
      if r < 0.15: ops.append(["connect", i])
      elif r < 0.30: ops.append(["msg", i, "features", rng.randrange(3)])
      elif r < 0.40: ops.append(["msg", i, "hello"])
      elif r < 0.58:
        ops.append(["msg", i, rng.choice(["barrier_ok", "barrier_ok",
                                          "barrier_err", "barrier_wrong"])])
      elif r < 0.68:
        ops.append(["msg", i, "port_status", rng.choice([1, 2, 3, 1, 2, 3, 0xfffe, 0xfeff, 0xff00])])
        if rng.random() < 0.5: ops[-1].append(rng.choice([0, 0, 1, 2]))
      elif r < 0.75:
        k = rng.choice(["echo", "packet_in", "error", "desc", "error_near"])
        ops.append(["msg", i, k] + ([rng.randrange(3)] if k == "error_near" else []))
      elif r < 0.87:
        ops.append(["lose", i, rng.choice(["eof", "reset", "fatal", "app"])])
      else:
        ops.append(["send", rng.randrange(2)])
    if rng.random() < 0.5:
      for o in ops:
        if o[0] == "msg" and o[2] != "features" and rng.random() < 0.4: o.append("hold")
    elif rng.random() < 0.5:
      for o in ops:
        if o[0] == "msg" and rng.random() < 0.4: o.append("split")
    yield dict(ops=ops)


def gen_reconnect (rng, n):
  """A datapath reconnects and completes before its stale connection closes."""
  for _ in range(n):
    d = rng.randrange(2)
    if rng.random() < 0.25:
      # two connections of one datapath, the one accepted *first* finishes its
      # handshake *last* (so it is the most recent live one); then the other
      # closes - and later the first
      a, b = (0, 1) if rng.random() < 0.5 else (1, 0)
      ops = [["connect", 0], ["connect", 1],
             ["msg", b, "hello"], ["msg", a, "hello"],
             ["msg", b, "features", d], ["msg", b, "barrier_ok"], ["send", d],
             ["msg", a, "features", d], ["msg", a, rng.choice(["barrier_ok", "barrier_err"])],
             ["send", d], ["lose", b, rng.choice(["eof", "reset", "fatal", "app"])],
             ["send", d], ["msg", a, "port_status", 2], ["send", d],
             ["lose", a, rng.choice(["eof", "app"])], ["send", d]]
      yield dict(ops=ops)
      continue
    ops = [["connect", 0], ["msg", 0, "hello"], ["msg", 0, "features", d],
           ["msg", 0, "barrier_ok"], ["send", d],
           ["connect", 1], ["msg", 1, "hello"], ["msg", 1, "features", d]]
    if rng.random() < 0.5: ops.append(["send", d])
    ops += [["msg", 1, rng.choice(["barrier_ok", "barrier_err"])], ["send", d]]
    if rng.random() < 0.4:
      ops += [["msg", 0, "features", d], ["send", d]]
    tail = [["lose", 0, rng.choice(["eof", "reset", "fatal", "app"])], ["send", d],
            ["msg", 1, "port_status", 2], ["send", d],
            ["lose", 1, rng.choice(["eof", "reset"])], ["send", d]]
    if rng.random() < 0.3:
      tail.insert(2, ["connect", 2]); tail.insert(3, ["msg", 2, "features", 1 - d])
      tail.insert(4, ["msg", 2, "barrier_ok"])
    if rng.random() < 0.4:
      for o in ops + tail:
        if o[0] == "msg" and o[2] in ("barrier_ok", "barrier_err"): o.append("hold")
    yield dict(ops=ops + tail)


def gen_mass (sizes):
  """A switch with many ports that reports each of them (down, up, ...)
  while its handshake is still going on: all of these notifications are owed
  after connection-up, in order - however many they are."""
  for n in sizes:
    for hold in (False, True):
      ops = [["connect", 0], ["msg", 0, "hello"], ["msg", 0, "features", 0]]
      for i in range(n):
        ops.append(["msg", 0, "port_status", 1 + i % 4, (i // 4) % 3] + (["hold"] if hold else []))
      ops += [["msg", 0, ("barrier_ok", "barrier_err")[n % 2]], ["send", 0],
              ["msg", 0, "port_status", 2], ["lose", 0, "eof"], ["send", 0]]
      yield dict(ops=ops, mass=n)


def plan (tier, seed):
  if tier == "quick":
    return ([dict(mode="single", shard=i, nshards=64) for i in range(6)] +
            [dict(mode="mass", sizes=[17, 33, 65, 129, 300]),
             dict(mode="mass", sizes=[1025, 2100]), dict(mode="mass", sizes=[4200])] +
            [dict(mode="multi", n=1500, maxlen=25, sub=i) for i in range(6)] +
            [dict(mode="reconnect", n=400, sub=i) for i in range(4)])
  return ([dict(mode="single", shard=i, nshards=16) for i in range(16)] +
          [dict(mode="mass", sizes=list(range(10 + i, 600, 16))) for i in range(16)] +
          [dict(mode="mass", sizes=[1000 + i, 4090 + i, 8190 + i]) for i in range(8)] +
          [dict(mode="mass", sizes=[16380 + i]) for i in range(4)] +
          [dict(mode="mass", sizes=[32766 + i]) for i in range(4)] +
          [dict(mode="mass", sizes=[65530 + 5 * i]) for i in range(4)] +
          [dict(mode="multi", n=60000, maxlen=40, sub=i) for i in range(32)] +
          [dict(mode="reconnect", n=40000, sub=i) for i in range(16)])


def run (spec, rep):
  rng = random.Random("c09/%d/%s/%d" % (spec["seed"], spec["mode"],
                                         spec.get("sub", spec.get("shard", 0))))
  if spec["mode"] == "single":
    g = gen_single(spec["shard"], spec["nshards"])
    if spec["shard"] == 0:
      import itertools
      g = itertools.chain(gen_sendfault(), g)
  elif spec["mode"] == "mass": g = gen_mass(spec["sizes"])
  elif spec["mode"] == "multi": g = gen_multi(rng, spec["n"], spec["maxlen"])
  else: g = gen_reconnect(rng, spec["n"])
  first = True
  n = 0
  for case in g:
    n += 1
    if n % 5 == 2: case["halt_up"] = True
    elif n % 5 == 4: case["up_listener"] = ("throws", "absent")[(n // 5) % 2]
    if n % 4 == 1:
      case["nexus_cfg"] = [(None, False), (None, True), (0xffff, False), (0, True)][(n // 4) % 4]
    if n % 3 == 0:
      case["reclose"] = [("nexus", "msg"), ("con", "msg"), ("nexus", "disconnect"),
                         ("con", "disconnect")][(n // 3) % 4]
    _steps[0] = 2000 + 3 * (case.get("mass") or 0)
    if case.get("mass"):
      rep.count("handshakes_with_very_many_early_port_status")
      rep.maxi("early_port_status_in_one_handshake", case["mass"])
    do_case(case, rep)
    if first and not case.get("mass"): rep.sample(case); first = False


def replay (witness, rep):
  _steps[0] = 2000 + 3 * (witness.get("mass") or 0)
  do_case(witness, rep)
