"""
C15 - parsing untrusted frames never fails.

Every truncation, single-byte corruption and structure-aware mutation of a
hand-built corpus of valid frames covering all parsers (plus random frames)
is parsed by pox.lib.packet.ethernet; the monitor watches for exceptions,
follows the layer chain, checks that the unparsed remainder is raw bytes
taken from the input, and prints / dumps / re-serialises the result.  A
step budget on every function of the packet library turns endless option /
TLV loops into violations.
"""
import random
import struct
import sys
import traceback
import types

from pvm import budget
from pvm.gen import corpus

ID = "C15"
LEVEL = "fault_enumeration"
RULE = ("a case is a byte string offered as an Ethernet frame: each corpus "
        "frame itself, every truncation length, single-byte corruptions "
        "(every position x {0x00, 0xff, each single-bit flip}; x all 256 "
        "values in the thorough tier), structure-aware mutations of length / "
        "offset / count fields, and random bytes behind plausible headers; "
        "non-trivial = the frame differs from every corpus frame; distinct = "
        "distinct bytes")
ASSUMPTIONS = ["known findings are keyed by (phase, exception type, raising "
               "function inside pox.lib.packet); a different exception or "
               "place is reported as new",
               "step budget: 3000 + 150 * len(frame) executed lines in "
               "pox.lib.packet per parse+print+pack"]
REQUIRED = ["frames", "shards_run_with_assertions_stripped", "unparsed_layers_compared_with_their_region", "parsed_ok", "truncations", "corruptions", "structured",
            "random_frames", "chains_walked", "reserialised", "printed",
            "budget_armed", "packet_in_events", "packet_in_events_with_a_cut_frame", "checksum_fixed_mutants", "igmp_checksum_fixed_mutants", "template_base_frames",
            "deeply_nested_frames", "frames_handled_with_debug_logging_on",
            "library_log_records_formatted"]
TIMEOUT = {"quick": 1200, "thorough": 10800}

_st = {}


def packet_functions ():
  """All python functions defined in pox.lib.packet.* (for the budget)."""
  import pox.lib.packet as pkt
  mods = [m for n, m in sys.modules.items()
          if n.startswith("pox.lib.packet") and m is not None]
  fs = []
  seen = set()
  def add (f):
    c = getattr(f, "__code__", None)
    if c is not None and id(c) not in seen and "pox/lib/packet" in c.co_filename:
      seen.add(id(c)); fs.append(f)
  for m in mods:
    for v in list(vars(m).values()):
      if isinstance(v, types.FunctionType): add(v)
      elif isinstance(v, type):
        for w in list(vars(v).values()):
          if isinstance(w, types.FunctionType): add(w)
          elif isinstance(w, (staticmethod, classmethod)): add(w.__func__)
          elif isinstance(w, property):
            for g in (w.fget, w.fset):
              if g is not None: add(g)
  return fs


def where (e):
  """Innermost frame inside pox/lib/packet of the exception's traceback."""
  tb = traceback.extract_tb(e.__traceback__)
  loc = None
  for fr in tb:
    if "pox/lib/packet" in fr.filename or "pox/lib/addresses" in fr.filename:
      loc = "%s.%s" % (fr.filename.rsplit("/", 1)[-1][:-3], fr.name)
  if loc is None and tb:
    loc = "%s.%s" % (tb[-1].filename.rsplit("/", 1)[-1][:-3], tb[-1].name)
  return loc


def check_frame (raw, rep, case):
  import pox.lib.packet as pkt
  from pox.lib.packet.packet_base import packet_base
  bud = _st.get("budget")
  if bud is None:
    bud = budget.Budget(packet_functions())
    _st["budget"] = bud
  def fire (key, what):
    rep.violation("C15 " + key, what, case)
  rep.count("frames")
  bud.arm(3000 + 150 * len(raw)); rep.count("budget_armed")
  try:
    try:
      p = pkt.ethernet(raw=raw)
    except budget.BudgetExceeded:
      fire("parse does not terminate in %s" % bud.where, raw.hex()[:200]); return
    except Exception as e:
      if bud.tripped:
        fire("parse does not terminate in %s" % bud.where, raw.hex()[:200]); return
      fire("parse raises %s in %s" % (type(e).__name__, where(e)),
           "%r on %s" % (e, raw.hex()[:160]))
      return
    if bud.tripped:
      fire("parse does not terminate in %s" % bud.where, raw.hex()[:200]); return
    rep.count("parsed_ok")
    # the same frame inside a packet-in event, as a handler would see it
    if (len(raw) + raw[-1] if raw else 0) % 8 == 0:
      try:
        import pox.openflow as pof
        import pox.openflow.libopenflow_01 as of
        class _Con (object): dpid = 1
        ev = pof.PacketIn(_Con(), of.ofp_packet_in(data=raw, in_port=1))
        pp = ev.parsed
        _ = pp.find("ipv4"); _ = str(pp)
        rep.count("packet_in_events")
        # ... and as the switch sends it when it kept the frame in a buffer:
        # only the first octets travel (the miss length may be anything from
        # 0 up), the total length says how long the frame was
        for k in (0, 1, 13, 14, (len(raw) * 7) // 10):
          if k >= len(raw): continue
          ev = pof.PacketIn(_Con(), of.ofp_packet_in(data=raw[:k], in_port=1, buffer_id=7,
                                                     total_len=len(raw)))
          pp = ev.parsed
          if pp is not None: _ = pp.find("ipv4"); _ = str(pp)
          rep.count("packet_in_events_with_a_cut_frame")
      except Exception as e:
        fire("packet-in event .parsed raises %s in %s" %
             (type(e).__name__, where(e)), repr(e)); return
    # chain
    q = p
    n = 0
    unparsed_seen = None
    names = []
    while q is not None and isinstance(q, packet_base):
      names.append(type(q).__name__)
      if unparsed_seen is not None and q.parsed:
        fire("a parsed layer follows an unparsed one",
             "%s (unparsed) -> %s" % (unparsed_seen, type(q).__name__)); return
      if not q.parsed and unparsed_seen is None:
        unparsed_seen = type(q).__name__
      q = q.next
      n += 1
      if n > 64 + len(raw) // 2:
        # (every real layer consumes at least a couple of bytes of the frame)
        fire("layer chain does not end", ">%d layers: %r" % (n, names[:10])); return
    rep.count("chains_walked")
    if q is not None and not isinstance(q, (bytes, bytearray)):
      fire("chain ends in %s instead of raw bytes" % type(q).__name__,
           ">".join(names)); return
    if q is not None and len(q) and bytes(q) not in raw:
      fire("unparsed remainder is not taken from the input [%s]" % names[-1],
           "remainder %s" % bytes(q)[:40].hex()); return
    # "keeps the unparsed remainder": (a) the first layer that is not parsed
    # holds the bytes it was given, taken from the input, and serialises to
    # exactly those; (b) a parsed header that had bytes behind it has a
    # payload - those bytes did not just vanish
    layers = []
    x = p
    while isinstance(x, packet_base) and len(layers) < 4096:
      layers.append(x); x = x.next
    for li, L in enumerate(layers):
      if L.parsed: continue
      rep.count("unparsed_layers_checked")
      # where its parent says its payload lies, that is what it must hold
      par = layers[li - 1] if li else None
      region = None
      try:
        if par is not None and isinstance(par.raw, (bytes, bytearray)):
          pn = type(par).__name__
          if pn == "ipv4": region = par.raw[par.hl * 4:min(len(par.raw), par.iplen)]
          elif pn == "udp": region = par.raw[8:]
          elif pn == "ethernet" and par.type != 0x8100 and par.type >= 0x600: region = par.raw[14:]
          elif pn == "ipv6" and not getattr(par, "extension_headers", None):
            region = par.raw[40:40 + par.payload_length]
      except Exception:
        region = None
      if region is not None and len(region):
        rep.count("unparsed_layers_compared_with_their_region")
        if L.raw is None or bytes(L.raw) != bytes(region):
          fire("an unparsed layer does not hold the bytes its parent gave it [%s under %s]" %
               (type(L).__name__, type(par).__name__),
               "holds %d bytes, the region has %d" %
               (len(L.raw) if L.raw is not None else -1, len(region))); return
      if L.raw is not None:
        if not isinstance(L.raw, (bytes, bytearray)) or (len(L.raw) and bytes(L.raw) not in raw):
          fire("an unparsed layer does not hold bytes of the input [%s]" % type(L).__name__,
               repr(L.raw)[:80]); return
      break
    last = layers[-1] if layers else None
    if last is not None and last.parsed and last.next is None and \
       isinstance(last.raw, (bytes, bytearray)):
      tn = type(last).__name__
      had = None
      try:
        if tn == "udp": had = len(last.raw) - 8
        elif tn == "tcp" and isinstance(getattr(last, "hdr_len", None), int): had = len(last.raw) - last.hdr_len
        elif tn == "ipv4": had = min(len(last.raw), last.iplen) - last.hl * 4
        elif tn == "ethernet": had = len(last.raw) - 14
        elif tn in ("vlan", "mpls"): had = len(last.raw) - 4
      except Exception:
        had = None
      if had is not None:
        rep.count("payload_presence_checked")
        if had > 0:
          fire("a parsed %s header lost the bytes behind it" % tn,
               "%d bytes followed the header in the input; the parsed layer "
               "has no payload (layers %s)" % (had, ">".join(names)))
          return
    # print / dump / re-serialise (and once more: handlers log, then forward)
    first_pack = []
    for what, f in (("str", lambda: str(p)), ("dump", lambda: p.dump()),
                    ("pack", lambda: p.pack()), ("str", lambda: str(p)),
                    ("pack", lambda: p.pack())):
      try:
        # (each operation gets its own budget)
        bud.disarm(); bud.arm(3000 + 150 * len(raw))
        r = f()
      except budget.BudgetExceeded:
        fire("%s does not terminate in %s" % (what, bud.where), raw.hex()[:200])
        return
      except Exception as e:
        if bud.tripped:
          fire("%s does not terminate in %s" % (what, bud.where),
               raw.hex()[:200]); return
        fire("%s raises %s in %s" % (what, type(e).__name__, where(e)),
             "%r; layers %s; frame %s" % (e, ">".join(names), raw.hex()[:160]))
        return
      if what == "pack":
        rep.count("reserialised")
        if not isinstance(r, bytes):
          fire("pack returns %s" % type(r).__name__, ">".join(names)); return
        if first_pack and r != first_pack[0]:
          fire("serialising the same parse result twice gives different bytes",
               "layers %s" % ">".join(names)); return
        first_pack.append(r)
      else:
        rep.count("printed")
  finally:
    bud.disarm()


class _Sink (object):
  """A log handler that formats every record (as a console or file handler
  would) and throws the text away."""
  def __init__ (self):
    import logging
    class H (logging.Handler):
      def emit (self_, record):
        self.n += 1
        self_.format(record)
      def handleError (self_, record):
        # (logging's default is to print and carry on; an exception while
        #  formatting a library log message is counted and shown instead)
        self.errors.append(traceback.format_exc()[-400:])
    self.n = 0
    self.errors = []
    self.h = H()
    self.h.setFormatter(logging.Formatter("%(name)s %(levelname)s %(message)s"))


def _verbose (on):
  """What `pox.py --verbose` / `log.level --DEBUG` do to the packet library's
  logger: with it on, the library's debug messages are built and formatted."""
  import logging
  lg = logging.getLogger("packet")
  if "sink" not in _st:
    _st["sink"] = _Sink()
    lg.addHandler(_st["sink"].h)
    lg.propagate = False
  lg.setLevel(logging.DEBUG if on else logging.CRITICAL + 10)
  return _st["sink"]


def do_case (case, rep):
  raw = case["frame"]
  # (every other shard runs with the library's debug logging switched on: what
  #  a frame does to the process must not depend on the log level)
  if "verbose" not in case: case["verbose"] = bool(_st.get("verbose"))
  sink = _verbose(case["verbose"])
  n0 = sink.n
  try:
    check_frame(raw, rep, case)
    if case["verbose"]:
      rep.count("frames_handled_with_debug_logging_on")
      rep.count("library_log_records_formatted", sink.n - n0)
      if sink.errors:
        e = sink.errors[:]; del sink.errors[:]
        rep.violation("C15 a log message of the packet library cannot be formatted",
                      e[0], case)
  except Exception:
    rep.violation("C15 harness-visible exception",
                  traceback.format_exc()[-900:], case)
  rep.case(bytes(raw), nontrivial=case.get("mut", "none") != "none")


# --------------------------------------------------------------------------

def mutations (name, raw, rng, tier):
  quick = tier == "quick"
  yield "none", raw
  for k in range(0, len(raw)):
    yield "trunc", raw[:k]
  yield "extend", raw + b"\0" * 7
  positions = range(len(raw))
  if quick and len(raw) > 120:
    positions = sorted(set(list(range(0, 70)) +
                           [rng.randrange(70, len(raw)) for _ in range(40)]))
  for p in positions:
    vals = set([0, 0xff] + [raw[p] ^ (1 << i) for i in range(8)])
    if not quick: vals = set(range(256))
    elif p >= 60: vals = set([0, 0xff, raw[p] ^ 1, raw[p] ^ 0x80])
    for v in sorted(vals):
      if v == raw[p]: continue
      yield "byte", raw[:p] + bytes([v]) + raw[p + 1:]
  # structure-aware: every 16-bit aligned field set to length-ish values
  for p in range(12, min(len(raw) - 1, 120), 2 if not quick else 2):
    for v in (0, 1, len(raw) - p, len(raw) - p + 1, len(raw) - p - 1, 0xffff,
              0x8000, 4, 8):
      b = struct.pack("!H", v & 0xffff)
      if raw[p:p + 2] == b: continue
      yield "struct", raw[:p] + b + raw[p + 2:]
  # and every byte set to TLV/option-loop poison values, two adjacent bytes
  for p in range(14, min(len(raw) - 1, 200)):
    for pair in ((0, 0), (0xff, 0), (1, 0), (0xc0, p & 0xff), (0xc0, 0x0c)):
      if quick and (p % 3): continue
      yield "struct", raw[:p] + bytes(pair) + raw[p + 2:]


def icmp6_fixups (raw, rng, tier):
  """
  POX looks inside an ICMPv6 message only when its checksum is right, so a
  plain byte corruption never reaches the code behind that gate.  For frames
  that are Ethernet / IPv6 / ICMPv6 (no extension headers): corrupt one byte
  of the ICMPv6 body, or cut the message short, and put the right checksum
  (and IPv6 payload length) back.
  """
  if len(raw) < 58 or raw[12:14] != b"\x86\xdd" or raw[20] != 58: return
  from pvm.ref import inet
  src = raw[22:38]; dst = raw[38:54]
  msg = raw[54:]
  def rebuild (m):
    m = m[:2] + b"\0\0" + m[4:]
    c = inet.l4_csum6(src, dst, 58, m)
    m = m[:2] + struct.pack("!H", c) + m[4:]
    return raw[:18] + struct.pack("!H", len(m)) + raw[20:54] + m
  for k in range(4, len(msg)):
    yield "fixup", rebuild(msg[:k])
  quick = tier == "quick"
  for p in range(0, len(msg)):
    if p in (2, 3): continue
    vals = set([0, 0xff, msg[p] ^ 1, msg[p] ^ 0x80, (msg[p] + 1) & 0xff, 14, 24, 25])
    if not quick: vals = set(range(256))
    for v in sorted(vals):
      if v == msg[p]: continue
      yield "fixup", rebuild(msg[:p] + bytes([v]) + msg[p + 1:])


def igmp_fixups (raw, rng, tier):
  """
  The same for IGMP (Ethernet / IPv4 without options / protocol 2): POX looks
  into the message only when its checksum is right.  One byte of the message
  corrupted, or the message cut short, with the IGMP checksum, the IPv4 total
  length and the IPv4 header checksum put right again.
  """
  if len(raw) < 42 or raw[12:14] != b"\x08\x00" or raw[14] != 0x45 or raw[23] != 2: return
  from pvm.ref import inet
  msg = raw[34:]
  def rebuild (m):
    if len(m) >= 4:
      m = m[:2] + b"\0\0" + m[4:]
      m = m[:2] + struct.pack("!H", inet.csum(m)) + m[4:]
    h = raw[14:16] + struct.pack("!H", 20 + len(m)) + raw[18:24] + b"\0\0" + raw[26:34]
    h = h[:10] + struct.pack("!H", inet.csum(h)) + h[12:]
    return raw[:14] + h + m
  for k in range(1, len(msg)):
    yield "fixup", rebuild(msg[:k])
  quick = tier == "quick"
  for p in range(0, min(len(msg), 300)):
    if p in (2, 3): continue
    vals = set([0, 0xff, msg[p] ^ 1, msg[p] ^ 0x80, (msg[p] + 1) & 0xff, 0x40, 0x11, 0x22])
    if not quick: vals = set(range(256))
    for v in sorted(vals):
      if v == msg[p]: continue
      yield "fixup", rebuild(msg[:p] + bytes([v]) + msg[p + 1:])
  yield "fixup", rebuild(msg + b"\0" * 4)
  yield "fixup", rebuild(msg + b"\xff" * 7)


def deep_frames ():
  """
  Frames that nest one header type very deeply (jumbo-sized): a parser or
  serialiser that recurses once per layer meets the interpreter's recursion
  limit here, and a handler must still not see an exception.
  """
  from pvm.ref import frames as F
  M1 = bytes.fromhex("020000000001"); M2 = bytes.fromhex("020000000002")
  for n in (40, 300, 400, 990, 1100, 2000, 5000):
    labels = b"".join(struct.pack("!L", ((16 + i % 1000) << 12) | 64) for i in range(n))
    yield "mpls_x%d" % n, F.eth(M2, M1, 0x8847, labels + struct.pack("!L", (99 << 12) | 0x100 | 64) + b"tail")
    yield "mpls_open_x%d" % n, F.eth(M2, M1, 0x8847, labels)
    tags = b"".join(struct.pack("!HH", 1 + i % 4000, 0x8100) for i in range(n))
    yield "vlan_x%d" % n, M2 + M1 + b"\x81\x00" + tags + struct.pack("!HH", 5, 0x88b5) + b"tail"
  # GRE-in-IP-in-GRE...
  for n in (10, 100, 400, 1200):
    inner = b"innermost"
    for i in range(n):
      g = struct.pack("!HH", 0, 0x0800) + inner
      if 20 + len(g) > 65000: break
      inner = F.ipv4(0x0a000001, 0x0a000002, 47, g)
    yield "gre_ip_x%d" % n, F.eth(M2, M1, 0x0800, inner)
  # ICMP errors quoting ICMP errors
  for n in (10, 200, 1200):
    inner = F.ipv4(0x0a000001, 0x0a000002, 17, F.udp(1, 2, b"x", src=0x0a000001, dst=0x0a000002))
    for i in range(n):
      if len(inner) > 64000: break
      inner = F.ipv4(0x0a000002, 0x0a000001, 1, F.icmp(3, 1, b"\0\0\0\0", inner))
    yield "icmp_quote_x%d" % n, F.eth(M2, M1, 0x0800, inner)


  # tunnels in tunnels: VXLAN in UDP in IP in Ethernet in VXLAN ... (a layer
  # whose header is computed from its payload must not serialise that payload
  # once more per level), and Ethernet in GRE in IP
  for n in (8, 16, 30, 300):
    inner = F.eth(M2, M1, 0x88b5, b"innermost")
    for i in range(n):
      if len(inner) > 60000: break
      u = F.udp(40000 + i % 100, 4789, struct.pack("!LL", 0x08000000, 77 << 8) + inner,
                src=0x0a000001, dst=0x0a000002)
      inner = F.eth(M2, M1, 0x0800, F.ipv4(0x0a000001, 0x0a000002, 17, u))
    yield "vxlan_x%d" % n, inner
  for n in (8, 30, 300):
    inner = F.eth(M2, M1, 0x88b5, b"innermost")
    for i in range(n):
      if len(inner) > 60000: break
      inner = F.eth(M2, M1, 0x0800, F.ipv4(0x0a000001, 0x0a000002, 47,
                                           struct.pack("!HH", 0, 0x6558) + inner))
    yield "gre_eth_x%d" % n, inner
  for n in (8, 30, 200):
    # the same with the GRE checksum present (computed over the payload)
    inner = F.eth(M2, M1, 0x88b5, b"innermost")
    for i in range(n):
      if len(inner) > 60000: break
      from pvm.ref import inet
      g = struct.pack("!HHHH", 0x8000, 0x6558, 0, 0) + inner
      g = g[:4] + struct.pack("!H", inet.csum(g)) + g[6:]
      inner = F.eth(M2, M1, 0x0800, F.ipv4(0x0a000001, 0x0a000002, 47, g))
    yield "gre_csum_eth_x%d" % n, inner


def random_frames (rng, n):
  types_ = [0x0800, 0x0806, 0x86dd, 0x8100, 0x88cc, 0x888e, 0x8847, 0x8035,
            0x0026, 0x05dc]
  for _ in range(n):
    l = rng.choice([0, 1, 13, 14, 15, 20, 34, 40, 60, 100, 200])
    b = bytes(rng.getrandbits(8) for _ in range(l))
    if l >= 14 and rng.random() < 0.85:
      b = b[:12] + struct.pack("!H", rng.choice(types_)) + b[14:]
      if rng.random() < 0.5 and l >= 34:
        # plausible IPv4 header start
        b = b[:14] + bytes([0x45 + rng.choice([0, 0, 1, 10])]) + b[15:23] + \
            bytes([rng.choice([1, 2, 6, 17, 47, 89])]) + b[24:]
    yield "random", b


def plan (tier, seed):
  n = len(corpus.build())
  if tier == "quick":
    # (every corpus frame's mutants twice: as is, and with assertions
    #  stripped - a parser that guards itself with `assert` is unguarded
    #  under `python -O`)
    return [dict(base=i, rand=400, no_asserts=False) for i in range(n)] + \
        [dict(base=i, rand=100, no_asserts=True, shard=i + 1) for i in range(n)] + \
        [dict(base=-1, rand=0)] + \
        [dict(base=-2, rand=200, sub=i, per=1) for i in range(6)]
  return [dict(base=i, rand=250000, no_asserts=False) for i in range(n)] + \
      [dict(base=i, rand=60000, no_asserts=True, shard=i + 1) for i in range(n)] + \
      [dict(base=-1, rand=0)] + \
      [dict(base=-2, rand=20000, sub=i, per=8) for i in range(24)]


def run (spec, rep):
  _st["verbose"] = bool(spec.get("shard", 0) % 2)
  if spec["base"] == -1:
    for name, b in deep_frames():
      rep.count("deeply_nested_frames")
      do_case(dict(frame=b, base=name, mut="deep"), rep)
      if len(b) < 5000:
        for k in (len(b) - 1, len(b) - 3, len(b) // 2):
          do_case(dict(frame=b[:k], base=name, mut="deep-trunc"), rep)
    return
  if spec["base"] == -2:
    # frames drawn from the corpus templates (other TLV types, option
    # lengths, list lengths than the fixed corpus frames have) as bases
    trng = random.Random("c15/template/%d/%d" % (spec["seed"], spec["sub"]))
    for _ in range(spec["per"]):
      for t in corpus.TEMPLATES:
        fam, raw = t(trng)
        rep.count("template_base_frames")
        rng = random.Random("c15/%d/%s/%d" % (spec["seed"], fam, trng.getrandbits(30)))
        for mut, b in mutations("t:" + fam, raw, rng, spec["tier"]):
          rep.count({"trunc": "truncations", "byte": "corruptions",
                     "struct": "structured"}.get(mut, "other"))
          do_case(dict(frame=b, base="t:" + fam, mut=mut), rep)
        for fix in (icmp6_fixups, igmp_fixups):
          for mut, b in fix(raw, rng, spec["tier"]):
            rep.count("checksum_fixed_mutants" if fix is icmp6_fixups
                      else "igmp_checksum_fixed_mutants")
            do_case(dict(frame=b, base="t:" + fam, mut=mut), rep)
    # ... and many more draws as they are (a valid frame of an unusual shape
    # is hostile enough for a serialiser that only knows the usual one)
    for _ in range(300 if spec["tier"] == "quick" else 20000):
      for t in corpus.TEMPLATES:
        fam, raw = t(trng)
        rep.count("template_frames_as_they_are")
        do_case(dict(frame=raw, base="t:" + fam, mut="template"), rep)
    return
  C = corpus.build()
  name, raw = C[spec["base"]]
  rng = random.Random("c15/%d/%s" % (spec["seed"], name))
  first = True
  for mut, b in mutations(name, raw, rng, spec["tier"]):
    rep.count({"trunc": "truncations", "byte": "corruptions",
               "struct": "structured"}.get(mut, "other"))
    case = dict(frame=b, base=name, mut=mut)
    do_case(case, rep)
    if first and mut == "byte": rep.sample(case); first = False
  for mut, b in icmp6_fixups(raw, rng, spec["tier"]):
    rep.count("checksum_fixed_mutants")
    do_case(dict(frame=b, base=name, mut=mut), rep)
  for mut, b in igmp_fixups(raw, rng, spec["tier"]):
    rep.count("igmp_checksum_fixed_mutants")
    do_case(dict(frame=b, base=name, mut=mut), rep)
  for mut, b in random_frames(rng, spec["rand"]):
    rep.count("random_frames")
    do_case(dict(frame=b, base="random", mut=mut), rep)


def replay (witness, rep):
  do_case(witness, rep)
