"""
C10 - malformed OpenFlow input is contained to the offending connection.

Hostile byte strings (systematic corruptions of valid messages of every
type, truncations, wrong length/type/version fields, corrupted embedded
lengths, random streams) are placed between valid traffic on one of three
connections, on the controller side (real OpenFlow_01_Task loop) and on the
switch side (real RecocoIOLoop with three workers), under the virtual-time
scheduler.  Monitors: step budget on the read loops (termination), liveness
of both I/O loop tasks, sibling connections' deliveries, and the framing
alignment oracle (every delivered message is one frame of the walk by
declared lengths).
"""
import random
import struct
import traceback

from pvm import simnet, ctl, budget
from pvm.gen import ofgen
from pvm.ref import ofwire

ID = "C10"
LEVEL = "fault_enumeration"
RULE = ("a case is (side, hostile byte string, position among valid marker "
        "messages); hostile strings are enumerated from a corpus of valid "
        "messages of all 22 types: every truncation point, header length "
        "0..len+8 and 0xffff, every version byte value (sampled in quick), "
        "every type byte value, embedded action/queue/stats lengths set to "
        "0,1,4,len-1,len+1,0xffff, single-byte corruptions, random "
        "mutations, random streams; non-trivial = the hostile string differs "
        "from every valid message; distinct = distinct (side, bytes)")
ASSUMPTIONS = ["a connection that the hostile bytes cause to be closed is an "
               "acceptable outcome; so is an error reply followed by "
               "skipping exactly the declared length",
               "step budget = 400 + 60 * (bytes fed) executed source lines "
               "in the read loops per run-to-quiescence; calibrated two "
               "orders of magnitude above valid traffic",
               "frames with a declared length below 8 end the walk; the "
               "connection must then be closed (or the header answered)"]
REQUIRED = ["cases", "hostile_bytes_from_a_peer_that_has_reset_the_connection", "ctl_cases", "sw_cases", "hostile_units", "closed_by_input",
            "survived_input", "sibling_messages_checked", "loops_alive_checked",
            "frames_walked", "budget_armed", "hostile_during_handshake",
            "hostile_and_valid_traffic_in_one_segment", "declared_length_below_8_judged",
            "hostile_completed_while_siblings_are_ready",
            "frames_shorter_than_their_type", "sibling_statistics_events_checked",
            "handshake_deliveries_observed",
            "second_faulty_connection_in_the_same_round"]
TIMEOUT = {"quick": 1200, "thorough": 9000}

_st = {}


def marker_pi (xid):
  """A valid switch->controller message with a unique xid."""
  return ofwire.enc_message("packet_in", dict(
    xid=xid, buffer_id=0xffffffff, total_len=14, in_port=1, reason=0,
    data=b"\xff" * 6 + b"\x02\0\0\0\0\x01\x88\xb5"))


SIBX = 0x00c0ffee

def port_stats_reply (xid, ids, more):
  """A (part of a) port statistics reply; ids end up in rx_packets."""
  def entry (i):
    d = dict(port_no=i & 0xffff)
    for k in ("rx_packets", "tx_packets", "rx_bytes", "tx_bytes", "rx_dropped",
              "tx_dropped", "rx_errors", "tx_errors", "rx_frame_err",
              "rx_over_err", "rx_crc_err", "collisions"):
      d[k] = i
    return d
  return ofwire.enc_message("stats_reply", dict(
    xid=xid, type=4, flags=1 if more else 0, body=[entry(i) for i in ids]))


def marker_echo (xid):
  """A valid controller->switch message with a unique xid."""
  return ofwire.enc_message("echo_request", dict(xid=xid, body=b"mk"))


def walk (stream):
  """Frames of a byte stream by declared length: [(off, type, xid, len)]"""
  out = []
  off = 0
  while len(stream) - off >= 8:
    v, t, l, x = struct.unpack_from("!BBHL", stream, off)
    if l < 8: break
    if off + l > len(stream): break
    out.append((off, t, x, l))
    off += l
  return out, off


# --------------------------------------------------------------------------
# controller side

class CtlRig (object):
  def __init__ (self):
    self.w = simnet.World()
    self.w.start_openflow()
    import pox.openflow.of_01 as of_01
    import pox.openflow.libopenflow_01 as of
    self.of_01 = of_01
    # (every function of the modules that handle the bytes - the read loop,
    #  the decoders, the handlers and whatever helpers they have)
    import pox.lib.util as _u
    self.budget = budget.Budget(budget.all_code(of_01, of, _u))
    self.next_dpid = 1000
    self.pins = []
    self.w.core.openflow.addListenerByName("PacketIn", self._pin)
    self.stats = []
    self.w.core.openflow.addListenerByName("PortStatsReceived", self._stats)
    # every Connection the task creates, by its socket (a connection that is
    # still in its handshake is not in the nexus yet)
    self.cons = {}
    if not getattr(of_01.Connection, "_pvm_c10", False):
      real = of_01.Connection.__init__
      rig = self
      def init (con, sock, *a, **k):
        real(con, sock, *a, **k)
        reg = getattr(of_01.Connection, "_pvm_c10_reg", None)
        if reg is not None:
          reg[id(sock)] = con
          if len(reg) > 200:
            for key in list(reg)[:100]: del reg[key]
      of_01.Connection.__init__ = init
      of_01.Connection._pvm_c10 = True
    of_01.Connection._pvm_c10_reg = self.cons

  def _stats (self, e):
    self.stats.append((id(e.connection.sock), [x.rx_packets for x in e.stats]))

  def _pin (self, e):
    self.pins.append((id(e.connection.sock), e.ofp.xid))

  def recover (self):
    self.w.run(max_steps=200)
    try:
      self.new_peer()
    except Exception:
      self.w.restart_openflow_task()
      self.new_peer()

  def new_peer (self, stop=None):
    """stop: None (full handshake), "hello" (only hello exchanged) or
    "features" (features reply sent, barrier reply still owed)."""
    c, s = self.w.connect_switch_socket("x")
    self.w.run()
    d = self.next_dpid; self.next_dpid += 1
    s.rx.clear()
    P = dict(c=c, s=s, con=None, dpid=d, bx=None)
    s.send(ofwire.enc_message("hello", dict(xid=0)))
    if stop == "hello":
      self.w.run(); return P
    return self.finish_peer(P, stop)

  def finish_peer (self, P, stop=None, strict=True):
    s = P["s"]; d = P["dpid"]
    if P["bx"] is None:
      s.send(ofwire.enc_message("features_reply", dict(
        xid=1, datapath_id=d, n_buffers=0, n_tables=1, capabilities=0, actions=0,
        ports=[ctl.phy_port(1)])))
      self.w.run()
      try:
        for m in ofwire.dec_stream(bytes(s.rx)):
          if m["name"] == "barrier_request": P["bx"] = m["xid"]
      except ofwire.WireError:
        pass
      s.rx.clear()
      if P["bx"] is None:
        if strict: raise simnet.AdapterError("handshake: no barrier request")
        return P
    if stop == "features": return P
    s.send(ofwire.enc_message("barrier_reply", dict(xid=P["bx"])))
    self.w.run()
    P["con"] = self.w.core.openflow.getConnection(d)
    if P["con"] is None and strict:
      raise simnet.AdapterError("handshake did not complete")
    return P


def ctl_case_handshake (rig, case, rep, fire):
  """
  The hostile unit arrives while the connection is still in its handshake
  (other handler table, other state).  Judged: termination, the siblings, the
  accept/read loop; and if the connection is still open afterwards the
  handshake can be completed and later traffic is delivered.
  """
  w = rig.w
  phase = case["phase"]
  X = rig.new_peer(stop="hello" if phase == "pre_features" else "features")
  Y = rig.new_peer(); Z = rig.new_peer()
  rig.pins = []
  sib = {id(Y["c"]): [], id(Z["c"]): []}
  n = 0x55000000
  def sibling_round ():
    nonlocal n
    for P in (Y, Z):
      n += 1
      P["s"].send(marker_pi(n)); sib[id(P["c"])].append(n)
  def run_budget (nbytes):
    rig.budget.arm(6000 + 400 * nbytes)
    rep.count("budget_armed")
    try:
      w.run(max_steps=400)
    finally:
      rig.budget.disarm()
    if rig.budget.tripped:
      fire("processing does not terminate (controller read loop, during "
           "the handshake)", "step budget exceeded at %s" % rig.budget.where)
      return False
    return True
  rep.count("hostile_during_handshake")
  sibling_round()
  if not run_budget(400): return
  # what reaches the handshake's handlers
  hs_delivered = []
  xcon = rig.cons.get(id(X["c"]))
  if xcon is not None:
    def wrap (h):
      def f (con, msg):
        try: hs_delivered.append((msg.header_type, msg.xid))
        except Exception: hs_delivered.append(("?", None))
        return h(con, msg)
      return f
    try:
      hv = xcon.handlers
      xcon.handlers = [wrap(h) for h in hv]
      rep.count("handshake_deliveries_observed")
    except Exception:
      xcon = None
  X["s"].send(case["hostile"])
  if case.get("peer_reset"):
    # the peer is gone by the time its bytes are looked at (it closed without
    # reading what the controller had sent: a reset); the bytes that arrived
    # before the reset are still delivered, the socket no longer knows its peer
    X["c"].reset_by_peer = True
    rep.count("hostile_bytes_from_a_peer_that_has_reset_the_connection")
  if not run_budget(len(case["hostile"]) + 200): return
  sibling_round()
  if not run_budget(400): return
  closed = X["c"].closed or X["c"].shut_rd
  if case.get("peer_reset") and not closed:
    fire("connection reset by its peer is still open (controller, during the handshake)", "")
    return
  frames, end = walk(case["hostile"])
  # a frame with another protocol version is not handed to a handler, during
  # the handshake no more than after it (a HELLO of another version is let
  # through on purpose)
  for (o, t, x, l) in frames:
    v = case["hostile"][o]
    if v != 1 and t != 0 and (t, x) in hs_delivered and \
       not any(f[1] == t and f[2] == x and case["hostile"][f[0]] == 1 for f in frames):
      fire("message with unsupported version delivered (controller, during the handshake)",
           "version %d type %d" % (v, t))
      return
  if not closed:
    # finish the handshake; traffic behind it must then come through
    rig.budget.arm(200000)
    rep.count("budget_armed")
    try:
      rig.finish_peer(X, strict=False)
    except Exception as e:
      if not rig.budget.tripped:
        fire("exception while completing a handshake after hostile input", repr(e))
        return
    finally:
      rig.budget.disarm()
    if rig.budget.tripped:
      fire("processing does not terminate (controller read loop, during "
           "the handshake)", "step budget exceeded at %s while the handshake was "
           "being completed after the hostile bytes" % rig.budget.where)
      return
    closed = X["c"].closed or X["c"].shut_rd
    xc = rig.cons.get(id(X["c"]))
    went_up = xc is not None and getattr(xc, "connect_time", None) is not None
    if not closed and X["con"] is None and not went_up and end == len(case["hostile"]) \
       and frames and all(f[3] >= 8 for f in frames):
      # the hostile bytes were whole frames (nothing of them is still being
      # waited for), the connection is open, and the handshake that follows
      # them gets nowhere: neither of the two outcomes the statement allows
      fire("connection neither closed nor able to go on after hostile input "
           "(controller, during the handshake)",
           "phase %s; frames %r" % (phase, [(f[1], f[3]) for f in frames][:6]))
      return
    if not closed and X["con"] is not None:
      post = [0x56000001, 0x56000002]
      for x in post: X["s"].send(marker_pi(x))
      if not run_budget(600): return
      got = [x for (sk, x) in rig.pins if sk == id(X["c"])]
      if got != post and not (X["c"].closed or X["c"].shut_rd):
        fire("valid messages dropped on a connection that stayed open "
             "(controller, after hostile input during the handshake)",
             "delivered %r" % ([hex(x) for x in got],))
        return
  if closed: rep.count("closed_by_input")
  else: rep.count("survived_input")
  sibling_round()
  if not run_budget(400): return
  for P, name in ((Y, "Y"), (Z, "Z")):
    got = [x for (sk, x) in rig.pins if sk == id(P["c"])]
    rep.count("sibling_messages_checked", len(sib[id(P["c"])]))
    if got != sib[id(P["c"])]:
      fire("sibling connection's messages disturbed (controller)",
           "sibling %s delivered %r expected %r" %
           (name, [hex(x) for x in got], [hex(x) for x in sib[id(P["c"])]]))
      return
    if P["con"].disconnected:
      fire("sibling connection closed (controller)", name); return
  rep.count("loops_alive_checked")
  try:
    rig.new_peer()
  except Exception as e:
    fire("controller I/O loop no longer serves connections", repr(e)); return
  for P in (X, Y, Z):
    try: P["s"].close()
    except Exception: pass
  w.run(max_steps=200)


def ctl_case (rig, case, rep, fire):
  if case.get("phase", "up") != "up":
    return ctl_case_handshake(rig, case, rep, fire)
  w = rig.w
  # a second faulty connection served in the same round of the I/O loop:
  # accepted before X with bytes that make its read() give up quietly (a
  # declared length below 8), or after X with bytes that make it raise (an
  # unknown type) - both have to end up closed, whatever X's bytes do
  W = None; sh = case.get("second_hostile")
  if sh == "false_before": W = rig.new_peer()
  X = rig.new_peer(); Y = rig.new_peer(); Z = rig.new_peer()
  if sh == "raise_after": W = rig.new_peer()
  def send_second ():
    if W is None: return
    rep.count("second_faulty_connection_in_the_same_round")
    if sh == "false_before": W["s"].send(struct.pack("!BBHL", 1, 2, 4, 0x77))
    else: W["s"].send(struct.pack("!BBHL", 1, 99, 8, 0x78))
  delivered = []
  orig = X["con"].handlers
  def wrap (h):
    def f (con, msg):
      try:
        delivered.append((msg.header_type, msg.xid))
      except Exception:
        delivered.append(("?", None))
      return h(con, msg)
    return f
  X["con"].handlers = [wrap(h) for h in orig]
  rig.pins = []
  hostile = case["hostile"]
  pre = [marker_pi(0x51000000 + i) for i in range(case["npre"])]
  post = [marker_pi(0x52000000 + i) for i in range(2)]
  sib = {id(Y["c"]): [], id(Z["c"]): []}
  fed = b""
  n = 0x53000000
  def sibling_round ():
    nonlocal n
    for P in (Y, Z):
      n += 1
      P["s"].send(marker_pi(n)); sib[id(P["c"])].append(n)
  def run_budget (nbytes):
    rig.budget.arm(6000 + 400 * nbytes)
    rep.count("budget_armed")
    try:
      w.run(max_steps=400)
    finally:
      rig.budget.disarm()
    if rig.budget.tripped:
      fire("processing does not terminate (controller read loop)",
           "step budget exceeded at %s" % rig.budget.where)
      return False
    return True
  place = case.get("place", 0)
  if place == 1:
    fed = b"".join(pre) + hostile + b"".join(post)
    rep.count("hostile_and_valid_traffic_in_one_segment")
    sibling_round()
    send_second()
    X["s"].send(fed)
    if not run_budget(len(fed) + 400): return
  else:
    for m in pre:
      X["s"].send(m); fed += m
    sibling_round()
    if not run_budget(len(fed) + 200): return
    if place == 2:
      rep.count("hostile_and_valid_traffic_in_one_segment")
      sibling_round()
      send_second()
      X["s"].send(hostile + b"".join(post)); fed += hostile + b"".join(post)
      if not run_budget(len(fed) + 400): return
    else:
      send_second()
      X["s"].send(hostile); fed += hostile
      if not run_budget(len(hostile) + 200): return
      sibling_round()
      for m in post:
        X["s"].send(m); fed += m
      if not run_budget(len(fed) + 400): return
  sibling_round()
  if not run_budget(400): return
  judge(rep, fire, "controller", fed, delivered,
        closed=X["con"].disconnected or X["c"].closed or X["c"].shut_rd,
        pristine=[struct.unpack_from("!L", m, 4)[0] for m in pre + post],
        marker_type=10)
  if W is not None and not (W["con"].disconnected or W["c"].closed or W["c"].shut_rd):
    fire("bytes neither answered with an error nor the connection closed "
         "(a second faulty connection served in the same round) (controller)",
         "%s; the connection is still open" %
         ("declared length 4, accepted before the other faulty connection"
          if sh == "false_before" else "unknown type, accepted after the other one"))
    return
  # siblings
  for P, name in ((Y, "Y"), (Z, "Z")):
    got = [x for (sk, x) in rig.pins if sk == id(P["c"])]
    rep.count("sibling_messages_checked", len(sib[id(P["c"])]))
    if got != sib[id(P["c"])]:
      fire("sibling connection's messages disturbed (controller)",
           "sibling %s delivered %r expected %r" %
           (name, [hex(x) for x in got], [hex(x) for x in sib[id(P["c"])]]))
      return
    if P["con"].disconnected:
      fire("sibling connection closed (controller)", name); return
  # ... and what the controller makes of a sibling's messages is made of that
  # sibling's messages only: a complete statistics reply (with the
  # transaction id every switch's replies to the same broadcast request
  # carry) raises one event with its own entries
  del rig.stats[:]
  want = {}
  for P in (Y, Z):
    n += 1
    want[id(P["c"])] = [[n]]
    P["s"].send(port_stats_reply(SIBX, [n], False))
  if not run_budget(400): return
  for P, name in ((Y, "Y"), (Z, "Z")):
    got = [ids for (sk, ids) in rig.stats if sk == id(P["c"])]
    rep.count("sibling_statistics_events_checked")
    if got != want[id(P["c"])]:
      fire("sibling connection's statistics event is not made of its own reply (controller)",
           "sibling %s: events %r, its reply carried %r" % (name, got, want[id(P["c"])]))
      return
  # the accept/read loop is still alive: a new switch can connect
  rep.count("loops_alive_checked")
  try:
    rig.new_peer()
  except Exception as e:
    fire("controller I/O loop no longer serves connections", repr(e)); return
  for P in (X, Y, Z):
    try: P["s"].close()
    except Exception: pass
  w.run(max_steps=200)


# --------------------------------------------------------------------------
# switch side

class SwRig (object):
  def __init__ (self):
    self.w = simnet.World()
    import pox.lib.ioworker as iow
    import pox.datapaths.switch as sw
    import pox.openflow.libopenflow_01 as of
    self.ioloop = iow.RecocoIOLoop()
    self.ioloop.start()
    self.w.run()
    import pox.lib.util as _u
    self.budget = budget.Budget(budget.all_code(sw, iow, of, _u))
    self.dpid = 500

  def recover (self):
    import pox.lib.ioworker as iow
    self.w.run(max_steps=200)
    try: self.ioloop.stop()
    except Exception: pass
    self.ioloop = iow.RecocoIOLoop()
    self.ioloop.start()
    self.w.run(max_steps=50)

  def new_switch (self):
    a, b = simnet.FakeSocket.pair("ctlside", "swside")
    self.dpid += 1
    sp = simnet.SwitchPeer(self.w, self.dpid, b, ports=2, ioloop=self.ioloop,
                           max_buffers=0)
    delivered = []
    orig = sp.switch.rx_message
    def rec (connection, msg):
      try: delivered.append((msg.header_type, msg.xid))
      except Exception: delivered.append(("?", None))
      return orig(connection, msg)
    sp.conn.set_message_handler(rec)
    self.w.run()
    a.rx.clear()
    return dict(peer=a, sp=sp, delivered=delivered)


def sw_case (rig, case, rep, fire):
  w = rig.w
  X = rig.new_switch(); Y = rig.new_switch(); Z = rig.new_switch()
  hostile = case["hostile"]
  pre = [marker_echo(0x61000000 + i) for i in range(case["npre"])]
  post = [marker_echo(0x62000000 + i) for i in range(2)]
  sib = {0: [], 1: []}
  n = 0x63000000
  fed = b""
  def sibling_round ():
    nonlocal n
    for i, P in enumerate((Y, Z)):
      n += 1
      P["peer"].send(marker_echo(n)); sib[i].append(n)
  def run_budget (nbytes):
    rig.budget.arm(6000 + 400 * nbytes)
    rep.count("budget_armed")
    try:
      w.run(max_steps=400)
    finally:
      rig.budget.disarm()
    if rig.budget.tripped:
      fire("processing does not terminate (switch read loop)",
           "step budget exceeded at %s" % rig.budget.where)
      return False
    return True
  place = case.get("place", 0)
  if place == 3:
    # a message far larger than one read: all but its last bytes first, then
    # the rest together with the siblings' messages, so that whatever its
    # completion provokes happens in a round in which the siblings are ready
    fed = b"".join(pre) + hostile + b"".join(post)
    k = len(b"".join(pre)) + len(hostile) - 64
    X["peer"].send(fed[:k])
    if not run_budget(k + 400): return
    rep.count("hostile_completed_while_siblings_are_ready")
    sibling_round()
    X["peer"].send(fed[k:])
    if not run_budget(len(fed) + 400): return
  elif place == 1:
    # valid traffic and the hostile bytes in ONE segment, and the siblings'
    # messages ready in the same round of the I/O loop
    fed = b"".join(pre) + hostile + b"".join(post)
    rep.count("hostile_and_valid_traffic_in_one_segment")
    sibling_round()
    X["peer"].send(fed)
    if not run_budget(len(fed) + 400): return
  else:
    for m in pre:
      X["peer"].send(m); fed += m
    sibling_round()
    if not run_budget(len(fed) + 200): return
    if place == 2:
      rep.count("hostile_and_valid_traffic_in_one_segment")
      sibling_round()
      X["peer"].send(hostile + b"".join(post)); fed += hostile + b"".join(post)
      if not run_budget(len(fed) + 400): return
    else:
      X["peer"].send(hostile); fed += hostile
      if not run_budget(len(hostile) + 200): return
      sibling_round()
      for m in post:
        X["peer"].send(m); fed += m
      if not run_budget(len(fed) + 400): return
  sibling_round()
  if not run_budget(400): return
  wk = X["sp"].worker
  errs = set()
  try:
    for m in ofwire.dec_stream(bytes(X["peer"].rx)):
      if m["name"] == "error": errs.add(m["xid"])
  except ofwire.WireError:
    fire("switch wrote undecodable bytes", ""); return
  # (closed as the *peer* can see it - the socket closed or shut down for
  #  writing - not a flag inside the worker)
  judge(rep, fire, "switch", fed, X["delivered"],
        closed=wk.closed or X["sp"].sock.closed or X["sp"].sock.shut_wr,
        pristine=[struct.unpack_from("!L", m, 4)[0] for m in pre + post],
        marker_type=2, answered=errs)
  for i, P in enumerate((Y, Z)):
    got = [x for (t, x) in P["delivered"] if t == 2]
    rep.count("sibling_messages_checked", len(sib[i]))
    if got != sib[i]:
      fire("sibling connection's messages disturbed (switch)",
           "sibling %d delivered %r expected %r" %
           (i, [hex(x) for x in got], [hex(x) for x in sib[i]]))
      return
    # and answered (echo replies carry the xids back)
    try:
      rx = [m["xid"] for m in ofwire.dec_stream(bytes(P["peer"].rx))
            if m["name"] == "echo_reply"]
    except ofwire.WireError:
      rx = None
    if rx != sib[i]:
      fire("sibling connection's replies disturbed (switch)",
           "sibling %d got replies %r" % (i, rx)); return
  rep.count("loops_alive_checked")
  # the I/O loop task is still alive: a brand new worker gets served
  try:
    N = rig.new_switch()
    N["peer"].send(marker_echo(0x64000001))
    w.run(max_steps=200)
    if [x for t, x in N["delivered"]] != [0x64000001]:
      fire("switch I/O loop no longer serves connections",
           "a new connection's message was not delivered"); return
  except Exception as e:
    fire("switch I/O loop no longer serves connections", repr(e)); return
  for P in (X, Y, Z, N):
    try: P["peer"].close()
    except Exception: pass
  w.run(max_steps=200)


# --------------------------------------------------------------------------

# Size of the fixed part of each OpenFlow 1.0 message type (openflow.h):
# a frame that declares less cannot hold a message of its type, so whatever
# is delivered for it was read from beyond its end.
MIN_LEN = {0: 8, 1: 12, 2: 8, 3: 8, 4: 12, 5: 8, 6: 32, 7: 8, 8: 12, 9: 12,
           10: 18, 11: 88, 12: 64, 13: 16, 14: 72, 15: 32, 16: 12, 17: 12,
           18: 8, 19: 8, 20: 12, 21: 16}


def judge (rep, fire, side, fed, delivered, closed, pristine, marker_type,
           answered=()):
  frames, end = walk(fed)
  # a frame with another protocol version is never handed to a handler
  # (the controller deliberately lets a HELLO of another version through)
  for (o, t, x, l) in frames:
    v = fed[o]
    if v != 1 and (t, x) in delivered and not (side == "controller" and t == 0):
      if not any(f[1] == t and f[2] == x and fed[f[0]] == 1 for f in frames):
        fire("message with unsupported version delivered (%s)" % side,
             "version %d type %d" % (v, t))
        return
  rep.count("frames_walked", len(frames))
  rep.count("frames_shorter_than_their_type", sum(
    1 for f in frames if fed[f[0]] == 1 and f[3] < MIN_LEN.get(f[1], 8)))
  if closed: rep.count("closed_by_input")
  else: rep.count("survived_input")
  # every delivered message is one frame of the walk, in order
  i = 0
  for (t, x) in delivered:
    j = i
    while j < len(frames) and (frames[j][1], frames[j][2]) != (t, x): j += 1
    if j == len(frames):
      fire("delivered a message that is not a frame of the stream (%s)" % side,
           "delivered (type %r xid %r) after frame %d; frames by declared "
           "length: %r" % (t, x, i, [(f[1], hex(f[2]), f[3]) for f in frames]))
      return
    if fed[frames[j][0]] == 1 and frames[j][3] < MIN_LEN.get(t, 8):
      fire("delivered a message from a frame shorter than the fixed part of "
           "its type (%s)" % side,
           "type %d declared length %d, fixed part %d: the rest was read from "
           "the bytes that follow" % (t, frames[j][3], MIN_LEN[t]))
      return
    i = j + 1
  # a header that declares a length below 8 cannot be skipped (nobody knows
  # where the next message starts): the statement's other outcome - the
  # connection is closed - is what is left
  if len(fed) - end >= 8:
    l = struct.unpack_from("!H", fed, end + 2)[0]
    if l < 8:
      rep.count("declared_length_below_8_judged")
      ex = struct.unpack_from("!L", fed, end + 4)[0]
      if not closed and ex not in answered:
        fire("bytes neither answered with an error nor the connection closed "
             "(declared length below 8) (%s)" % side,
             "header %s at offset %d; the connection is still open" %
             (fed[end:end + 8].hex(), end))
        return
  # a connection that stayed open must not have dropped valid traffic that
  # is aligned with the frame walk
  if not closed:
    aligned = [f[2] for f in frames if f[1] == marker_type and f[2] in pristine
               and f[3] in (32, 10)]
    got = [x for (t, x) in delivered if t == marker_type and x in pristine]
    if got != aligned:
      fire("valid messages dropped or duplicated on a connection that stayed "
           "open (%s)" % side,
           "aligned valid markers %r, delivered %r" %
           ([hex(x) for x in aligned], [hex(x) for x in got]))
      return
    # ... and every frame it did not deliver must have been answered with an
    # error ("answered with an error and skipped")
    dl = list(delivered)
    for (o, t, x, l) in frames:
      if (t, x) in dl:
        dl.remove((t, x)); continue
      if x not in answered:
        fire("frame neither delivered nor answered with an error on a "
             "connection that stayed open (%s)" % side,
             "frame type %d length %d" % (t, l))
        return


def run_case (case, rep):
  side = case["side"]
  fired = []
  def fire (key, what):
    fired.append(key)
    rep.violation("C10 " + key, what + " | unit: " + case.get("label", ""), case)
  rig = _st.get(side)
  if rig is None:
    if _st:
      # one core per process: a shard only ever drives one side
      raise simnet.Inconclusive("both sides requested in one process")
    rig = CtlRig() if side == "ctl" else SwRig()
    _st[side] = rig
  rep.count("cases"); rep.count(side + "_cases"); rep.count("hostile_units")
  try:
    if side == "ctl": ctl_case(rig, case, rep, fire)
    else: sw_case(rig, case, rep, fire)
  except simnet.AdapterError:
    raise
  except budget.BudgetExceeded as e:
    fire("processing does not terminate (%s)" % side, repr(e))
  except Exception:
    fire("exception escapes to the harness (%s)" % side,
         traceback.format_exc()[-900:])
  if fired:
    # the I/O loop task may have died or be wedged: give the next case a
    # fresh one (same core, same scheduler)
    try:
      rig.recover()
    except Exception as e:
      raise simnet.Inconclusive("could not recover the rig: %r" % (e,))


def do_case (case, rep):
  run_case(case, rep)
  rep.case(case["side"].encode() + b"|" + bytes(case["hostile"]),
           nontrivial=True)


# --------------------------------------------------------------------------
# hostile unit enumeration

def corpus (side, rng):
  kinds = ofgen.FROM_SWITCH if side == "ctl" else ofgen.FROM_CONTROLLER
  out = []
  for k in kinds:
    for _ in range(2):
      m = ofgen.gen_message(rng, k, payload_lens=(0, 3, 8, 20))
      try:
        b = m.pack()
      except Exception:
        continue
      if len(b) <= 400: out.append((k, b))
  # messages with embedded length fields at known offsets
  act = [dict(type=0, port=1, max_len=0), dict(type=4, dl_addr=b"\1" * 6)]
  m0 = dict(wildcards=(1 << 22) - 1, in_port=0, dl_src=b"\0" * 6,
            dl_dst=b"\0" * 6, dl_vlan=0, dl_vlan_pcp=0, dl_type=0, nw_tos=0,
            nw_proto=0, nw_src=0, nw_dst=0, tp_src=0, tp_dst=0)
  emb = []
  if side == "sw":
    b = ofwire.enc_message("flow_mod", dict(
      xid=5, match=m0, cookie=0, command=0, idle_timeout=0, hard_timeout=0,
      priority=1, buffer_id=0xffffffff, out_port=0xffff, flags=0, actions=act))
    emb.append(("flow_mod.action_len", b, [74, 82]))
    b = ofwire.enc_message("packet_out", dict(
      xid=6, buffer_id=0xffffffff, in_port=1, actions=act, data=b"\0" * 20))
    emb.append(("packet_out.actions_len", b, [14]))
    emb.append(("packet_out.action_len", b, [18, 26]))
    b = ofwire.enc_message("stats_request", dict(
      xid=7, type=1, flags=0, body=dict(match=m0, table_id=0xff, out_port=0xffff)))
    emb.append(("stats_request.type", b, [8]))
  else:
    fs = dict(table_id=0, match=m0, duration_sec=1, duration_nsec=0, priority=1,
              idle_timeout=0, hard_timeout=0, cookie=0, packet_count=0,
              byte_count=0, actions=act)
    b = ofwire.enc_message("stats_reply", dict(xid=8, type=1, flags=0,
                                               body=[fs, fs]))
    emb.append(("flow_stats.entry_len", b, [12, 12 + 112]))
    emb.append(("flow_stats.action_len", b, [12 + 88 + 2]))
    b = ofwire.enc_message("queue_get_config_reply", dict(
      xid=9, port=1, queues=[dict(queue_id=1, properties=[
        dict(property=1, rate=5), dict(property=0)])]))
    emb.append(("queue.len", b, [20]))
    emb.append(("queue.prop_len", b, [26, 42]))
    b = ofwire.enc_message("features_reply", dict(
      xid=10, datapath_id=1, n_buffers=0, n_tables=1, capabilities=0,
      actions=0, ports=[ctl.phy_port(1), ctl.phy_port(2)]))
    emb.append(("features_reply", b, []))
  return out, emb


def units (side, rng, tier):
  """Yields (label, hostile bytes)."""
  corp, emb = corpus(side, rng)
  quick = tier == "quick"
  if side == "ctl":
    # a multipart statistics reply that is never finished, under the
    # transaction id the siblings' replies use
    yield "statistics reply left unfinished", port_stats_reply(SIBX, [0xbad], True)
    yield "statistics reply left unfinished", \
        port_stats_reply(SIBX, [0xbad], True) + port_stats_reply(SIBX, [0xbad + 1, 0xbad + 2], True)
    yield "statistics reply left unfinished", port_stats_reply(SIBX, [], True)
  # HELLOs of newer protocol versions: from 1.3.1 on they carry elements
  # (type, length, data, padded to 8) - well-formed ones, and ones whose
  # element length is 0, 1..3, one short of / beyond what is there, with no
  # version bitmap, with a bitmap without / with 1.0 in it; and bodies that
  # are no elements at all
  def hello (ver, body):
    return struct.pack("!BBHL", ver, 0, 8 + len(body), 0x68656c00 | ver) + body
  for ver in (1, 2, 4, 5, 6, 0x7f, 0xff):
    for body in (struct.pack("!HHL", 1, 8, 0x12), struct.pack("!HHL", 1, 8, 0x10),
                 struct.pack("!HHL", 1, 0, 0x12), struct.pack("!HH", 1, 0),
                 struct.pack("!HHL", 1, 3, 0x12), struct.pack("!HHL", 1, 9, 0x12),
                 struct.pack("!HHL", 1, 0xffff, 0x12), struct.pack("!HHL", 2, 8, 0) +
                 struct.pack("!HHL", 1, 8, 0x12), struct.pack("!HHL", 0, 0, 0),
                 struct.pack("!HHLL", 1, 12, 0x10, 0) + b"\0" * 4,
                 b"\0" * 4, b"\0" * 8, b"\0" * 16, b"\xff" * 8, b"\0\1\0"):
      yield "hello of version %d with elements" % ver, hello(ver, body)
  for k, b in corp:
    # the message as it is: valid, but nobody asked for it (and during the
    # handshake there may be no handler for its type at all)
    yield "%s valid unsolicited" % k, b
    # truncation
    pts = range(1, len(b)) if (not quick or len(b) <= 40) else \
        sorted(set([1, 3, 4, 7, 8, 9, len(b) - 1] +
                   [rng.randrange(1, len(b)) for _ in range(4)]))
    for t in pts:
      yield "%s truncated" % k, b[:t]
    # header length field
    vals = list(range(0, len(b) + 9)) + [0xffff]
    if quick and len(vals) > 30:
      vals = list(range(0, 17)) + [len(b) - 1, len(b) + 1, len(b) + 8, 0xffff]
    for v in vals:
      if v == len(b): continue
      yield "%s length=%s" % (k, "0" if v == 0 else "<8" if v < 8 else
                              "short" if v < len(b) else "long"), \
          b[:2] + struct.pack("!H", v) + b[4:]
    # version
    # (quick: the neighbours of 1, every value one bit away from it, and the
    #  ends of the range)
    for v in (sorted(set([0, 2, 4, 0x80, 0xff, 0xfe, 0x7f] +
                         [1 ^ (1 << i) for i in range(8)])) if quick else range(256)):
      if v == 1: continue
      yield "%s version" % k, bytes([v]) + b[1:]
    # type
    for v in (sorted(set([22, 23, 100, 255, b[1] ^ 0x80, b[1] ^ 0x40, b[1] ^ 0x20]))
              if quick else range(256)):
      if v == b[1]: continue
      yield "%s type" % k, b[:1] + bytes([v]) + b[2:]
    for v in range(22):
      if v == b[1]: continue
      if quick and rng.random() < 0.7: continue
      yield "%s retyped" % k, b[:1] + bytes([v]) + b[2:]
    # single-byte corruption
    pos = range(8, len(b)) if not quick else \
        [rng.randrange(8, len(b)) for _ in range(min(6, max(0, len(b) - 8)))]
    for p in pos:
      for nv in ((0, 0xff, b[p] ^ 1, b[p] ^ 0x80) if quick else
                 (0, 0xff) + tuple(b[p] ^ (1 << i) for i in range(8))):
        if nv == b[p]: continue
        yield "%s corrupted body byte" % k, b[:p] + bytes([nv]) + b[p + 1:]
  for name, b, offs in emb:
    for o in offs:
      cur = struct.unpack_from("!H", b, o)[0]
      for v in (0, 1, 4, cur - 1, cur + 1, cur + 8, 0xffff, 7, 9):
        if v == cur or v < 0: continue
        yield "%s=%s" % (name, v if v in (0, 1, 4, 0xffff) else
                         "cur-1" if v == cur - 1 else "cur+1" if v == cur + 1
                         else "cur+8" if v == cur + 8 else v), \
            b[:o] + struct.pack("!H", v & 0xffff) + b[o + 2:]
  n = 400 if quick else 30000
  for _ in range(n):
    k, b = rng.choice(corp)
    bb = bytearray(b)
    for _ in range(rng.randrange(1, 5)):
      p = rng.randrange(len(bb)); bb[p] = rng.getrandbits(8)
    yield "%s random mutation" % k, bytes(bb)
  for _ in range(n // 2):
    yield "random stream", bytes(rng.getrandbits(8) for _ in
                                 range(rng.choice([1, 7, 8, 9, 40, 200])))
  # the largest messages the length field can express, all bytes present:
  # an error reply quoting them whole cannot be built any more (its own
  # length field overflows), so the "answer with an error" path itself fails
  big = [65523, 65524, 65528, 65535] if quick else \
      list(range(65500, 65536))
  for L in big:
    for t in (22, 200, 14, 13, 16):      # unknown types; flow_mod / packet_out / stats with a garbage body
      yield "maximal length %s" % ("unknown type" if t >= 22 else "garbage body"), \
          struct.pack("!BBHL", 1, t, L, 0x6d617800 | (L & 0xff)) + \
          bytes((i * 7 + t) & 0xff for i in range(L - 8))
  # ... and the same with a tail that reads like a message of its own (an
  # echo request, a barrier request): whatever is skipped, it is the whole
  # declared length - the tail is never taken for the next message
  for L in (65524, 65531, 65535) if quick else range(65520, 65536):
    for t in (14, 13, 18):
      for tail in (struct.pack("!BBHL", 1, 2, 8, 0x7a11), struct.pack("!BBHL", 1, 18, 8, 0x7a12),
                   struct.pack("!BBHLL", 1, 2, 12, 0x7a13, 0)):
        yield "maximal length garbage body ending like a message", \
            struct.pack("!BBHL", 1, t, L, 0x6d617900 | (L & 0xff)) + \
            bytes((i * 5 + t) & 0xff for i in range(L - 8 - len(tail))) + tail
  for _ in range(n // 4):
    # plausible header, random body
    l = rng.choice([8, 12, 16, 40, 72, 100])
    yield "random body", struct.pack("!BBHL", 1, rng.randrange(22), l,
                                     rng.getrandbits(32)) + \
        bytes(rng.getrandbits(8) for _ in range(l - 8))


def plan (tier, seed):
  if tier == "quick":
    return ([dict(side="ctl", sub=i, nsub=8) for i in range(8)] +
            [dict(side="sw", sub=i, nsub=8) for i in range(8)])
  return ([dict(side="ctl", sub=i, nsub=24) for i in range(24)] +
          [dict(side="sw", sub=i, nsub=24) for i in range(24)])


def run (spec, rep):
  rng = random.Random("c10/%d/%s" % (spec["seed"], spec["side"]))
  i = 0
  first = True
  for label, h in units(spec["side"], rng, spec["tier"]):
    i += 1
    if i % spec["nsub"] != spec["sub"]: continue
    case = dict(side=spec["side"], hostile=h, npre=i % 3, label=label)
    if len(h) < 4000: case["place"] = (i // 3) % 3
    elif spec["side"] == "sw": case["place"] = 3   # (input that makes the read raise, with the siblings ready in the same round)
    if spec["side"] == "ctl" and len(h) < 4000:
      # a third of the controller-side units arrive during the handshake
      ph = (i // spec["nsub"]) % 6
      if ph == 1: case["phase"] = "pre_features"
      elif ph == 3: case["phase"] = "pre_barrier"
      if ph in (1, 3) and (i // (6 * spec["nsub"])) % 2: case["peer_reset"] = True
      elif ph == 0: case["second_hostile"] = "raise_after"
      elif ph == 4: case["second_hostile"] = "false_before"
    do_case(case, rep)
    if first: rep.sample(case); first = False
  for rig in _st.values():
    # (how close the traffic that did terminate came to the step budget)
    rep.maxi("step_budget_used_permille", int(1000 * getattr(rig.budget, "max_ratio", 0.0)))


def replay (witness, rep):
  do_case(witness, rep)
