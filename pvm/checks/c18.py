"""
C18 - packet buffers are unique, released exactly once, and bounded.

Histories of table misses, send-to-controller hits, packet_outs and
flow_mods that reference buffers, stale and bogus buffer ids and
miss_send_len changes against a real SoftwareSwitch with a small buffer
pool; every packet-in is decoded from the wire and checked against a model
pool that maps outstanding ids to the exact frame bytes.
"""
import random
import struct
import traceback

from pvm import simnet
from pvm.ref import ofwire, ofmatch as OM, ofactions as OA, frames as F

ID = "C18"
LEVEL = "exploration"
RULE = ("a case is (pool size 0..4, history of {frame arrival that misses, "
        "arrival hitting an output:CONTROLLER entry with max_len 0/64/65535, "
        "packet_out(buffer), flow_mod(buffer), packet_out of a stale id, of "
        "bogus ids 0 / 2^31 / max+1, set_config(miss_send_len)}) with frames "
        "carrying unique payloads; non-trivial = a buffer id was handed out "
        "and later used, or the pool was exhausted; distinct = distinct "
        "history")
ASSUMPTIONS = ["buffer ids are opaque: the model only requires an id not to "
               "be outstanding when handed out",
               "an unbuffered packet-in carries the whole frame whatever "
               "max_len / miss_send_len say"]
REQUIRED = ["stored_packets_sent_through_the_table_again", "histories_in_which_time_passes_with_buffers_outstanding", "packet_ins", "buffered", "unbuffered_pool_full", "released_by_packet_out",
            "released_by_flow_mod", "released_by_rejected_flow_mod", "flow_mod_modify_with_buffer", "rebuffered_during_release", "stale_uses",
            "bogus_uses", "truncated",
            "ids_reused_after_release", "advertised_buffer_counts_read",
            "packet_outs_with_buffer_id_and_data", "stale_or_bogus_ids_in_flow_mods",
            "stale_or_bogus_ids_in_packet_outs_carrying_data",
            "buffer_ids_used_with_an_action_the_switch_does_not_know",
            "padded_frames_missing_the_table",
            "misses_on_a_port_that_may_not_cause_packet_ins"]
TIMEOUT = {"quick": 900, "thorough": 7200}

NPORTS = 4
DPID = 18
CTRL_DST = [bytes.fromhex("0200000000c0"), bytes.fromhex("0200000000c1"),
            bytes.fromhex("0200000000c2")]
CTRL_MAXLEN = [0, 64, 0xffff]
SRC = bytes.fromhex("020000000001")
NO_BUFFER = 0xffffffff

ALLM = dict(wildcards=OM.FW_ALL, in_port=0, dl_src=b"\0" * 6, dl_dst=b"\0" * 6,
            dl_vlan=0, dl_vlan_pcp=0, dl_type=0, nw_tos=0, nw_proto=0,
            nw_src=0, nw_dst=0, tp_src=0, tp_dst=0)
ACTS = [[dict(type=0, port=2, max_len=0)],
        [dict(type=4, dl_addr=b"\x0a" * 6), dict(type=0, port=3, max_len=0)],
        [dict(type=0, port=OA.OFPP_FLOOD, max_len=0)],
        [],
        [dict(type=0, port=OA.OFPP_IN_PORT, max_len=0)],
        # the stored packet goes (also) to the controller: a new packet-in,
        # and a new buffer, while the old one is being released
        [dict(type=0, port=OA.OFPP_CONTROLLER, max_len=40)],
        [dict(type=0, port=2, max_len=0),
         dict(type=0, port=OA.OFPP_CONTROLLER, max_len=0xffff)],
        # ... and the action list goes on rewriting after the copy for the
        # controller was taken: what is stored is the packet as it was then
        [dict(type=0, port=OA.OFPP_CONTROLLER, max_len=0xffff),
         dict(type=4, dl_addr=b"\x0a" * 6), dict(type=0, port=3, max_len=0)],
        [dict(type=5, dl_addr=b"\x0b" * 6),
         dict(type=0, port=OA.OFPP_CONTROLLER, max_len=64),
         dict(type=4, dl_addr=b"\x0c" * 6), dict(type=0, port=2, max_len=0)],
        # ... rewriting below the Ethernet header (the stored packet's inner
        # headers are its own as well)
        [dict(type=0, port=OA.OFPP_CONTROLLER, max_len=0xffff),
         dict(type=6, nw_addr=0x01020304), dict(type=10, tp_port=53),
         dict(type=0, port=3, max_len=0)],
        [dict(type=0, port=OA.OFPP_CONTROLLER, max_len=64),
         dict(type=1, vlan_vid=7), dict(type=2, vlan_pcp=5),
         dict(type=0, port=2, max_len=0)],
        [dict(type=8, nw_tos=0x28),
         dict(type=0, port=OA.OFPP_CONTROLLER, max_len=0xffff),
         dict(type=7, nw_addr=0xc0a80001), dict(type=9, tp_port=80),
         dict(type=0, port=OA.OFPP_FLOOD, max_len=0)],
        # the stored packet is sent through the table again (packet_out only):
        # it misses once more - or hits one of the send-to-controller entries -
        # and is announced anew, with a buffer of its own; what the rest of
        # the list rewrites afterwards is not what that buffer holds
        [dict(type=0, port=OA.OFPP_TABLE, max_len=0),
         dict(type=4, dl_addr=b"\x0a" * 6), dict(type=0, port=3, max_len=0)],
        [dict(type=5, dl_addr=b"\x0b" * 6), dict(type=0, port=OA.OFPP_TABLE, max_len=0),
         dict(type=6, nw_addr=0x01020304), dict(type=9, tp_port=53),
         dict(type=4, dl_addr=b"\x0c" * 6), dict(type=0, port=2, max_len=0)],
        [dict(type=0, port=OA.OFPP_TABLE, max_len=0)],
        [dict(type=0, port=2, max_len=0), dict(type=0, port=OA.OFPP_TABLE, max_len=0),
         dict(type=1, vlan_vid=7), dict(type=0, port=3, max_len=0)]]


def frame (uid, dst, size):
  payload = struct.pack("!L", uid) + bytes((uid + i) & 0xff for i in range(size))
  # (every third an IPv4/UDP datagram, every third VLAN-tagged: the rewrites
  #  of the action lists have headers to work on)
  if uid % 3 == 1:
    return F.eth(dst, SRC, 0x0800, F.ipv4("10.0.0.1", "10.0.0.2", 17, F.udp(
      1000 + uid % 1000, 2000, payload, src="10.0.0.1", dst="10.0.0.2"), ident=uid & 0xffff))
  if uid % 3 == 2:
    return F.eth(dst, SRC, 0x0800, F.ipv4("10.0.0.3", "10.0.0.4", 6, F.tcp(
      3000, 4000 + uid % 1000, payload, src="10.0.0.3", dst="10.0.0.4")), vlan=(1, 0, 100))
  return F.eth(dst, SRC, 0x88b5, payload)


def run_history (case, rep):
  def fire (key, what):
    rep.violation("C18 " + key, what, case)
  pool = case["pool"]
  miss0 = case.get("miss0", 128)
  sw = simnet.DirectSwitch(dpid=DPID, ports=NPORTS, max_buffers=pool,
                           miss_send_len=miss0)
  # the buffer count the switch *advertises* is the bound
  sw.feed(ofwire.enc_message("features_request", dict(xid=2)))
  try:
    fr_ = [m for m in ofwire.dec_stream(sw.take_bytes()) if m["name"] == "features_reply"]
  except ofwire.WireError:
    fr_ = []
  if len(fr_) != 1:
    fire("no features reply", ""); return True
  rep.count("advertised_buffer_counts_read")
  if fr_[0]["n_buffers"] != pool:
    fire("advertised buffer count is not the size of the pool",
         "n_buffers %d, pool %d" % (fr_[0]["n_buffers"], pool)); return True
  cfg = {p: 0 for p in range(1, NPORTS + 1)}
  # entries that send to the controller
  blob = b""
  for dst, ml in zip(CTRL_DST, CTRL_MAXLEN):
    m = dict(ALLM); m["dl_dst"] = dst; m["wildcards"] = OM.FW_ALL & ~OM.FW_DL_DST
    blob += ofwire.enc_message("flow_mod", dict(
      xid=1, match=m, cookie=0, command=0, idle_timeout=0, hard_timeout=0,
      priority=10, buffer_id=NO_BUFFER, out_port=0xffff, flags=0,
      actions=[dict(type=0, port=OA.OFPP_CONTROLLER, max_len=ml)]))
  sw.feed(blob)
  if sw.take_bytes():
    fire("setup flow_mod rejected", ""); return True
  # one port may be told not to cause packet-ins for what misses the table:
  # such a frame is not announced - and takes no buffer either
  quiet = case.get("quiet_port")
  if quiet:
    hwq = [p_["hw_addr"] for p_ in fr_[0]["ports"] if p_["port_no"] == quiet]
    sw.feed(ofwire.enc_message("port_mod", dict(
      xid=3, port_no=quiet, hw_addr=hwq[0], config=64, mask=64, advertise=0)))
    if [m for m in ofwire.dec_stream(sw.take_bytes()) if m["name"] == "error"]:
      fire("setup port_mod rejected", ""); return True
  miss_len = miss0
  outstanding = {}      # id -> (frame bytes, in_port)
  released = []         # ids used at least once
  ever = set()
  uid = 0
  xid = 100
  nt = False
  extra_flows = 0
  def judge_pin (m, raw, in_port, reason, limit, releasing=0):
    """One packet-in against the model pool.  releasing: buffers that are
    being released by the very operation that produced this packet-in (they
    may or may not count as occupied while it is stored)."""
    nonlocal nt
    rep.count("packet_ins")
    if m["in_port"] != in_port or m["reason"] != reason:
      fire("packet-in in_port/reason", "%d/%d vs %d/%d" %
           (m["in_port"], m["reason"], in_port, reason)); return False
    bid = m["buffer_id"]
    if bid == NO_BUFFER:
      if len(outstanding) + releasing < pool:
        fire("packet-in without buffer id although a buffer is free",
             "outstanding %d of %d" % (len(outstanding), pool)); return False
      if pool: rep.count("unbuffered_pool_full"); nt = True
      if m["data"] != raw:
        fire("unbuffered packet-in does not carry the whole frame",
             "data %d bytes, frame %d bytes" % (len(m["data"]), len(raw)))
        return False
      if m["total_len"] != len(raw):
        fire("unbuffered packet-in total_len", "%d vs %d" %
             (m["total_len"], len(raw))); return False
    else:
      rep.count("buffered")
      if bid in outstanding:
        fire("buffer id handed out while still outstanding",
             "id %d" % bid); return False
      if len(outstanding) >= pool:
        fire("more packets stored than the advertised buffer count",
             "pool %d, outstanding before this one %d" %
             (pool, len(outstanding))); return False
      if bid in ever: rep.count("ids_reused_after_release")
      ever.add(bid)
      outstanding[bid] = (raw, in_port)
      if len(m["data"]) > limit:
        fire("buffered packet-in carries more than the %s" %
             ("miss length" if reason == 0 else "action max_len"),
             "%d > %d" % (len(m["data"]), limit)); return False
      if m["data"] != raw[:len(m["data"])]:
        fire("packet-in data is not a prefix of the frame", ""); return False
      if len(m["data"]) < min(limit, len(raw)):
        fire("buffered packet-in carries less than allowed",
             "%d < min(%d, %d)" % (len(m["data"]), limit, len(raw)))
        return False
      if len(m["data"]) < len(raw): rep.count("truncated")
      if m["total_len"] != len(raw):
        fire("buffered packet-in total_len is not the frame length",
             "total_len %d, frame %d, data %d" %
             (m["total_len"], len(raw), len(m["data"])))
        return False
    return True

  for op in case["ops"]:
    k = op[0]
    xid += 1
    sw.take_out()
    if k == "wait":
      # the controller takes its time: an id it was given stays good (and the
      # packet stays stored) however long that is
      _clk[0].advance(op[1])
      rep.count("histories_in_which_time_passes_with_buffers_outstanding")
      continue
    if k in ("miss", "ctl"):
      uid += 1
      size = op[2]
      in_port = op[1]
      if k == "miss":
        # (to a station, to everybody, to a group - and to the addresses a
        #  bridge keeps to itself: spanning tree, LLDP, 802.1X.  What misses
        #  the table is announced the same way whoever it is for)
        dst = [bytes.fromhex(x) for x in (
          "020000000010", "020000000011", "ffffffffffff", "0180c2000000",
          "0180c200000e", "01005e000001", "0180c2000003", "020000000017",
          "012320000001", "0180c200000f", "020000000012")][uid % 11]
        limit = miss_len; reason = 0
      else:
        dst = CTRL_DST[op[3]]; limit = CTRL_MAXLEN[op[3]]; reason = 1
      raw = frame(uid, dst, size)
      padded = False
      if k == "miss" and uid % 6 == 1:
        # a short IPv4 frame padded to the Ethernet minimum, as it comes off
        # a wire: the frame the packet-in describes is the frame received,
        # padding included (total length, the prefix that travels)
        raw = frame(uid, dst, 1)
        raw = raw + b"\0" * max(0, 60 - len(raw))
        padded = True
        rep.count("padded_frames_missing_the_table")
      try:
        sw.inject(in_port, raw)
      except Exception:
        fire("frame processing raises", traceback.format_exc()[-600:]); return True
      out = sw.take_out()
      try:
        msgs = ofwire.dec_stream(sw.take_bytes())
      except ofwire.WireError as e:
        fire("switch emitted undecodable bytes", repr(e)); return True
      pins = [m for m in msgs if m["name"] == "packet_in"]
      if k == "miss" and quiet and in_port == quiet:
        rep.count("misses_on_a_port_that_may_not_cause_packet_ins")
        if msgs or out:
          fire("frame that misses the table on a NO_PACKET_IN port produced something",
               "%r, data-plane output %r" % ([m["name"] for m in msgs], [p for p, _ in out]))
          return True
        continue
      if len(pins) != 1 or len(msgs) != 1 or out:
        fire("arrival did not produce exactly one packet-in",
             "%r, data-plane output %r" % ([m["name"] for m in msgs],
                                           [p for p, _ in out]))
        return True
      if not judge_pin(pins[0], raw, in_port, reason, limit): return True
      if padded and pins[0]["buffer_id"] != NO_BUFFER:
        # (dropped again at once through its buffer id: how the switch would
        #  send a padded frame on is C12's business)
        bid = pins[0]["buffer_id"]
        sw.feed(ofwire.enc_message("packet_out", dict(
          xid=xid, buffer_id=bid, in_port=in_port, actions=[], data=b"")))
        outstanding.pop(bid, None); released.append(bid)
        if sw.take_out() or sw.take_bytes():
          fire("dropping a buffered packet produced output", ""); return True
    elif k in ("po", "fm", "fmrej", "stale", "bogus"):
      acts = ACTS[op[2] % len(ACTS)]
      if k != "po" and any(a["type"] == 0 and a["port"] == OA.OFPP_TABLE for a in acts):
        acts = ACTS[0]          # (only a packet_out may send to the table)
      both = False
      if k in ("po", "fm", "fmrej"):
        if not outstanding: continue
        ids = sorted(outstanding)
        bid = ids[op[1] % len(ids)]
      elif k == "stale":
        if not released: continue
        cand = [b for b in released if b not in outstanding]
        if not cand: continue
        bid = cand[op[1] % len(cand)]
        rep.count("stale_uses")
      else:
        live = sorted(outstanding)
        cands = [0, 1 << 31, pool + 1, 0x7fffffff, 1000]
        if live:
          # ids that differ from a live one only in high bits, or by the
          # size of the pool
          l0 = live[op[1] % len(live)]
          cands += [l0 | 0x80000000, l0 + 0x10000, l0 + 0x100, l0 + pool,
                    l0 + (1 << 24)]
        bid = cands[(op[1] * 7 + op[2]) % len(cands)]
        if bid in outstanding or bid == NO_BUFFER: continue
        rep.count("bogus_uses")
      if k == "fmrej":
        # a flow_mod that names the buffer but whose entry the switch refuses
        # (it overlaps an installed entry and asks for the overlap check, or
        # asks for an emergency entry): the id has been used all the same
        m = dict(ALLM); m["in_port"] = 59000 + op[1] % 7
        m["wildcards"] = OM.FW_ALL & ~OM.FW_IN_PORT
        raw_msg = ofwire.enc_message("flow_mod", dict(
          xid=xid, match=m, cookie=0, command=0 if op[1] % 3 else 9, idle_timeout=0,
          hard_timeout=0, priority=10, buffer_id=bid, out_port=0xffff,
          flags=2 if op[1] % 2 else 4, actions=acts))
      elif k == "fm":
        # the command varies: ADD of a new entry, MODIFY / MODIFY_STRICT of an
        # entry installed by an earlier step (only its actions change), MODIFY
        # that matches nothing (acts as ADD); the buffer applies to all of them
        variant = (op[1] // 5 + op[2]) % 4
        command = 0
        if variant in (1, 2) and extra_flows > 0:
          target = 60000 - (1 + op[1] % extra_flows)
          command = variant          # 1 = MODIFY, 2 = MODIFY_STRICT
          rep.count("flow_mod_modify_with_buffer")
        else:
          extra_flows += 1
          target = 60000 - extra_flows
          if variant == 3: command = 1
        m = dict(ALLM); m["in_port"] = target
        m["wildcards"] = OM.FW_ALL & ~OM.FW_IN_PORT
        raw_msg = ofwire.enc_message("flow_mod", dict(
          xid=xid, match=m, cookie=0, command=command, idle_timeout=0,
          hard_timeout=0, priority=1, buffer_id=bid, out_port=0xffff, flags=0,
          actions=acts))
      elif k in ("stale", "bogus") and (op[1] + op[2]) % 3 == 0:
        # an unknown or used id named by a flow_mod (ADD or MODIFY)
        extra_flows += 1
        m = dict(ALLM); m["in_port"] = 60000 - extra_flows
        m["wildcards"] = OM.FW_ALL & ~OM.FW_IN_PORT
        raw_msg = ofwire.enc_message("flow_mod", dict(
          xid=xid, match=m, cookie=0, command=op[1] % 2, idle_timeout=0,
          hard_timeout=0, priority=1, buffer_id=bid, out_port=0xffff, flags=0,
          actions=acts))
        rep.count("stale_or_bogus_ids_in_flow_mods")
      elif k in ("stale", "bogus") and (op[1] + op[2]) % 3 == 1:
        # ... or by a packet_out that also carries a frame of its own: the id
        # is what the message names, it is unknown, nothing is emitted (the
        # carried frame is no licence to send something else instead)
        raw_msg = ofwire.enc_message("packet_out", dict(
          xid=xid, buffer_id=bid, in_port=0xffff, actions=acts,
          data=frame(998000 + xid, CTRL_DST[0][:5] + b"\xee", 30)))
        rep.count("stale_or_bogus_ids_in_packet_outs_carrying_data")
      elif k in ("po", "fm") and (op[1] * 5 + op[2]) % 11 == 3:
        # the action list that comes with the id holds an action this switch
        # does not know (some vendor's): an error is in order; the id has been
        # used all the same (what, if anything, is sent is not judged)
        both = True
        acts = [dict(type=0, port=2, max_len=0),
                dict(type=0xffff, vendor=0x2320, body=b"\0\x01\0\0\0\0\0\0")]
        if k == "po":
          raw_msg = ofwire.enc_message("packet_out", dict(
            xid=xid, buffer_id=bid, in_port=0xffff, actions=acts, data=b""))
        else:
          extra_flows += 1
          m = dict(ALLM); m["in_port"] = 60000 - extra_flows
          m["wildcards"] = OM.FW_ALL & ~OM.FW_IN_PORT
          raw_msg = ofwire.enc_message("flow_mod", dict(
            xid=xid, match=m, cookie=0, command=0, idle_timeout=0,
            hard_timeout=0, priority=1, buffer_id=bid, out_port=0xffff, flags=0,
            actions=acts))
        rep.count("buffer_ids_used_with_an_action_the_switch_does_not_know")
      elif k == "po" and (op[1] * 3 + op[2]) % 7 == 0:
        # a packet_out that names the buffer *and* carries data: the id is
        # used (which of the two is sent is not judged)
        both = True
        acts = ACTS[0]
        raw_msg = ofwire.enc_message("packet_out", dict(
          xid=xid, buffer_id=bid, in_port=0xffff, actions=acts,
          data=frame(999000 + xid, CTRL_DST[0][:5] + b"\xee", 30)))
        rep.count("packet_outs_with_buffer_id_and_data")
      else:
        raw_msg = ofwire.enc_message("packet_out", dict(
          xid=xid, buffer_id=bid, in_port=0xffff, actions=acts, data=b""))
      try:
        sw.feed(raw_msg)
      except Exception:
        fire("exception escapes while using a buffer",
             traceback.format_exc()[-600:]); return True
      out = sw.take_out()
      try:
        msgs = ofwire.dec_stream(sw.take_bytes())
      except ofwire.WireError as e:
        fire("switch emitted undecodable bytes", repr(e)); return True
      if bid in outstanding:
        raw, in_port = outstanding.pop(bid)
        released.append(bid)
        nt = True
        rep.count("released_by_rejected_flow_mod" if k == "fmrej" else
                  "released_by_flow_mod" if k == "fm" else "released_by_packet_out")
        if both:
          if len(outstanding) > pool:
            fire("more packets stored than the advertised buffer count",
                 "%d > %d" % (len(outstanding), pool)); return True
          continue
        exp = []
        to_ctl = []
        for spec, fr, ml in OA.run(raw, acts):
          e = OA.expand(spec, in_port, cfg)
          if isinstance(e, list): exp += [(p, fr) for p in e]
          elif e == "controller": to_ctl.append((fr, ml, 1))
          elif e == "table":
            # through the table again, as it is at this point of the list: a
            # send-to-controller entry for its destination, or a miss
            rep.count("stored_packets_sent_through_the_table_again")
            d_ = bytes(fr[0:6])
            if d_ in CTRL_DST: to_ctl.append((fr, CTRL_MAXLEN[CTRL_DST.index(d_)], 1))
            elif quiet and in_port == quiet: pass
            else: to_ctl.append((fr, miss_len, 0))
        pins = [m for m in msgs if m["name"] == "packet_in"]
        if k == "fmrej":
          # whether the packet of a refused flow_mod is still sent through the
          # actions or just discarded is not judged (the reference switch
          # discards it, this one sends it); that the id is spent is - the
          # pool accounting and the stale uses that follow observe it
          if not [m for m in msgs if m["name"] == "error"]:
            fire("flow_mod that must be refused was not answered with an error",
                 "flags %d" % (2 if op[1] % 2 else 4)); return True
          if not out and not pins:
            pass
          elif sorted(out) != sorted(exp) or len(pins) != len(to_ctl):
            fire("refused flow_mod with a buffer emitted something else than "
                 "the stored packet through the given actions",
                 "emitted %r expected %r or nothing" %
                 ([(p, b[14:18].hex()) for p, b in out],
                  [(p, b[14:18].hex()) for p, b in exp]))
            return True
          else:
            for m, (fr, ml, rs) in zip(pins, to_ctl):
              if not judge_pin(m, fr, in_port, rs, ml, releasing=1): return True
          if len(outstanding) > pool:
            fire("more packets stored than the advertised buffer count",
                 "%d > %d" % (len(outstanding), pool)); return True
          continue
        if len(pins) != len(to_ctl):
          fire("output to the controller while using a buffer did not produce "
               "a packet-in", "%d packet-ins, %d expected" % (len(pins), len(to_ctl)))
          return True
        for m, (fr, ml, rs) in zip(pins, to_ctl):
          rep.count("rebuffered_during_release")
          if not judge_pin(m, fr, in_port, rs, ml, releasing=1): return True
        if sorted(out) != sorted(exp):
          fire("using a buffer id did not emit the stored packet through the "
               "given actions",
               "emitted %r expected %r" %
               ([(p, b[14:18].hex()) for p, b in out],
                [(p, b[14:18].hex()) for p, b in exp]))
          return True
        errs = [m for m in msgs if m["name"] == "error"]
        if errs:
          fire("valid buffer use answered with an error",
               "error(%d,%d)" % (errs[0]["type"], errs[0]["code"])); return True
      else:
        if out or any(m["name"] == "packet_in" for m in msgs):
          fire("unknown or already-used buffer id emitted a packet",
               "id %d emitted on %r%s" % (bid, [p for p, _ in out],
                                          " and to the controller" if not out else ""))
          return True
    elif k == "cfg":
      miss_len = op[1]
      sw.feed(ofwire.enc_message("set_config", dict(xid=xid, flags=0,
                                                    miss_send_len=miss_len)))
      sw.take_bytes()
    # pool bound, observed from outside: outstanding ids never exceed pool
    if len(outstanding) > pool:
      fire("more packets stored than the advertised buffer count",
           "%d > %d" % (len(outstanding), pool)); return True
  return nt


_clk = []


def do_case (case, rep):
  clock = simnet.VClock(7000.5)
  clock.install()      # (time passes only where a history says so)
  _clk[:] = [clock]
  try:
    nt = run_history(case, rep)
  except Exception:
    rep.violation("C18 harness-visible exception",
                  traceback.format_exc()[-900:], case)
    nt = True
  finally:
    clock.uninstall()
  rep.case(repr((case["pool"], case["ops"], case.get("miss0"), case.get("quiet_port"))).encode(),
           nontrivial=bool(nt))


def gen (rng, n, maxlen):
  for _ in range(n):
    pool = rng.choice([0, 1, 1, 2, 2, 3, 4])
    ops = []
    for _ in range(rng.randrange(2, maxlen)):
      r = rng.random()
      if r < 0.30:
        ops.append(["miss", rng.choice([1, 2, 3]), rng.choice([0, 10, 100, 124,
                                                               125, 200, 1000])])
      elif r < 0.48:
        ops.append(["ctl", rng.choice([1, 2]), rng.choice([0, 40, 60, 61, 300]),
                    rng.randrange(3)])
      elif r < 0.66:
        ops.append(["po", rng.randrange(8), rng.randrange(len(ACTS))])
      elif r < 0.73:
        ops.append(["fm", rng.randrange(8), rng.randrange(len(ACTS))])
      elif r < 0.76:
        ops.append(["fmrej", rng.randrange(8), rng.randrange(len(ACTS))])
      elif r < 0.85:
        ops.append(["stale", rng.randrange(8), rng.randrange(len(ACTS))])
      elif r < 0.93:
        ops.append(["bogus", rng.randrange(5), rng.randrange(len(ACTS))])
      else:
        ops.append(["cfg", rng.choice([0, 14, 64, 128, 0xffff])])
    if rng.random() < 0.3:
      for _ in range(rng.randrange(1, 4)):
        ops.insert(rng.randrange(len(ops) + 1),
                   ["wait", rng.choice([0.5, 2.5, 6, 31, 61, 700, 4000, 90000])])
    case = dict(pool=pool, ops=ops)
    if rng.random() < 0.4: case["miss0"] = rng.choice([0, 14, 64, 0xffff])
    if rng.random() < 0.3:
      case["quiet_port"] = 4
      for o in ops:
        if o[0] == "miss" and rng.random() < 0.5: o[1] = 4
    yield case


def plan (tier, seed):
  if tier == "quick":
    return [dict(n=400, maxlen=20, sub=i) for i in range(16)]
  return [dict(n=30000, maxlen=60, sub=i) for i in range(48)]


def run (spec, rep):
  rng = random.Random("c18/%d/%d" % (spec["seed"], spec["sub"]))
  first = True
  for case in gen(rng, spec["n"], spec["maxlen"]):
    do_case(case, rep)
    if first: rep.sample(case); first = False


def replay (witness, rep):
  do_case(witness, rep)
