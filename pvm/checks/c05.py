"""
C05 - event delivery order, halting and unsubscription are exact.

Scripted handlers on real EventMixin sources; an online monitor (executable
model of the statement) watches every handler invocation, every raise and
every (un)subscription, including those made from inside handlers.
"""
import gc
import itertools
import random
import traceback

ID = "C05"
LEVEL = "exploration"
RULE = ("a case is a history of subscribe/unsubscribe/raise/drop-owner "
        "operations on one event source whose handlers follow scripts "
        "(return values, re-entrant subscribe/unsubscribe/raise, exceptions); "
        "small histories are enumerated exhaustively, longer ones drawn from "
        "VERIF_SEED; non-trivial = at least one delivery with >=2 handlers "
        "invoked or a handler-initiated mutation; distinct = distinct history")
ASSUMPTIONS = ["handlers removed by *another* party while a delivery that "
               "already included them is in progress may or may not still be "
               "invoked in that delivery (statement leaves it open)",
               "handlers subscribed during a delivery are unconstrained for "
               "that delivery except 'not twice'"]
REQUIRED = ["histories_with_very_many_subscriptions", "deliveries", "invocations", "reentrant_sub", "reentrant_sub_prio",
            "reentrant_unsub", "reentrant_raise", "halts", "once_consumed",
            "handler_exceptions", "noerrors_swallowed", "undeclared_rejected",
            "sources_declaring_at_run_time_only",
            "histories_with_one_handler_subscribed_several_times",
            "weak_dropped", "handler_revent_errors",
            "noerrors_swallowed_with_reporting_hook_on",
            "lazily_initialised_sources", "halts_through_the_event_attribute",
            "sinks_bound_with_several_handlers",
            "handlers_returning_plain_values",
            "histories_with_one_shot_and_permanent_subscriptions_of_one_callable"]
TIMEOUT = {"quick": 600, "thorough": 5400}

RETS = ["none", "true", "false", "cont", "halt", "remove", "haltremove"]
# values a handler may return that are no request at all (a count, a flag kept
# as a number, a string): they neither halt nor unsubscribe, however much 0 and
# 1 look like False and True
PLAIN_RETS = {"zero": 0, "one": 1, "fzero": 0.0, "fone": 1.0, "text": "ok",
              "empty": "", "two": 2}
PRIOS = [0, 5, -1, 0, 0, 5, 0.5, 1.5, 1.2, 1.9, -0.5, 4.5, 10 ** 12]   # (any number is a priority: fractions order between the integers)


class ScriptedAbort (BaseException):
  """A handler failure that is not an Exception subclass (as SystemExit or
  KeyboardInterrupt are): "never propagates a handler's exception" has no
  carve-out for those."""
  pass


class MonitorFired (Exception):
  pass


class Sub (object):
  __slots__ = ("sid", "type", "prio", "once", "weak", "script", "seq",
               "alive", "consumed", "removed_at", "removed_by_other_at",
               "ninv", "token", "owner_alive", "handler", "src")


class Delivery (object):
  __slots__ = ("type", "start", "snapshot", "invoked", "pos", "halted",
               "aborted", "order", "src", "attr")


class World (object):
  """One source, its model and the monitor."""
  def __init__ (self, rep, case):
    import pox.lib.revent.revent as R
    self.R = R
    self.rep = rep
    self.case = case
    class E0 (R.Event):
      def __init__ (self, *a, **k):
        R.Event.__init__(self); self.a = a; self.k = k
    class E1 (R.Event):
      def __init__ (self, *a, **k):
        R.Event.__init__(self); self.a = a; self.k = k
    class EX (R.Event):
      pass
    class E0b (E0):
      pass                      # a subclass of a declared type is not declared
    flavour = case.get("flavour", 0)
    if flavour == 1:
      # a source that overrides __init__ without calling the base class
      # (most POX sources do): the mixin initialises itself on first use
      class Src (R.EventMixin):
        _eventMixin_events = set([E0, E1])
        def __init__ (self): self.mine = 1
    elif flavour == 2:
      # events declared in a base class of the source
      class Base (R.EventMixin):
        _eventMixin_events = set([E0, E1])
      class Src (Base):
        def __init__ (self): self.mine = 2
    elif flavour == 3:
      # events added after the fact
      class Src (R.EventMixin):
        _eventMixin_events = set([E0])
        def __init__ (self):
          self._eventMixin_addEvents([E1])
    elif flavour == 4:
      # no declaration in the class at all: every instance declares its
      # types when it is made; a neighbour of another class, made first and
      # alive all along, declares other types for itself (what one source
      # declares is nobody else's)
      class Src (R.EventMixin):
        def __init__ (self): self._eventMixin_addEvents([E0, E1])
      class Neighbour (R.EventMixin):
        def __init__ (self): self._eventMixin_addEvents([EX, E0b])
      self.neighbour = Neighbour()
      rep.count("sources_declaring_at_run_time_only")
    else:
      class Src (R.EventMixin):
        _eventMixin_events = set([E0, E1])
    if flavour: rep.count("lazily_initialised_sources")
    self.types = [E0, E1]
    self.EX = EX
    self.E0b = E0b
    # several instances of one source class: what is subscribed on one must
    # not be reachable through another
    self.srcs = [Src() for _ in range(case.get("nsrc", 1))]
    self.src = self.srcs[0]
    self.nraise = 0
    self.subs = []
    self.clock = 0
    self.stack = []
    self.owners = {}
    self.fired = []
    self.depth = 0
    self.flags = set()

  # -- monitor plumbing
  def fire (self, key, what):
    self.fired.append((key, what))
    self.rep.violation("C05 " + key, what, self.case)

  def tick (self):
    self.clock += 1
    return self.clock

  # -- operations (used by top level and by handler scripts)
  def do_sub (self, t, prio, once, weak, how, script, inside=False):
    w = self
    s = Sub()
    s.sid = len(self.subs); s.type = t; s.prio = prio; s.once = once
    s.weak = weak; s.script = script; s.alive = True; s.consumed = False
    s.removed_at = None; s.removed_by_other_at = None; s.ninv = 0
    s.owner_alive = True
    s.src = s.sid % len(self.srcs)
    src = self.srcs[s.src]
    class Owner (object):
      def _handle_E0 (self_, event, *a, **k):
        return w.on_invoke(s, event, a, k)
      def _handle_E1 (self_, event, *a, **k):
        return w.on_invoke(s, event, a, k)
    if s.sid % 3 == 1:
      # an owner object whose truth value is False (an empty container-like
      # component): alive is not the same as truthy
      class EmptyOwner (Owner):
        def __len__ (self_): return 0
      o = EmptyOwner()
      self.rep.count("falsy_owners")
    else:
      o = Owner()
    self.owners[s.sid] = o
    handler = o._handle_E0 if t == 0 else o._handle_E1
    s.handler = None if weak else handler
    T = self.types[t]
    kw = {}
    if prio is not None and (prio != 0 or how == "kwprio"): kw["priority"] = prio
    if once: kw["once"] = True
    if weak: kw["weak"] = True
    try:
      if how == "byname":
        tok = src.addListenerByName(T.__name__, handler, **kw)
      elif how == "add_listener":
        tok = src.add_listener(handler, event_type=T, **kw)
      elif how == "add_listener_name":
        tok = src.add_listener(handler, event_name=T.__name__, **kw)
      elif how == "infer":
        tok = src.add_listener(handler, **kw)
      elif how == "autobind" and not once:
        # bind exactly one _handle_ method through addListeners()
        class One (object): pass
        one = One()
        setattr(one, "_handle_" + T.__name__, handler)
        kw.pop("once", None)
        toks = src.addListeners(one, **kw)
        if len(toks) != 1:
          self.fire("autobind count", "addListeners bound %d handlers for one "
                    "_handle_ method" % len(toks))
        tok = toks[0] if toks else None
      else:
        tok = src.addListener(T, handler, **kw)
    except Exception as e:
      self.fire("subscribe raises %s" % type(e).__name__,
                "subscribe(how=%s,prio=%r,once=%r,weak=%r) raised %r" %
                (how, prio, once, weak, e))
      return None
    s.seq = self.tick()
    s.token = tok
    self.subs.append(s)
    if (not isinstance(tok, tuple) or len(tok) != 2 or tok[0] is not T):
      self.fire("subscribe token", "addListener returned %r" % (tok,))
    if inside:
      self.rep.count("reentrant_sub")
      if prio not in (0, None): self.rep.count("reentrant_sub_prio")
      self.flags.add("mut")
    return s

  def do_autobind2 (self, prio, weak, prefix, via):
    """
    One sink object with a handler for each of the two event types, bound in
    one call: addListeners(sink[, prefix=...]) or sink.listenTo(source).  Two
    subscriptions result, each with its own token.
    """
    w = self
    R = self.R
    subs = []
    for t in (0, 1):
      s = Sub()
      s.sid = len(self.subs) + len(subs); s.type = t; s.prio = prio; s.once = False
      s.weak = weak; s.script = []; s.alive = True; s.consumed = False
      s.removed_at = None; s.removed_by_other_at = None; s.ninv = 0
      s.owner_alive = True; s.src = (len(self.subs)) % len(self.srcs)
      s.handler = None
      subs.append(s)
    src = self.srcs[subs[0].src]
    pre = ("_" + prefix) if prefix else ""
    ns = {}
    def mk (s):
      def h (self_, event, *a, **k): return w.on_invoke(s, event, a, k)
      return h
    ns["_handle%s_%s" % (pre, self.types[0].__name__)] = mk(subs[0])
    ns["_handle%s_%s" % (pre, self.types[1].__name__)] = mk(subs[1])
    # a look-alike that must not be bound (another prefix / no such event)
    ns["_handle_zz_%s" % self.types[0].__name__] = lambda self_, e: w.fire(
      "handler with another prefix was bound", "")
    Sink = type("Sink", (R.EventMixin,), ns)
    sink = Sink()
    kw = {}
    if prio: kw["priority"] = prio
    if weak: kw["weak"] = True
    if prefix: kw["prefix"] = prefix
    try:
      if via == "listenTo":
        toks = sink.listenTo(src, **kw)
      else:
        toks = src.addListeners(sink, **kw)
    except Exception as e:
      self.fire("bulk subscribe raises %s" % type(e).__name__, repr(e)); return
    self.rep.count("sinks_bound_with_several_handlers")
    toks = list(toks or [])
    if len(toks) != 2:
      self.fire("autobind count", "%d handlers bound for a sink with two "
                "_handle_ methods (prefix %r, via %s)" % (len(toks), prefix, via))
      return
    for s in subs:
      tk = [x for x in toks if isinstance(x, tuple) and x and x[0] is self.types[s.type]]
      if len(tk) != 1:
        self.fire("subscribe token", "tokens %r" % (toks,)); return
      s.token = tk[0]
      s.seq = self.tick()
      self.owners[s.sid] = None
      self.subs.append(s)
    self.sinks = getattr(self, "sinks", []) + [sink]

  def do_unsub (self, s, method, by=None):
    """by: the Sub whose handler is doing this (None = top level)."""
    if s is None or s.token is None: return
    T = self.types[s.type]
    tok = s.token
    src = self.srcs[s.src]
    h = self.owners.get(s.sid)
    hh = None
    if h is not None:
      hh = h._handle_E0 if s.type == 0 else h._handle_E1
    if hh is None and method in ("handler", "handler_type"):
      method = "pair"     # we no longer hold the handler object
    also = []
    try:
      if method == "handler":
        if s.weak: r = src.removeListener(tok)      # proxy is not ours
        else: r = src.removeListener(hh)
      elif method == "handler_type":
        if s.weak: r = src.removeListener(tok)
        else: r = src.removeListener(hh, T)
      elif method == "eid":
        r = src.removeListener(tok[1])
      elif method == "eid_type":
        r = src.removeListener(tok[1], T)
      elif method == "pair":
        r = src.removeListener(tok)
      elif method == "pair_type":
        r = src.removeListener(tok, T)
      else:
        # the bulk form, with up to two more live subscriptions in the same
        # call (given as (type, id) pair and as bare id)
        others = [o for o in self.subs if o is not s and o.alive
                  and o.token is not None and o.src == s.src][:2]
        toks = [tok] + [(o.token if i == 0 else o.token[1])
                        for i, o in enumerate(others)]
        if others: self.rep.count("bulk_unsubscribes")
        r = src.removeListeners(toks)
        also = others
    except Exception as e:
      self.fire("unsubscribe method=%s raises %s" % (method, type(e).__name__),
                "removeListener via %s raised %r" % (method, e))
      return
    for x in [s] + also:
      if x.alive:
        x.alive = False
        x.removed_at = self.tick()
        if by is x:
          x.consumed = True
        else:
          x.removed_by_other_at = x.removed_at
    if by is not None:
      self.rep.count("reentrant_unsub")
      self.flags.add("mut")

  def expected_snapshot (self, t, src=0):
    m = [s for s in self.subs if s.type == t and s.alive and s.src == src]
    m.sort(key=lambda s: (-(s.prio or 0), s.seq))
    return m

  def do_raise (self, t, form, noerr, inside=False):
    R = self.R
    T = self.types[t]
    d = Delivery()
    self.nraise += 1
    d.src = self.nraise % len(self.srcs)
    src = self.srcs[d.src]
    d.type = t; d.start = self.tick(); d.snapshot = self.expected_snapshot(t, d.src)
    d.invoked = []; d.pos = -1; d.halted = False; d.aborted = None; d.attr = False
    d.order = {s.sid: i for i, s in enumerate(d.snapshot)}
    self.stack.append(d)
    self.rep.count("deliveries")
    if inside:
      self.rep.count("reentrant_raise"); self.flags.add("mut")
    f = src.raiseEventNoErrors if noerr else src.raiseEvent
    ev = None
    exc = None
    rv = None
    saved = R.handleEventException
    R.handleEventException = None
    hooked = []
    hk = self.nraise % 4
    if noerr and hk == 1:
      # the reporting hook switched on (a recording one)
      def hook (source, event, args, kw, exc_info):
        hooked.append(exc_info[1])
      R.handleEventException = hook
    elif noerr and hk == 2:
      # the hook POX's core installs, with its logger captured
      try:
        import pox.core as PC
        import logging
        lg = logging.getLogger("c05-hook"); lg.propagate = False
        if not lg.handlers: lg.addHandler(logging.NullHandler())
        real = PC._revent_exception_hook
        def hook (source, event, args, kw, exc_info):
          hooked.append(exc_info[1])
          saved_log = PC.log
          PC.log = lg
          try: return real(source, event, args, kw, exc_info)
          finally: PC.log = saved_log
        R.handleEventException = hook
      except Exception:
        pass
    try:
      try:
        if form == "instance":
          ev = T(1, x=2)
          rv = f(ev)
        elif form == "instance_args":
          ev = T()
          rv = f(ev, 7, k=8)
        else:
          rv = f(T, 3, y=4)
      except BaseException as e:
        exc = e
    finally:
      R.handleEventException = saved
      self.stack.pop()
    # ---- judge the delivery
    if d.aborted is not None:
      self.rep.count("handler_exceptions")
      if noerr:
        if exc is not None:
          self.fire("noerrors propagates %s" % type(exc).__name__,
                    "raiseEventNoErrors let %r escape" % (exc,))
        else:
          self.rep.count("noerrors_swallowed")
          if R.handleEventException is None and hk in (1, 2) and False: pass
          if hk in (1, 2):
            self.rep.count("noerrors_swallowed_with_reporting_hook_on")
            if len(hooked) != 1 or hooked[0] is not d.aborted:
              # (nested suppressed raises report to the same hook)
              if d.aborted not in hooked:
                self.fire("suppressed handler exception not reported to the hook",
                          "hook saw %r, handler raised %r" % (hooked, d.aborted))
      else:
        if exc is None:
          pass    # swallowing is not forbidden by the statement
        elif exc is not d.aborted:
          self.fire("raise propagates other exception %s" %
                    type(exc).__name__, "handler raised %r, raiser saw %r" %
                    (d.aborted, exc))
    else:
      if exc is not None:
        self.fire("raise raises %s with no handler failing" %
                  type(exc).__name__, "%r\n%s" %
                  (exc, "".join(traceback.format_tb(exc.__traceback__))[-600:]))
    if d.halted: self.rep.count("halts")
    if not d.halted and d.aborted is None and exc is None:
      for s in d.snapshot:
        if s in d.invoked: continue
        if s.consumed or (s.removed_by_other_at is not None
                          and s.removed_by_other_at > d.start):
          continue
        self.fire("handler skipped",
                  "delivery of E%d: subscribed handler #%d (prio %r) was not "
                  "invoked; invoked=%r snapshot=%r" %
                  (t, s.sid, s.prio, [x.sid for x in d.invoked],
                   [x.sid for x in d.snapshot]))
        break
    if len(d.invoked) >= 2: self.flags.add("multi")
    if exc is None and d.aborted is None:
      if form != "class" and rv is not ev:
        self.fire("raise return value", "raiseEvent(instance) returned %r" %
                  (rv,))
      if form == "class" and d.invoked and not isinstance(rv, T):
        self.fire("raise return value class form",
                  "raiseEvent(class) returned %r" % (rv,))
    return d

  def on_invoke (self, s, event, a, k):
    rep = self.rep
    rep.count("invocations")
    if not self.stack:
      self.fire("invoked outside any delivery", "handler #%d" % s.sid)
      return None
    d = self.stack[-1]
    if s.src != d.src:
      self.fire("invoked for a raise on another source of the same class",
                "handler #%d is subscribed on source %d, the event was raised "
                "on source %d" % (s.sid, s.src, d.src))
      return None
    if s.type != d.type:
      self.fire("invoked for other event type", "handler #%d" % s.sid)
    if not isinstance(event, self.types[d.type]):
      self.fire("handler got wrong event object", repr(event))
    elif event.source is not self.srcs[d.src]:
      self.fire("event.source not set", repr(event.source))
    if d.halted:
      self.fire("invoked after halt",
                "handler #%d invoked after an earlier handler halted the event"
                % s.sid)
    if s in d.invoked:
      self.fire("invoked twice in one delivery",
                "handler #%d (prio %r) invoked twice; so far %r" %
                (s.sid, s.prio, [x.sid for x in d.invoked]))
    if s.consumed:
      self.fire("invoked after %s" % ("one-shot already fired" if s.once
                                      else "asking to be removed"),
                "handler #%d invoked again (ninv=%d)" % (s.sid, s.ninv))
    elif not s.alive and not (s.removed_by_other_at is not None and
                              s.removed_by_other_at > d.start):
      self.fire("invoked though unsubscribed",
                "handler #%d was unsubscribed before this raise" % s.sid)
    if s.sid in d.order:
      i = d.order[s.sid]
      if i < d.pos:
        self.fire("out of order",
                  "handler #%d (prio %r, sub order %d) invoked after #%d" %
                  (s.sid, s.prio, i, d.snapshot[d.pos].sid))
      else:
        for j in range(d.pos + 1, i):
          m = d.snapshot[j]
          if m in d.invoked: continue
          if m.consumed or (m.removed_by_other_at is not None
                            and m.removed_by_other_at > d.start):
            continue
          self.fire("handler skipped",
                    "handler #%d invoked while earlier-ordered #%d (prio %r) "
                    "was not" % (s.sid, m.sid, m.prio))
        d.pos = i
    elif s.seq < d.start and s.alive:
      self.fire("monitor inconsistency", "alive pre-existing sub not in snapshot")
    d.invoked.append(s)
    k_inv = s.ninv
    s.ninv += 1
    if s.once:
      s.consumed = True
      if s.alive:
        s.alive = False
        s.removed_at = self.tick()
      rep.count("once_consumed")
    step = s.script[k_inv] if k_inv < len(s.script) else [["ret", "none"]]
    ret = None
    sethalt = False
    for act in step:
      op = act[0]
      if op == "sub":
        _, t, prio, once, script = act
        self.do_sub(s.type if t == "same" else t, prio, once, False,
                    "addListener", script, inside=True)
      elif op == "unsub":
        _, ref, method = act
        tgt = self.resolve(ref, s)
        self.do_unsub(tgt, method, by=s)
      elif op == "raise":
        _, t, form, noerr = act
        if len(self.stack) < 4:
          self.do_raise(s.type if t == "same" else t, form, noerr, inside=True)
      elif op == "sethalt":
        event.halt = True
        sethalt = True
      elif op == "exc":
        kind = act[1] if len(act) > 1 else None
        if kind == "base":
          e = ScriptedAbort("scripted non-Exception failure in #%d" % s.sid)
          self.rep.count("handler_base_exceptions")
        elif kind == "revent":
          # what a handler gets when it, in turn, misuses an event source
          e = self.R.ReventError("scripted ReventError in #%d" % s.sid)
          self.rep.count("handler_revent_errors")
        elif kind == "undeclared":
          try:
            self.srcs[d.src].raiseEvent(self.EX())
            e = RuntimeError("undeclared raise inside a handler was accepted")
          except self.R.ReventError as ex:
            e = ex
          self.rep.count("handler_revent_errors")
        elif kind in ("kbd", "sysexit", "genexit"):
          e = dict(kbd=KeyboardInterrupt, sysexit=SystemExit,
                   genexit=GeneratorExit)[kind]("scripted %s in #%d" % (kind, s.sid))
          self.rep.count("handler_base_exceptions")
        else:
          e = RuntimeError("scripted failure in #%d" % s.sid)
        d.aborted = e
        if s.once or False:
          pass
        raise e
      elif op == "ret":
        ret = act[1]
    R = self.R
    val = {"none": None, "true": True, "false": False,
           "cont": R.EventContinue, "halt": R.EventHalt,
           "remove": R.EventRemove, "haltremove": R.EventHaltAndRemove}
    val.update(PLAIN_RETS)
    val = val[ret or "none"]
    if ret in PLAIN_RETS: self.rep.count("handlers_returning_plain_values")
    if ret in ("true", "halt", "haltremove"):
      d.halted = True
    if sethalt: d.attr = True
    if d.attr and (ret in ("cont", "remove", "false") or ret in PLAIN_RETS):
      # halt requested through the event's attribute: it takes effect at the
      # next handler (this one included) that returns something other than
      # None; with None returns it is not judged
      d.halted = True
      self.rep.count("halts_through_the_event_attribute")
    if ret in ("false", "remove", "haltremove"):
      s.consumed = True
      if s.alive:
        s.alive = False
        s.removed_at = self.tick()
    if s.once and s.alive:
      s.alive = False
      s.removed_at = self.tick()
    return val

  def resolve (self, ref, me):
    if ref == "self": return me
    if ref == "next":
      c = [x for x in self.subs if x.type == me.type and x.alive
           and x is not me and x.seq > me.seq]
      return c[0] if c else None
    if ref == "prev":
      c = [x for x in self.subs if x.type == me.type and x.alive
           and x is not me and x.seq < me.seq]
      return c[-1] if c else None
    if ref == "first":
      c = self.expected_snapshot(me.type, me.src)
      return c[0] if c else None
    if ref == "last":
      c = self.expected_snapshot(me.type, me.src)
      return c[-1] if c else None
    if isinstance(ref, int):
      return self.subs[ref] if ref < len(self.subs) else None
    return None


def run_history (case, rep):
  w = World(rep, case)
  R = w.R
  for op in case["ops"]:
    k = op[0]
    if k == "sub":
      _, t, prio, once, weak, how, script = op
      w.do_sub(t, prio, once, weak, how, script)
    elif k == "autobind2":
      _, prio, weak, prefix, via = op
      w.do_autobind2(prio, weak, prefix, via)
    elif k == "unsub":
      _, idx, method = op
      if idx < len(w.subs): w.do_unsub(w.subs[idx], method)
    elif k == "raise":
      _, t, form, noerr = op
      w.do_raise(t, form, noerr)
    elif k == "drop":
      # the owner of a weak subscription goes away
      _, idx = op
      if idx < len(w.subs):
        s = w.subs[idx]
        if s.weak and s.alive and s.sid in w.owners:
          del w.owners[s.sid]
          gc.collect()
          s.alive = False; s.removed_at = w.tick(); s.consumed = True
          rep.count("weak_dropped")
        elif not s.weak and s.sid in w.owners and s.alive:
          # strong subscription: dropping our reference must NOT unsubscribe
          del w.owners[s.sid]
          gc.collect()
    elif k == "undeclared":
      _, which = op
      try:
        if which == "sub":
          w.src.addListener(w.EX, lambda e: None)
        elif which == "sub_name":
          w.src.addListenerByName("NoSuchEvent", lambda e: None)
        elif which == "raise":
          w.src.raiseEvent(w.EX())
        elif which == "sub_subclass":
          # types related to a declared one are not declared either
          w.srcs[-1].addListener(w.E0b, lambda e: None)
        elif which == "raise_subclass":
          w.srcs[-1].raiseEvent(w.E0b())
        elif which == "sub_base":
          w.srcs[-1].addListener(R.Event, lambda e: None)
        elif which == "sub_name_prefix":
          w.srcs[-1].addListenerByName(w.types[0].__name__[:1], lambda e: None)
        elif which == "sub_name_longer":
          w.srcs[-1].addListenerByName(w.types[0].__name__ + "0", lambda e: None)
        elif which == "sub_name_case":
          w.srcs[-1].addListenerByName(w.types[0].__name__.lower(), lambda e: None)
        else:
          w.src.raiseEventNoErrors(w.EX())
        w.fire("undeclared accepted op=%s" % which,
               "%s of an undeclared event type did not raise" % which)
      except R.ReventError:
        rep.count("undeclared_rejected")
      except Exception as e:
        w.fire("undeclared raises %s op=%s" % (type(e).__name__, which),
               repr(e))
    # listener count agrees with the model after every top-level operation
    try:
      n = sum(x._eventMixin_get_listener_count() for x in w.srcs)
    except AttributeError:
      n = None
    if n is not None:
      m = sum(1 for s in w.subs if s.alive)
      if n != m:
        w.fire("listener count", "source reports %d listeners, model has %d "
               "after %r" % (n, m, op))
  nontrivial = bool(w.flags)
  return nontrivial


def run_dups (case, rep):
  """
  One handler subscribed several times (the API allows it: every subscription
  has its own id), next to another handler; then unsubscribed *by handler*.
  Every subscription of that handler is gone - whether they sit next to each
  other in the delivery order or not - and the other handler's stay.
  case: subs = [(who, type, priority)], how = removal form, during = the
  removal is made by the other handler while an event is being delivered.
  """
  import pox.lib.revent.revent as R
  def fire (key, what):
    rep.violation("C05 " + key, what, case)
  class E0 (R.Event): pass
  class E1 (R.Event): pass
  class Src (R.EventMixin):
    _eventMixin_events = set([E0, E1])
  src = Src()
  T = [E0, E1]
  log = []
  state = dict(remove_now=False, removed=None)
  def h (e): log.append(("h", type(e).__name__))
  def g (e):
    log.append(("g", type(e).__name__))
    if state["remove_now"]:
      state["remove_now"] = False
      state["removed"] = remove()
  def remove ():
    how = case["how"]
    if how == "handler": return src.removeListener(h)
    if how == "handler_type": return src.removeListener(h, eventType=T[0])
    if how == "handler_kw": return src.removeListener(h, T[0])
    return src.removeListeners([h])
  fn = dict(h=h, g=g)
  rep.count("histories_with_one_handler_subscribed_several_times")
  for who, t, prio in case["subs"]:
    kw = {}
    if prio: kw["priority"] = prio
    src.addListener(T[t], fn[who], **kw)
  # what must be left afterwards
  typed = case["how"] in ("handler_type", "handler_kw")
  left = [(who, t, prio) for who, t, prio in case["subs"]
          if not (who == "h" and (t == 0 or not typed))]
  had = len(left) != len(case["subs"])
  try:
    if case.get("during"):
      # g (highest priority, so it runs first) removes h while E0 is being
      # delivered: no subscription of h behind it is served any more
      src.addListener(T[0], g, priority=1000)
      left.append(("g", 0, 1000))
      state["remove_now"] = True
      src.raiseEvent(E0())
      first = list(log); del log[:]
      if [x for x in first if x[0] == "h"]:
        fire("handler invoked after it was unsubscribed (same handler subscribed several times)",
             "removed by an earlier handler during delivery; still delivered: %r" % (first,))
        return True
      res = state["removed"]
    else:
      res = remove()
  except Exception:
    fire("unsubscribe by handler raises", traceback.format_exc()[-400:]); return True
  if case["how"] != "bulk" and bool(res) != had:
    fire("unsubscribe result", "removeListener returned %r, %s" %
         (res, "subscriptions were removed" if had else "nothing to remove"))
    return True
  for t in (0, 1):
    del log[:]
    src.raiseEvent(T[t]())
    want = sorted(who for who, tt, prio in left if tt == t)
    got = sorted(who for who, _ in log)
    if got != want:
      fire("handler invoked after it was unsubscribed (same handler subscribed several times)"
           if got.count("h") > want.count("h") else "handler skipped",
           "after removal (%s) of h from %r: event %d reached %r, expected %r" %
           (case["how"], case["subs"], t, got, want))
      return True
  n = src._eventMixin_get_listener_count()
  if n != len(left):
    fire("listener count", "source reports %d listeners, %d expected" % (n, len(left)))
  return True


def run_dups_once (case, rep):
  """
  One callable subscribed several times, some of the subscriptions one-shot:
  every subscription is its own (it has its own id); a one-shot one is
  consumed by the delivery that reaches it and takes nothing else with it.
  case: subs = [(once, priority)], bound = the callable is a bound method
  (a fresh but equal object at every subscription), raises = how many events.
  """
  import pox.lib.revent.revent as R
  def fire (key, what):
    rep.violation("C05 " + key, what, case)
  class E0 (R.Event): pass
  class Src (R.EventMixin):
    _eventMixin_events = set([E0])
  src = Src()
  log = []
  class Owner (object):
    def m (self, e): log.append("h")
  owner = Owner()
  def hf (e): log.append("h")
  def g (e): log.append("g")
  rep.count("histories_with_one_shot_and_permanent_subscriptions_of_one_callable")
  src.addListener(E0, g)
  for once, prio in case["subs"]:
    src.addListener(E0, owner.m if case.get("bound") else hf, once=bool(once),
                    priority=prio)
  permanent = len([1 for once, _ in case["subs"] if not once])
  want = [len(case["subs"])] + [permanent] * (case["raises"] - 1)
  got = []
  for _ in range(case["raises"]):
    del log[:]
    try:
      src.raiseEvent(E0())
    except Exception:
      fire("raiseEvent raises", traceback.format_exc()[-400:]); return
    if log.count("g") != 1:
      fire("another handler's subscription disturbed by a one-shot one",
           "g ran %d times" % log.count("g")); return
    got.append(log.count("h"))
  if got != want:
    fire("one-shot subscription of a callable that is also subscribed otherwise",
         "subscriptions (once, priority) %r: invocations per event %r, expected %r" %
         (case["subs"], got, want))


def gen_dups_once ():
  shapes = [[1], [1, 0], [0, 1], [1, 1], [0, 1, 0], [1, 0, 1], [1, 1, 0, 0], [0, 0, 1]]
  for shape in shapes:
    for prios in ([0] * len(shape), list(range(len(shape))),
                  list(range(len(shape), 0, -1)), [5, 5, 1, 1][:len(shape)]):
      for bound in (False, True):
        yield dict(kind="dups_once", subs=[[o, p] for o, p in zip(shape, prios)],
                   bound=bound, raises=3)


def gen_dups ():
  import itertools
  shapes = [["h", "h"], ["h", "h", "h"], ["h", "g", "h"], ["g", "h", "h"], ["h", "h", "g"],
            ["g", "h", "h", "g", "h"], ["h", "h", "h", "h"], ["h"], ["g"]]
  for shape in shapes:
    for prios in ([0] * len(shape), list(range(len(shape))), [5, 5, 1, 1, 9][:len(shape)]):
      for types in ([0] * len(shape), [i % 2 for i in range(len(shape))]):
        for how in ("handler", "handler_type", "handler_kw", "bulk"):
          for during in (False, True):
            yield dict(kind="dups", how=how, during=during,
                       subs=[[w_, t_, p_] for w_, t_, p_ in zip(shape, types, prios)])


def do_case (case, rep):
  if case.get("kind") == "dups_once":
    try:
      run_dups_once(case, rep)
    except Exception:
      rep.violation("C05 harness-visible exception", traceback.format_exc()[-1200:], case)
    rep.case(repr(sorted(case.items())), nontrivial=True)
    return
  if case.get("kind") == "dups":
    try:
      run_dups(case, rep)
    except Exception:
      rep.violation("C05 harness-visible exception", traceback.format_exc()[-1200:], case)
    rep.case(repr(sorted(case.items())), nontrivial=True)
    return
  try:
    nt = run_history(case, rep)
  except Exception:
    rep.violation("C05 harness-visible exception",
                  traceback.format_exc()[-1200:], case)
    nt = True
  rep.case(repr((case["ops"], case.get("nsrc"), case.get("flavour"))), nontrivial=nt)


# --------------------------------------------------------------------------
# generators

def behaviours ():
  """Small alphabet of handler scripts for the exhaustive part."""
  B = []
  for r in ("none", "true", "remove", "haltremove", "false", "zero", "one"):
    B.append([[["ret", r]]])
  B.append([[["exc"]]])
  B.append([[["exc", "base"]]])
  B.append([[["exc", "revent"]]])
  B.append([[["sethalt"], ["ret", "cont"]]])
  for prio in (0, 5, -1):
    B.append([[["sub", "same", prio, False, []], ["ret", "none"]]])
  B.append([[["sub", "same", 5, True, []], ["ret", "none"]]])
  B.append([[["unsub", "self", "eid"], ["ret", "none"]]])
  B.append([[["unsub", "next", "handler"], ["ret", "none"]]])
  B.append([[["unsub", "prev", "pair"], ["ret", "none"]]])
  B.append([[["raise", "same", "instance", False], ["ret", "none"]]])
  B.append([[["raise", "same", "class", True], ["ret", "remove"]]])
  B.append([[["raise", "same", "instance", False], ["sub", "same", 5, False, []],
             ["ret", "none"]]])
  return B


def gen_exhaustive (nsubs, shard, nshards):
  B = behaviours()
  subs = [("sub", 0, p, o, False, "addListener", b)
          for p in (0, 5, -1) for o in (False, True) for b in B]
  i = 0
  for combo in itertools.product(subs, repeat=nsubs):
    i += 1
    if i % nshards != shard: continue
    ops = [list(c) for c in combo]
    ops += [["raise", 0, "instance", False], ["raise", 0, "class", True],
            ["raise", 0, "instance", False]]
    yield dict(ops=ops)


def rand_script (rng, depth):
  n = rng.choice([0, 1, 1, 2, 3])
  out = []
  for _ in range(n):
    step = []
    for _ in range(rng.choice([0, 0, 1, 1, 2])):
      r = rng.random()
      if r < 0.35 and depth < 2:
        step.append(["sub", rng.choice(["same", "same", 0, 1]),
                     rng.choice(PRIOS), rng.random() < 0.3,
                     rand_script(rng, depth + 1)])
      elif r < 0.65:
        step.append(["unsub", rng.choice(["self", "next", "prev", "first",
                                          "last", rng.randrange(6)]),
                     rng.choice(["handler", "handler_type", "eid", "eid_type",
                                 "pair", "pair_type", "list"])])
      elif r < 0.92:
        step.append(["raise", rng.choice(["same", "same", 0, 1]),
                     rng.choice(["instance", "class", "instance_args"]),
                     rng.random() < 0.5])
      else:
        step.append(["exc"] if rng.random() < 0.5 else
                    ["exc", rng.choice(["base", "base", "revent", "undeclared", "kbd",
                                        "sysexit", "genexit"])])
    if rng.random() < 0.08:
      step.append(["sethalt"])
    step.append(["ret", rng.choice(RETS + ["none", "none", "none"] +
                                   (list(PLAIN_RETS) if rng.random() < 0.3 else []))])
    out.append(step)
  return out


def gen_random (rng, n, maxlen):
  for _ in range(n):
    ops = []
    nsub = 0
    for _ in range(rng.randrange(2, maxlen)):
      r = rng.random()
      if r < 0.42 or nsub == 0:
        weak = rng.random() < 0.15
        how = rng.choice(["addListener"] * 4 + ["byname", "add_listener",
                          "add_listener_name", "infer", "autobind", "kwprio"])
        ops.append(["sub", rng.randrange(2), rng.choice(PRIOS),
                    rng.random() < 0.25, weak, how, rand_script(rng, 0)])
        nsub += 1
      elif r < 0.45:
        ops.append(["autobind2", rng.choice([0, 0, 5, -1]), False,
                    rng.choice([None, None, "p", "x_y"]),
                    rng.choice(["addListeners", "addListeners", "listenTo"])])
        nsub += 2
      elif r < 0.55:
        ops.append(["unsub", rng.randrange(nsub + 2),
                    rng.choice(["handler", "handler_type", "eid", "eid_type",
                                "pair", "pair_type", "list"])])
      elif r < 0.62:
        ops.append(["drop", rng.randrange(nsub)])
      elif r < 0.67:
        ops.append(["undeclared", rng.choice(["sub", "sub_name", "raise",
                                              "raise_noerr", "sub_subclass",
                                              "raise_subclass", "sub_base",
                                              "sub_name_prefix", "sub_name_longer",
                                              "sub_name_case"])])
      else:
        ops.append(["raise", rng.randrange(2),
                    rng.choice(["instance", "class", "instance_args"]),
                    rng.random() < 0.5])
    case = dict(ops=ops)
    r = rng.random()
    if r < 0.35: case["nsrc"] = rng.choice([2, 2, 3])
    if rng.random() < 0.35: case["flavour"] = rng.randrange(1, 5)
    yield case


def gen_mass (rng, sizes):
  """Very many subscriptions on one source: hundreds to thousands of handlers
  of mixed priority, some one-shot, some halting or unsubscribing themselves
  when called; deliveries, bulk removal by every form, deliveries again."""
  for n in sizes:
    ops = []
    for i in range(n):
      script = rand_script(rng, 0) if rng.random() < 0.1 else []
      ops.append(["sub", i % 2, rng.choice(PRIOS), rng.random() < 0.1, False,
                  rng.choice(["addListener", "addListener", "byname", "kwprio"]), script])
    ops += [["raise", 0, "instance", False], ["raise", 1, "class", True]]
    for _ in range(min(n // 2, 40)):
      ops.append(["unsub", rng.randrange(n), rng.choice(["handler", "eid", "eid_type",
                                                       "pair", "handler_type"])])
    ops += [["raise", 0, "instance", True], ["raise", 1, "instance", False],
            ["sub", 0, rng.choice(PRIOS), False, False, "addListener", []],
            ["raise", 0, "instance", False]]
    yield dict(ops=ops, mass=n)


def gen_weak (rng, n):
  for _ in range(n):
    ops = []
    k = rng.randrange(1, 5)
    for i in range(k):
      ops.append(["sub", 0, rng.choice(PRIOS), False, rng.random() < 0.6,
                  "addListener", []])
    ops.append(["raise", 0, "instance", False])
    for i in rng.sample(range(k), k):
      ops.append(["drop", i])
      ops.append(["raise", 0, rng.choice(["instance", "class"]), False])
    yield dict(ops=ops)


def plan (tier, seed):
  if tier == "quick":
    sp = [dict(mode="exh", nsubs=1, shard=0, nshards=1)]
    sp += [dict(mode="exh", nsubs=2, shard=i, nshards=4) for i in range(4)]
    sp += [dict(mode="rand", n=5000, maxlen=16, sub=i) for i in range(10)]
    sp += [dict(mode="weak", n=400)]
    sp += [dict(mode="dups")]
    sp += [dict(mode="mass", sizes=[33, 70, 130, 300]), dict(mode="mass", sizes=[1100])]
    return sp
  sp = [dict(mode="exh", nsubs=1, shard=0, nshards=1)]
  sp += [dict(mode="exh", nsubs=2, shard=i, nshards=2) for i in range(2)]
  sp += [dict(mode="exh", nsubs=3, shard=i, nshards=48) for i in range(48)]
  sp += [dict(mode="rand", n=60000, maxlen=40, sub=i) for i in range(32)]
  sp += [dict(mode="weak", n=5000)]
  sp += [dict(mode="dups")]
  sp += [dict(mode="mass", sizes=[17 + i, 65 + i, 257 + i, 1025 + i], sub=i) for i in range(8)]
  sp += [dict(mode="mass", sizes=[4100 + i], sub=10 + i) for i in range(4)]
  return sp


def run (spec, rep):
  rng = random.Random("c05/%d/%s/%d" % (spec["seed"], spec["mode"],
                                         spec.get("sub", 0)))
  if spec["mode"] == "exh":
    g = gen_exhaustive(spec["nsubs"], spec["shard"], spec["nshards"])
  elif spec["mode"] == "rand":
    g = gen_random(rng, spec["n"], spec["maxlen"])
  elif spec["mode"] == "dups":
    import itertools
    g = itertools.chain(gen_dups(), gen_dups_once())
  elif spec["mode"] == "mass":
    g = gen_mass(rng, spec["sizes"])
  else:
    g = gen_weak(rng, spec["n"])
  first = True
  for case in g:
    if case.get("mass"):
      rep.count("histories_with_very_many_subscriptions")
      rep.maxi("subscriptions_on_one_source", case["mass"])
    do_case(case, rep)
    if first and not case.get("mass"): rep.sample(case); first = False


def replay (witness, rep):
  do_case(witness, rep)
