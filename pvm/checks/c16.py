"""
C16 - address types parse, print, compare and mask as the standards say.

Oracle: the standard library's `ipaddress` module (independent
implementation) plus algebraic laws.  Every case is a small JSON dict that
`do_case` evaluates against the real pox.lib.addresses / pox.lib.util.
"""
import ipaddress
import random
import struct
import sys

ID = "C16"
LEVEL = "exploration"
RULE = ("cases are (kind, arguments) tuples over IPv4/IPv6/Ethernet addresses, "
        "prefix lengths, textual forms and dpids; boundary values are "
        "enumerated, the rest drawn from VERIF_SEED; a case is non-trivial "
        "when it evaluates at least one oracle comparison; distinct = "
        "distinct (kind, arguments)")
ASSUMPTIONS = ["python stdlib ipaddress is a correct reference for numeric "
               "value, membership, masks and RFC 5952 text",
               "IPv4 text accepted by libc inet_aton but not dotted-quad is "
               "outside the must-reject set"]
REQUIRED = ["prefix_lengths_out_of_range", "compared_with_related_addresses_of_another_family", "ip4", "ip4net", "ip4cidr", "ip4bad", "ip6", "ip6net", "ip6bad",
            "eth", "ethbad", "dpid", "laws", "immut"]
TIMEOUT = {"quick": 600, "thorough": 7200}

KINDS = ["ip4", "ip4net", "ip4cidr", "ip4bad", "ip6", "ip6net", "ip6bad",
         "eth", "ethbad", "dpid", "laws", "immut", "ip4mask", "ip6mask"]


def plan (tier, seed):
  if tier == "quick":
    return [dict(kinds=[k], n=1) for k in KINDS]
  out = []
  for k in KINDS:
    for i in range(6):
      out.append(dict(kinds=[k], n=20, sub=i))
  return out


# --------------------------------------------------------------------------
# helpers

def _A ():
  import pox.lib.addresses as A
  return A


def _fail (rep, key, what, case):
  rep.violation("C16 " + key, what, case)


def _raises (f, *a, **k):
  try:
    f(*a, **k)
  except Exception as e:
    return e
  return None


def dq (v):
  return "%d.%d.%d.%d" % ((v >> 24) & 255, (v >> 16) & 255, (v >> 8) & 255,
                          v & 255)


# --------------------------------------------------------------------------
# case evaluators: each returns nothing; report through rep

def case_ip4 (c, rep):
  A = _A()
  v = c["v"]
  ref = ipaddress.IPv4Address(v)
  text = str(ref)
  packed = ref.packed
  native_n = struct.unpack("I", packed)[0]      # network-order bytes read natively
  forms = {
    "str": lambda: A.IPAddr(text),
    "bytes4": lambda: A.IPAddr(packed),
    "bytearray4": lambda: A.IPAddr(bytearray(packed)),
    "bytes_text": lambda: A.IPAddr(text.encode()),
    "int_host": lambda: A.IPAddr(v),
    "int_net": lambda: A.IPAddr(native_n, networkOrder=True),
    "copy": lambda: A.IPAddr(A.IPAddr(text)),
    "signed_host": lambda: A.IPAddr(v - (1 << 32) if v & 0x80000000 else v),
    # (the round trip the byte-order flag exists for, negative values included)
    "signed_net": lambda: A.IPAddr(native_n - (1 << 32) if native_n & 0x80000000
                                   else native_n, networkOrder=True),
    "bytearray_text": lambda: A.IPAddr(bytearray(text.encode())),
  }
  for name, mk in forms.items():
    try:
      a = mk()
    except Exception as e:
      _fail(rep, "ip4 construct form=%s raises %s" % (name, type(e).__name__),
            "IPAddr from %s of %s raised %r" % (name, text, e), c)
      continue
    obs = dict(str=str(a), raw=a.raw, toRaw=a.toRaw(), u=a.toUnsigned(),
               un=a.toUnsigned(networkOrder=True), s=a.toSigned(),
               sn=a.toSigned(networkOrder=True), uh=a.unsigned_h,
               unn=a.unsigned_n, ln=len(a), rep=repr(a))
    exp = dict(str=text, raw=packed, toRaw=packed, u=v, un=native_n,
               s=(v - (1 << 32) if v & 0x80000000 else v),
               sn=(native_n - (1 << 32) if native_n & 0x80000000 else native_n),
               uh=v, unn=native_n, ln=4, rep="IPAddr('%s')" % text)
    for k in exp:
      if obs[k] != exp[k]:
        _fail(rep, "ip4 form=%s accessor=%s" % (name, k),
              "IPAddr(%s via %s).%s = %r, reference %r" %
              (text, name, k, obs[k], exp[k]), c)
    # canonical text re-parses to an equal address
    b = A.IPAddr(str(a))
    if not (b == a) or (b != a) or hash(b) != hash(a):
      _fail(rep, "ip4 reparse", "%s does not re-parse equal" % text, c)
  rep.count("ip4")


def case_ip4net (c, rep):
  A = _A()
  v, n, b = c["v"], c["net"], c["bits"]
  mask = ((1 << b) - 1) << (32 - b)
  netv = n & mask
  refnet = ipaddress.IPv4Network((netv, b))
  expect = ipaddress.IPv4Address(v) in refnet
  a = A.IPAddr(dq(v))
  nets = dq(netv)
  masks = dq(mask)
  forms = {
    "tuple_addr": lambda: a.inNetwork((A.IPAddr(nets), b)),
    "tuple_str": lambda: a.inNetwork((nets, b)),
    "slash_bits": lambda: a.inNetwork("%s/%d" % (nets, b)),
    "slash_mask": lambda: a.inNetwork("%s/%s" % (nets, masks)),
    "arg_bits": lambda: a.inNetwork(nets, b),
    "arg_mask": lambda: a.in_network(nets, netmask=masks),
    "arg_addr_mask": lambda: a.in_network(A.IPAddr(nets), masks),
  }
  for name, f in forms.items():
    try:
      got = f()
    except Exception as e:
      _fail(rep, "ip4 inNetwork form=%s raises %s" % (name, type(e).__name__),
            "%s in %s/%d via %s raised %r" % (dq(v), nets, b, name, e), c)
      continue
    if bool(got) != expect or not isinstance(got, bool):
      _fail(rep, "ip4 inNetwork form=%s" % name,
            "%s in %s/%d via %s = %r, reference %r" %
            (dq(v), nets, b, name, got, expect), c)
  # get_network
  for arg, an in ((b, "bits"), (masks, "mask")):
    try:
      ga, gb = a.get_network(arg)
      if gb != b or ga.toUnsigned() != (v & mask) or type(ga) is not A.IPAddr:
        _fail(rep, "ip4 get_network arg=%s" % an,
              "%s.get_network(%r) = (%s,%s), reference (%s,%d)" %
              (dq(v), arg, ga, gb, dq(v & mask), b), c)
    except Exception as e:
      _fail(rep, "ip4 get_network arg=%s raises %s" % (an, type(e).__name__),
            "%s.get_network(%r) raised %r" % (dq(v), arg, e), c)
  rep.count("ip4net")


def classful_bits (v):
  if v == 0: return 0
  t = v >> 24
  if t < 128: b = 8
  elif t < 192: b = 16
  elif t < 224: b = 24
  else: b = 32
  if v & ((1 << (32 - b)) - 1): return 32
  return b


def case_ip4cidr (c, rep):
  A = _A()
  v, b = c["v"], c["bits"]
  mask = ((1 << b) - 1) << (32 - b)
  host = v & ~mask & 0xffffffff
  text = dq(v)
  for sfx, name in (("/%d" % b, "bits"), ("/" + dq(mask), "mask")):
    for allow_host in (False, True):
      for viaclass in (False, True):
        f = A.IPAddr.parse_cidr if viaclass else A.parse_cidr
        try:
          r = f(text + sfx, allow_host=allow_host)
          ok = True
        except Exception as e:
          ok = False; r = e
        should = allow_host or host == 0
        if ok != should:
          _fail(rep, "ip4 parse_cidr form=%s allow_host=%s %s" %
                (name, allow_host, "rejects valid" if should else
                 "accepts non-zero host part"),
                "parse_cidr(%r, allow_host=%r) -> %r" %
                (text + sfx, allow_host, r), c)
        elif ok:
          if (r[1] != b or r[0].toUnsigned() != v
              or type(r[0]) is not A.IPAddr):
            _fail(rep, "ip4 parse_cidr form=%s value" % name,
                  "parse_cidr(%r) = %r, reference (%s,%d)" %
                  (text + sfx, r, text, b), c)
  # no slash: infer / no infer
  try:
    r = A.parse_cidr(text, infer=False)
    if r[1] != 32 or r[0].toUnsigned() != v:
      _fail(rep, "ip4 parse_cidr noslash infer=False",
            "parse_cidr(%r, infer=False) = %r" % (text, r), c)
  except Exception as e:
    _fail(rep, "ip4 parse_cidr noslash infer=False raises",
          "parse_cidr(%r, infer=False) raised %r" % (text, e), c)
  try:
    r = A.parse_cidr(text)
    eb = classful_bits(v)
    if r[1] != eb or r[0].toUnsigned() != v:
      _fail(rep, "ip4 parse_cidr classful inference",
            "parse_cidr(%r) = %r, classful reference /%d" % (text, r, eb), c)
    if A.infer_netmask(A.IPAddr(text)) != (
        0 if v == 0 else 8 if (v >> 24) < 128 else 16 if (v >> 24) < 192
        else 24 if (v >> 24) < 224 else 32):
      _fail(rep, "ip4 infer_netmask", "infer_netmask(%s) = %r" %
            (text, A.infer_netmask(A.IPAddr(text))), c)
  except Exception as e:
    _fail(rep, "ip4 parse_cidr noslash infer raises",
          "parse_cidr(%r) raised %r" % (text, e), c)
  rep.count("ip4cidr")


def case_ip4mask (c, rep):
  A = _A()
  m = c["mask"]
  inv = (~m) & 0xffffffff
  contiguous = (inv & (inv + 1)) == 0
  text = dq(m)
  for arg, an in ((text, "str"), (A.IPAddr(text), "addr")):
    try:
      r = A.netmask_to_cidr(arg); ok = True
    except Exception as e:
      r = e; ok = False
    if ok != contiguous:
      _fail(rep, "ip4 netmask_to_cidr %s" %
            ("rejects contiguous mask" if contiguous
             else "accepts non-contiguous mask"),
            "netmask_to_cidr(%s) -> %r" % (text, r), c)
    elif ok and r != bin(m).count("1"):
      _fail(rep, "ip4 netmask_to_cidr value",
            "netmask_to_cidr(%s) = %r" % (text, r), c)
  # as the mask part of a CIDR string
  try:
    r = A.parse_cidr("0.0.0.0/" + text); ok = True
  except Exception as e:
    r = e; ok = False
  if ok != contiguous:
    _fail(rep, "ip4 parse_cidr %s" %
          ("rejects contiguous netmask" if contiguous
           else "accepts non-contiguous netmask"),
          "parse_cidr('0.0.0.0/%s') -> %r" % (text, r), c)
  elif ok and r[1] != bin(m).count("1"):
    _fail(rep, "ip4 parse_cidr netmask value", "parse_cidr('0.0.0.0/%s') = %r"
          % (text, r), c)
  if contiguous:
    b = bin(m).count("1")
    r = A.cidr_to_netmask(b)
    if type(r) is not A.IPAddr or r.toUnsigned() != m:
      _fail(rep, "ip4 cidr_to_netmask", "cidr_to_netmask(%d) = %r" % (b, r), c)
  rep.count("ip4mask")


IP4_BAD = [
  "256.1.1.1", "1.256.1.1", "1.1.1.256", "1.2.3.4.5", "", "a.b.c.d",
  "1.2.3.x", "1..2.3", "1.2.3.4/33", "1.2.3.4/-1", "1.2.3.0/24/1x",
  "1.2.3.4/255.0.255.0", "1.2.3.4/0.255.255.255", "1.2.3.4/255.255.255.1",
  "1.2.3.4/24", "1.2.3.4/255.255.255.0", "10.0.0.1/8", "300.0.0.0/8",
  "1.2.3.4/abc", "1.2.3.4/", "/24", "1.2.3.4/128.255.255.255",
  "1.2.3.4/255.255.0.255", "-1.2.3.4", "1.2.3.-4", "1.2.3.4/1.2.3.4.5",
]


def case_ip4bad (c, rep):
  A = _A()
  t = c["text"]
  fs = []
  if "/" in t or c.get("cidr"):
    fs.append(("parse_cidr", lambda: A.parse_cidr(t, infer=False)))
    fs.append(("IPAddr.parse_cidr", lambda: A.IPAddr.parse_cidr(t, infer=False)))
    fs.append(("inNetwork", lambda: A.IPAddr("1.2.3.4").inNetwork(t)))
    if c.get("range"):
      # a prefix length outside 0..32 is no prefix length, whatever the
      # address in front of it and however the caller asks for it
      base, bits = t.split("/")
      fs.append(("parse_cidr(allow_host)", lambda: A.parse_cidr(t, allow_host=True)))
      fs.append(("IPAddr.parse_cidr(allow_host)",
                 lambda: A.IPAddr.parse_cidr(t, infer=False, allow_host=True)))
      fs.append(("in_network(net, bits)",
                 lambda: A.IPAddr("1.2.3.4").in_network(base, int(bits))))
      fs.append(("in_network(net, 'bits')",
                 lambda: A.IPAddr("0.0.0.0").in_network(base, bits)))
      fs.append(("inNetwork of the address itself", lambda: A.IPAddr(base).inNetwork(t)))
      rep.count("prefix_lengths_out_of_range")
  else:
    fs.append(("IPAddr", lambda: A.IPAddr(t)))
    fs.append(("IPAddr(bytes)", lambda: A.IPAddr(t.encode())
               if len(t.encode()) != 4 else (_ for _ in ()).throw(ValueError())))
    fs.append(("parse_cidr", lambda: A.parse_cidr(t)))
  for name, f in fs:
    try:
      r = f()
    except Exception:
      continue
    _fail(rep, "ip4 malformed accepted by %s class=%s" % (name, c["cls"]),
          "%s(%r) returned %r instead of rejecting" % (name, t, r), c)
  rep.count("ip4bad")


def ip6_texts (v, rng):
  """Accepted textual forms of the 128-bit value v (besides canonical)."""
  ref = ipaddress.IPv6Address(v)
  out = [("compressed", ref.compressed), ("exploded", ref.exploded),
         ("upper", ref.compressed.upper()),
         ("full_nolead", ":".join("%x" % ((v >> s) & 0xffff)
                                  for s in range(112, -16, -16)))]
  groups = [(v >> s) & 0xffff for s in range(112, -16, -16)]
  # mixed notation with the low 32 bits dotted
  hi = ":".join("%x" % g for g in groups[:6])
  out.append(("mixed_full", hi + ":" + dq(v & 0xffffffff)))
  # alternative placements of '::' over any zero run of length >= 1
  runs = []
  i = 0
  while i < 8:
    if groups[i] == 0:
      j = i
      while j < 8 and groups[j] == 0: j += 1
      for a in range(i, j):
        for b in range(a + 1, j + 1):
          runs.append((a, b))
      i = j
    else:
      i += 1
  rng.shuffle(runs)
  for a, b in runs[:4]:
    left = ":".join("%x" % g for g in groups[:a])
    right = ":".join("%x" % g for g in groups[b:])
    out.append(("altdrop", left + "::" + right))
    if b <= 6:
      right6 = ":".join("%x" % g for g in groups[b:6])
      out.append(("altdrop_mixed", left + "::" + right6 + (":" if right6 else "")
                  + dq(v & 0xffffffff)))
  return out


def case_ip6 (c, rep):
  A = _A()
  v = int(c["v"])
  rng = random.Random(v)
  ref = ipaddress.IPv6Address(v)
  packed = ref.packed
  mapped = (v >> 32) == 0xffff
  cons = [("raw_bytes", lambda: A.IPAddr6(packed, raw=True)),
          ("from_raw", lambda: A.IPAddr6.from_raw(packed)),
          ("raw_kw", lambda: A.IPAddr6(raw=packed)),
          ("bytearray", lambda: A.IPAddr6(bytearray(packed))),
          ("from_num", lambda: A.IPAddr6.from_num(v)),
          ("copy", lambda: A.IPAddr6(A.IPAddr6.from_raw(packed)))]
  if v == 0:
    # (no argument / None stand for the unspecified address)
    cons += [("none", lambda: A.IPAddr6(None)), ("default", lambda: A.IPAddr6())]
  for name, t in ip6_texts(v, rng):
    try:
      ipaddress.IPv6Address(t)
    except Exception:
      continue    # only forms the reference accepts
    cons.append(("text:" + name, (lambda t=t: A.IPAddr6(t))))
  for name, mk in cons:
    try:
      a = mk()
    except Exception as e:
      if name.startswith("text:alt"):
        # an unusual but valid spelling that the library does not accept:
        # the statement quantifies over *accepted* forms, rejecting is fine
        rep.count("ip6_alt_form_rejected")
        continue
      _fail(rep, "ip6 construct form=%s raises %s" % (name, type(e).__name__),
            "IPAddr6 of %s via %s raised %r" % (ref, name, e), c)
      continue
    if type(a) is not A.IPAddr6:
      _fail(rep, "ip6 construct form=%s returns %s" % (name, type(a).__name__),
            "IPAddr6 via %s of %s gives %r, not an address object" %
            (name, ref, a), c)
      continue
    if a.raw != packed or a.num != v or len(a) != 16:
      _fail(rep, "ip6 value form=%s" % name,
            "IPAddr6 via %s: raw=%s num=%x, reference %s" %
            (name, a.raw.hex(), a.num, packed.hex()), c)
      continue
    s = str(a)
    if not mapped:
      if s != ref.compressed:
        _fail(rep, "ip6 canonical text", "str = %r, RFC 5952 reference %r" %
              (s, ref.compressed), c)
    elif s != "::ffff:" + dq(v & 0xffffffff):
      # (RFC 5952 section 5: the mixed notation for IPv4-mapped addresses)
      _fail(rep, "ip6 canonical text of a mapped address",
            "str = %r, expected %r" % (s, "::ffff:" + dq(v & 0xffffffff)), c)
    # the fully written-out form is eight groups of four digits
    try:
      full = a.to_str(zero_drop=False, section_drop=False, ipv4=False)
      if full != ref.exploded:
        _fail(rep, "ip6 exploded text", "to_str(no drops) = %r, reference %r" %
              (full, ref.exploded), c)
    except Exception as e:
      _fail(rep, "ip6 exploded text raises %s" % type(e).__name__, repr(e), c)
    try:
      if int(ipaddress.IPv6Address(s)) != v:
        _fail(rep, "ip6 text denotes other address",
              "str = %r which denotes %s, expected %s" %
              (s, ipaddress.IPv6Address(s), ref), c)
    except Exception as e:
      _fail(rep, "ip6 text not valid", "str = %r rejected by reference: %r" %
            (s, e), c)
    for kw in (dict(), dict(zero_drop=False), dict(section_drop=False),
               dict(zero_drop=False, section_drop=False), dict(ipv4=False),
               dict(ipv4=True), dict(ipv4=True, section_drop=False)):
      try:
        t = a.to_str(**kw)
        b = A.IPAddr6(t)
        if not (b == a) or b != a or hash(b) != hash(a) or b.raw != packed:
          _fail(rep, "ip6 reparse opts=%s" % sorted(kw),
                "to_str(%r) = %r re-parses to %s" % (kw, t, b), c)
        if int(ipaddress.IPv6Address(t)) != v:
          _fail(rep, "ip6 to_str opts=%s wrong address" % sorted(kw),
                "to_str(%r) = %r" % (kw, t), c)
      except Exception as e:
        _fail(rep, "ip6 to_str opts=%s raises %s" %
              (sorted(kw), type(e).__name__),
              "to_str(%r) of %s raised %r" % (kw, ref, e), c)
    if repr(a) != "IPAddr6('%s')" % s:
      _fail(rep, "ip6 repr", repr(a), c)
    if mapped or (v >> 32) == 0:
      try:
        i4 = a.to_ipv4()
        if i4.toUnsigned() != (v & 0xffffffff):
          _fail(rep, "ip6 to_ipv4", "%s -> %s" % (ref, i4), c)
      except Exception as ex:
        _fail(rep, "ip6 to_ipv4 raises", "%s: %r" % (ref, ex), c)
  if mapped:
    a = A.IPAddr6(A.IPAddr(dq(v & 0xffffffff)))
    if a.raw != packed:
      _fail(rep, "ip6 from IPAddr", "IPAddr6(IPAddr(%s)) = %s" %
            (dq(v & 0xffffffff), a), c)
  rep.count("ip6")


def case_ip6net (c, rep):
  A = _A()
  v, n, b = int(c["v"]), int(c["net"]), c["bits"]
  mask = (((1 << b) - 1) << (128 - b)) if b else 0
  netv = n & mask
  refnet = ipaddress.IPv6Network((netv, b))
  expect = ipaddress.IPv6Address(v) in refnet
  a = A.IPAddr6.from_raw(ipaddress.IPv6Address(v).packed)
  nets = str(ipaddress.IPv6Address(netv))
  masks = str(ipaddress.IPv6Address(mask))
  na = A.IPAddr6.from_raw(ipaddress.IPv6Address(netv).packed)
  forms = {
    "tuple_addr": lambda: a.in_network((na, b)),
    "tuple_str": lambda: a.in_network((nets, b)),
    "slash_bits": lambda: a.in_network("%s/%d" % (nets, b)),
    "slash_mask": lambda: a.in_network("%s/%s" % (nets, masks)),
    "arg_bits": lambda: a.in_network(nets, b),
    "arg_mask": lambda: a.in_network(nets, netmask=masks),
    "arg_addr_bits": lambda: a.in_network(na, b),
  }
  for name, f in forms.items():
    try:
      got = f()
    except Exception as e:
      _fail(rep, "ip6 in_network form=%s raises %s" % (name, type(e).__name__),
            "%s in %s/%d via %s raised %r" %
            (ipaddress.IPv6Address(v), nets, b, name, e), c)
      continue
    if bool(got) != expect:
      _fail(rep, "ip6 in_network form=%s" % name,
            "%s in %s/%d via %s = %r, reference %r" %
            (ipaddress.IPv6Address(v), nets, b, name, got, expect), c)
  # parse_cidr on the address itself
  host = v & ~mask & ((1 << 128) - 1)
  at = str(ipaddress.IPv6Address(v))
  for sfx, name in (("/%d" % b, "bits"), ("/" + masks, "mask")):
    for allow_host in (False, True):
      try:
        r = A.IPAddr6.parse_cidr(at + sfx, allow_host=allow_host); ok = True
      except Exception as e:
        r = e; ok = False
      should = allow_host or host == 0
      if ok != should:
        _fail(rep, "ip6 parse_cidr form=%s allow_host=%s %s" %
              (name, allow_host, "rejects valid" if should
               else "accepts non-zero host part"),
              "IPAddr6.parse_cidr(%r, allow_host=%r) -> %r" %
              (at + sfx, allow_host, r), c)
      elif ok and (r[1] != b or type(r[0]) is not A.IPAddr6 or r[0].num != v):
        _fail(rep, "ip6 parse_cidr form=%s value" % name,
              "IPAddr6.parse_cidr(%r) = %r" % (at + sfx, r), c)
  # ... and without any prefix: a single address is its own /128
  try:
    r = A.IPAddr6.parse_cidr(at)
    if r[1] != 128 or r[0].num != v:
      _fail(rep, "ip6 parse_cidr of a bare address",
            "IPAddr6.parse_cidr(%r) = %r, expected /128" % (at, r), c)
    other = A.IPAddr6.from_num(v ^ 1)
    if not a.in_network(str(a)) and v == int(ipaddress.IPv6Address(str(a))):
      pass
    got_self = A.IPAddr6.from_num(v).in_network(at)
    got_other = other.in_network(at)
    if got_self is not True or got_other is not False:
      _fail(rep, "ip6 in_network of a bare address",
            "%s in %s = %r; its neighbour: %r" % (at, at, got_self, got_other), c)
  except Exception as e:
    _fail(rep, "ip6 parse_cidr of a bare address raises %s" % type(e).__name__, repr(e), c)
  rep.count("ip6net")


def case_ip6mask (c, rep):
  A = _A()
  m = int(c["mask"])
  full = (1 << 128) - 1
  inv = (~m) & full
  contiguous = (inv & (inv + 1)) == 0
  text = str(ipaddress.IPv6Address(m))
  ma = A.IPAddr6.from_raw(ipaddress.IPv6Address(m).packed)
  for arg, an in ((text, "str"), (ma, "addr")):
    try:
      r = A.IPAddr6.netmask_to_cidr(arg); ok = True
    except Exception as e:
      r = e; ok = False
    if ok != contiguous:
      _fail(rep, "ip6 netmask_to_cidr %s" %
            ("rejects contiguous mask" if contiguous
             else "accepts non-contiguous mask"),
            "IPAddr6.netmask_to_cidr(%s) -> %r" % (text, r), c)
    elif ok and r != bin(m).count("1"):
      _fail(rep, "ip6 netmask_to_cidr value", "%s -> %r" % (text, r), c)
  try:
    r = A.IPAddr6.parse_cidr("::/" + text); ok = True
  except Exception as e:
    r = e; ok = False
  if ok != contiguous:
    _fail(rep, "ip6 parse_cidr %s" %
          ("rejects contiguous netmask" if contiguous
           else "accepts non-contiguous netmask"),
          "IPAddr6.parse_cidr('::/%s') -> %r" % (text, r), c)
  elif ok and r[1] != bin(m).count("1"):
    _fail(rep, "ip6 parse_cidr netmask value",
          "IPAddr6.parse_cidr('::/%s') = %r" % (text, r), c)
  if contiguous:
    b = bin(m).count("1")
    try:
      r = A.IPAddr6.cidr_to_netmask(b)
      if type(r) is not A.IPAddr6:
        _fail(rep, "ip6 cidr_to_netmask returns %s" % type(r).__name__,
              "IPAddr6.cidr_to_netmask(%d) = %r, not an address" % (b, r), c)
      elif r.num != m:
        _fail(rep, "ip6 cidr_to_netmask value", "cidr_to_netmask(%d) = %s" %
              (b, r), c)
    except Exception as e:
      _fail(rep, "ip6 cidr_to_netmask raises", "%d: %r" % (b, e), c)
  rep.count("ip6mask")


JUNK = [("newline", "\n"), ("cr", "\r"), ("tab", "\t"), ("space", " "),
        ("nul", "\0"), ("vtab", "\x0b"), ("nbsp", "\xa0"),
        ("arabic_digit", "\u0661"), ("fullwidth_digit", "\uff11"),
        ("crlf", "\r\n")]


def ip6_bad_mutations (rng):
  """(class, text) of malformed IPv6 text; each is rejected by the reference."""
  out = []
  def groups ():
    return ["%x" % rng.choice([1, 0xffff, rng.randrange(1, 0xffff)])
            for _ in range(8)]
  g = groups()
  out.append(("seven_groups_no_drop", ":".join(g[:7])))
  out.append(("six_groups_no_drop", ":".join(g[:6])))
  out.append(("nine_groups", ":".join(g + ["1"])))
  out.append(("two_drops", g[0] + "::" + g[1] + "::" + g[2]))
  out.append(("five_hex_digits", ":".join(g[:7] + ["1" + "%04x" % int(g[7], 16)])))
  out.append(("illegal_char", ":".join(g[:7] + ["g"])))
  out.append(("lone_leading_colon", ":" + ":".join(g[:7])))
  out.append(("lone_trailing_colon", ":".join(g[:7]) + ":"))
  out.append(("lone_leading_colon_full", ":" + ":".join(g)))
  out.append(("triple_colon", g[0] + ":::" + g[1]))
  out.append(("drop_with_eight_groups", ":".join(g[:4]) + "::" + ":".join(g[4:])))
  out.append(("empty", ""))
  out.append(("single_colon", ":"))
  out.append(("negative_group", ":".join(g[:7] + ["-1"])))
  out.append(("mixed_bad_octet", "::ffff:1.2.3.256"))
  out.append(("mixed_too_many_groups", ":".join(g[:7]) + ":1.2.3.4"))
  out.append(("plus_sign_group", ":".join(g[:7] + ["+1"])))
  out.append(("hex_prefix_group", ":".join(g[:7] + ["0x1"])))
  out.append(("underscore_group", ":".join(g[:7] + ["1_0"])))
  out.append(("five_digits_leading_zero", ":".join(g[:7] + ["00001"])))
  out.append(("space_in_group", ":".join(g[:7] + [" 1"])))
  out.append(("extra_slash_part", "::/64/1"))
  out.append(("prefix_too_long", "::/129"))
  out.append(("prefix_negative", "::/-1"))
  out.append(("host_bits_set", "::1/64"))
  # a well-formed address with one stray character: at the end, at the
  # start, at the end of a group, inside a group (white space, controls,
  # digits that are not ASCII digits)
  good = ":".join(g)
  good2 = g[0] + "::" + g[1]
  for name, ch in JUNK:
    for base in (good, good2):
      p = base.index(":")
      out.append(("junk_%s_at_end" % name, base + ch))
      out.append(("junk_%s_at_start" % name, ch + base))
      out.append(("junk_%s_after_group" % name, base[:p] + ch + base[p:]))
      out.append(("junk_%s_before_group" % name, base[:p + 1] + ch + base[p + 1:]))
    # (stray white space around the prefix *length* is not judged: POX reads
    #  it with int(), which ignores it, and nothing is mis-parsed)
  # the dotted part of the mixed notation is an IPv4 address in its
  # strictest form: four decimal octets, nothing else
  for base in ("::ffff:", ":".join(g[:6]) + ":", g[0] + "::"):
    for cls, dotted in (("three_parts", "1.2.3"), ("two_parts", "1.2"), ("one_part", "7"),
                        ("five_parts", "1.2.3.4.5"), ("leading_zero_octet", "010.1.1.1"),
                        ("hex_octet", "0x10.1.1.1"), ("empty_octet", "1..2.3"),
                        ("trailing_dot", "1.2.3.4."), ("trailing_text", "1.2.3.4 junk"),
                        ("negative_octet", "1.2.3.-4"), ("plus_octet", "1.2.3.+4")):
      out.append(("mixed_dotted_" + cls, base + dotted))
    for name, ch in JUNK:
      out.append(("mixed_junk_%s_at_end" % name, base + "1.2.3.4" + ch))
      out.append(("mixed_junk_%s_inside" % name, base + "1.2" + ch + ".3.4"))
  out = [(cls, t) for cls, t in out]
  ok = []
  for cls, t in out:
    if "/" in t:
      try:
        ipaddress.IPv6Network(t); continue
      except Exception:
        ok.append((cls, t))
    else:
      try:
        ipaddress.IPv6Address(t); continue
      except Exception:
        ok.append((cls, t))
  return ok


def case_ip6bad (c, rep):
  A = _A()
  t = c["text"]
  if c.get("form") == "raw":
    n = int(t)
    for name, f in (("from_raw", lambda: A.IPAddr6.from_raw(b"\x20" * n)),
                    ("raw_kw", lambda: A.IPAddr6(raw=b"\x20" * n)),
                    ("bytearray", lambda: A.IPAddr6(bytearray(b"\x20" * n)))):
      try:
        r = f()
        sr = str(r)
      except Exception:
        continue
      _fail(rep, "ip6 raw value of the wrong length accepted by %s" % name,
            "%d octets gave %r" % (n, sr), c)
    rep.count("ip6bad")
    return
  if "/" in t:
    fs = [("IPAddr6.parse_cidr", lambda: A.IPAddr6.parse_cidr(t)),
          ("in_network", lambda: A.IPAddr6("::1").in_network(t))]
    if c.get("range"):
      base, bits = t.split("/")
      fs.append(("IPAddr6.parse_cidr(allow_host)",
                 lambda: A.IPAddr6.parse_cidr(t, allow_host=True)))
      fs.append(("in_network(net, bits)",
                 lambda: A.IPAddr6("::1").in_network(base, int(bits))))
      fs.append(("in_network of the address itself",
                 lambda: A.IPAddr6(base).in_network(t)))
      rep.count("prefix_lengths_out_of_range")
  else:
    fs = [("IPAddr6", lambda: A.IPAddr6(t))]
  for name, f in fs:
    try:
      r = f()
    except Exception:
      continue
    _fail(rep, "ip6 malformed accepted by %s class=%s" % (name, c["cls"]),
          "%s(%r) returned %r instead of rejecting" % (name, t, r), c)
  rep.count("ip6bad")


def case_eth (c, rep):
  A = _A()
  raw = c["raw"]
  canon = ":".join("%02x" % b for b in raw)
  forms = [("raw", lambda: A.EthAddr(raw)),
           ("colon", lambda: A.EthAddr(canon)),
           ("dash", lambda: A.EthAddr(canon.replace(":", "-"))),
           ("upper", lambda: A.EthAddr(canon.upper())),
           ("hex12", lambda: A.EthAddr(canon.replace(":", ""))),
           ("colon_bytes", lambda: A.EthAddr(canon.encode())),
           ("short", lambda: A.EthAddr(":".join("%x" % b for b in raw))),
           ("list", lambda: A.EthAddr(list(raw))),
           ("tuple", lambda: A.EthAddr(tuple(raw))),
           ("bytearray", lambda: A.EthAddr(bytearray(raw))),
           ("copy", lambda: A.EthAddr(A.EthAddr(raw))),
           # other six-element sequences (copied, not kept)
           ("array", lambda: A.EthAddr(__import__("array").array("B", raw))),
           ("memoryview", lambda: A.EthAddr(memoryview(bytes(raw))))]
  if raw == b"\0" * 6:
    forms.append(("none", lambda: A.EthAddr(None)))
  for name, mk in forms:
    if name == "short" and len(":".join("%x" % b for b in raw)) in (6, 12, 17):
      continue      # textual form is ambiguous with another accepted form
    if name in ("colon", "dash", "upper", "hex12", "colon_bytes") and False:
      continue
    try:
      a = mk()
    except Exception as e:
      _fail(rep, "eth construct form=%s raises %s" % (name, type(e).__name__),
            "EthAddr(%s via %s) raised %r" % (canon, name, e), c)
      continue
    exp = dict(str=canon, raw=raw, toRaw=raw, tup=tuple(raw), ln=6,
               rep="EthAddr('%s')" % canon, dash=canon.replace(":", "-"))
    if name in ("raw", "dash", "hex12", "list", "copy"):
      # a log line printed the address with its vendor's name first (and
      # another one with dashes): what the plain forms say afterwards is what
      # they always say
      try:
        t1 = a.to_str(resolve_names=True); t2 = a.to_str("-", True)
        rep.count("eth_addresses_printed_with_vendor_names_first")
        if not isinstance(t1, str) or not t1.endswith(canon[9:]):
          _fail(rep, "eth text with vendor name", "%r for %s" % (t1, canon), c)
      except Exception as e:
        _fail(rep, "eth accessor raises form=%s" % name,
              "EthAddr(%s).to_str(resolve_names=True): %r" % (canon, e), c)
    try:
      obs = dict(str=str(a), raw=a.raw, toRaw=a.toRaw(), tup=a.toTuple(),
                 ln=len(a), rep=repr(a), dash=a.toStr("-"))
    except Exception as e:
      _fail(rep, "eth accessor raises form=%s" % name,
            "EthAddr(%s via %s): %r" % (canon, name, e), c)
      continue
    for k in exp:
      if obs[k] != exp[k]:
        _fail(rep, "eth form=%s accessor=%s" % (name, k),
              "EthAddr(%s via %s).%s = %r, expected %r" %
              (canon, name, k, obs[k], exp[k]), c)
    b = A.EthAddr(str(a))
    if not (b == a) or b != a or hash(a) != hash(b):
      _fail(rep, "eth reparse", canon, c)
  rep.count("eth")


ETH_BAD = [
  ("five_groups", "aa:bb:cc:dd:ee"), ("seven_groups", "aa:bb:cc:dd:ee:ff:11"),
  ("mixed_separators", "aa:bb:cc:dd:ee-ff"), ("nonhex12", "zzzzzzzzzzzz"),
  ("nonhex17", "aa:bb:cc:dd:ee:gg"), ("group_over_ff", "a:b:c:d:e:fff"),
  ("group_over_ff_mid", "a:b:100:d:e:f"), ("empty", ""),
  ("empty_group", "aa:bb::dd:ee:f"), ("eleven_hex", "aabbccddeef"),
  ("thirteen_hex", "aabbccddeeff0"), ("dots", "aa.bb.cc.dd.ee.ff"),
  ("negative_group", "a:b:c:d:e:-1"),
  ("short_list", [1, 2, 3]), ("long_list", [1, 2, 3, 4, 5, 6, 7]),
  ("short_tuple", (1, 2, 3, 4, 5)), ("long_bytearray", bytearray(7)),
  ("int", 5), ("float", 1.5),
  # a number is not an address, whichever number it is (the length of one, the
  # value of one, ...)
] + [("int_%d" % i, i) for i in (0, 1, 4, 6, 7, 8, 12, 16, 17, 48, 255, 256)] + [
  ("int_48bit", 0x0000aabbccddeeff & 0xffffffffffff), ("int_neg", -6),
  ("float_6", 6.0), ("true", True),
]


def case_ethbad (c, rep):
  A = _A()
  arg = c["arg"]
  if c.get("as") == "tuple": arg = tuple(arg)
  if c.get("as") == "bytearray": arg = bytearray(arg)
  args = [("", arg)]
  if isinstance(arg, int) and not isinstance(arg, bool):
    class Idx (object):
      def __init__ (self, v): self.v = v
      def __index__ (self): return self.v
      def __repr__ (self): return "<object with __index__ %d>" % self.v
    args.append((" (as an object with __index__)", Idx(arg)))
  for how, arg in args:
    try:
      r = A.EthAddr(arg)
    except Exception:
      pass
    else:
      _fail(rep, "eth malformed accepted class=%s%s" % (c["cls"], how),
            "EthAddr(%r) returned %r instead of rejecting" % (arg, r), c)
    # what is not an address is not equal to one either
    for raw in (b"\0" * 6, b"\xff" * 6, b"\1\2\3\4\5\6"):
      a = A.EthAddr(raw)
      try:
        eq, ne = (a == arg), (a != arg)
      except Exception:
        continue
      rep.count("addresses_compared_with_non_addresses")
      if eq or not ne:
        _fail(rep, "eth address equal to a malformed one class=%s%s" % (c["cls"], how),
              "EthAddr(%r) == %r is %r, != is %r" % (raw, arg, eq, ne), c)
  rep.count("ethbad")


def case_dpid (c, rep):
  import pox.lib.util as U
  d = int(c["d"])
  for long in (False, True):
    try:
      s = U.dpid_to_str(d, long)
      back = U.str_to_dpid(s)
    except Exception as e:
      _fail(rep, "dpid raises %s" % type(e).__name__,
            "dpid %x alwaysLong=%r: %r" % (d, long, e), c)
      continue
    if back != d:
      _fail(rep, "dpid roundtrip", "dpid_to_str(%#x,%r) = %r -> %#x" %
            (d, long, s, back), c)
    low = "-".join("%02x" % ((d >> s_) & 255) for s_ in range(40, -8, -8))
    hi = d >> 48
    exp = low + ("|%d" % hi if (hi or long) else "")
    if s != exp:
      _fail(rep, "dpid canonical text", "dpid_to_str(%#x,%r) = %r expected %r"
            % (d, long, s, exp), c)
  # other accepted spellings of the same id
  for t in ("%x" % d, "0x%x" % d, "0X%X" % d):
    try:
      if U.str_to_dpid(t) != d:
        _fail(rep, "dpid parse hex", "str_to_dpid(%r) = %#x" %
              (t, U.str_to_dpid(t)), c)
    except Exception as e:
      _fail(rep, "dpid parse hex raises", "str_to_dpid(%r): %r" % (t, e), c)
  if U.dpid_to_str(struct.pack("!Q", d)) != U.dpid_to_str(d):
    _fail(rep, "dpid from bytes", "%x" % d, c)
  rep.count("dpid")


def case_laws (c, rep):
  A = _A()
  kind = c["kind"]
  vals = c["vals"]
  if kind == "ip4":
    objs = [A.IPAddr(dq(int(v))) for v in vals]
    raws = [o.raw for o in objs]
    alts = [dq(int(v)) for v in vals]
  elif kind == "ip6":
    objs = [A.IPAddr6.from_raw(ipaddress.IPv6Address(int(v)).packed)
            for v in vals]
    raws = [o.raw for o in objs]
    alts = [str(ipaddress.IPv6Address(int(v))) for v in vals]
  else:
    objs = [A.EthAddr(bytes.fromhex("%012x" % int(v))) for v in vals]
    raws = [o.raw for o in objs]
    alts = [str(o) for o in objs]
  n = len(objs)
  def rel (a, b):
    lt, eq, gt = a < b, a == b, a > b
    return lt, eq, gt
  for i in range(n):
    a = objs[i]
    if not (a == a) or (a != a) or not (a <= a) or not (a >= a) or a < a or a > a:
      _fail(rep, "laws %s reflexive" % kind, str(a), c)
    for j in range(n):
      b = objs[j]
      lt, eq, gt = rel(a, b)
      if [bool(lt), bool(eq), bool(gt)].count(True) != 1:
        _fail(rep, "laws %s trichotomy" % kind,
              "%s vs %s: lt=%r eq=%r gt=%r" % (a, b, lt, eq, gt), c)
      if bool(eq) != (raws[i] == raws[j]):
        _fail(rep, "laws %s equality is value equality" % kind,
              "%s == %s -> %r" % (a, b, eq), c)
      if (a != b) == eq:
        _fail(rep, "laws %s ne is not eq" % kind, "%s %s" % (a, b), c)
      if eq and hash(a) != hash(b):
        _fail(rep, "laws %s equal implies same hash" % kind, "%s %s" % (a, b), c)
      if (b == a) != eq or (b > a) != lt or (b < a) != gt:
        _fail(rep, "laws %s symmetry" % kind, "%s %s" % (a, b), c)
      if (a <= b) != (lt or eq) or (a >= b) != (gt or eq):
        _fail(rep, "laws %s le/ge consistent" % kind, "%s %s" % (a, b), c)
      # comparison with the textual form behaves like the address
      try:
        if (a == alts[j]) != eq or (a != alts[j]) == eq:
          _fail(rep, "laws %s equality with text" % kind,
                "%s == %r -> %r" % (a, alts[j], a == alts[j]), c)
      except Exception as e:
        _fail(rep, "laws %s equality with text raises" % kind, repr(e), c)
      for k in range(n):
        cc = objs[k]
        if a < b and b < cc and not a < cc:
          _fail(rep, "laws %s transitive" % kind, "%s %s %s" % (a, b, cc), c)
        if a == b and b == cc and not a == cc:
          _fail(rep, "laws %s eq transitive" % kind, "%s %s %s" % (a, b, cc), c)
    # compares unequal to unrelated things without raising
    others = [5.5, "not an address", object(), None, b"", ()]
    # an address of another family is not equal either (and comparing must
    # not blow up)
    others += [x for x in (A.IPAddr("1.2.3.4"), A.IPAddr6("::1"),
                           A.EthAddr("00:00:00:00:00:01"), A.IPAddr(0),
                           A.IPAddr6("::"), A.EthAddr(b"\0" * 6))
               if type(x) is not type(a)]
    # ... nor is the address of another family that is *made from* this one
    # (the IPv4-mapped and -compatible IPv6 forms, the same octets read as an
    # address of another kind): one family's values are not the other's
    try:
      r = a.raw
      relv = []
      if kind == "ip4":
        relv = [A.IPAddr6.from_raw(b"\0" * 10 + b"\xff\xff" + r),
               A.IPAddr6.from_raw(b"\0" * 12 + r), A.IPAddr6.from_raw(r + b"\0" * 12),
               A.EthAddr(r + b"\0\0"), A.EthAddr(b"\0\0" + r)]
      elif kind == "ip6":
        relv = [A.IPAddr(r[12:]), A.IPAddr(r[:4]), A.EthAddr(r[:6]), A.EthAddr(r[10:])]
      else:
        relv = [A.IPAddr(r[:4]), A.IPAddr(r[2:]), A.IPAddr6.from_raw(r + b"\0" * 10),
               A.IPAddr6.from_raw(b"\0" * 10 + r)]
      others += relv
      rep.count("compared_with_related_addresses_of_another_family", len(relv))
      for o in relv:
        if (o == a) or not (o != a):
          _fail(rep, "laws %s equals its counterpart in another family" % kind,
                "%r == %r" % (o, a), c)
    except Exception as e:
      _fail(rep, "laws %s comparing with another family raises %s" %
            (kind, type(e).__name__), repr(e), c)
    for other in others:
      try:
        if a == other or not (a != other):
          _fail(rep, "laws %s equals unrelated" % kind, "%s == %r" % (a, other), c)
      except Exception as e:
        _fail(rep, "laws %s eq with unrelated raises %s" %
              (kind, type(e).__name__), "%s == %r: %r" % (a, other, e), c)
  # usable as dict keys / set members
  if len(set(objs)) != len(set(raws)) or len({o: 1 for o in objs}) != len(set(raws)):
    _fail(rep, "laws %s set membership" % kind, str(vals), c)
  # sorting is deterministic and a permutation
  s1 = sorted(objs); s2 = sorted(reversed(objs))
  if [o.raw for o in s1] != [o.raw for o in s2]:
    _fail(rep, "laws %s sort not canonical" % kind, str(vals), c)
  rep.count("laws")


def case_immut (c, rep):
  A = _A()
  objs = [A.IPAddr("1.2.3.4"), A.IPAddr6("::1"), A.EthAddr("00:11:22:33:44:55"),
          A.IPAddr6.UNDEFINED, A.EthAddr.BROADCAST, A.IP_ANY]
  for o in objs:
    before = (o.raw, str(o), hash(o))
    for attr in ("_value", "raw", "x", "value"):
      try:
        setattr(o, attr, b"\0" * len(o))
        if (o.raw, str(o), hash(o)) != before or attr in ("x", "value", "_value"):
          _fail(rep, "immut %s setattr accepted" % type(o).__name__,
                "setattr(%r, %r) did not raise" % (o, attr), c)
      except (TypeError, AttributeError):
        pass
      except Exception as e:
        _fail(rep, "immut %s setattr raises %s" %
              (type(o).__name__, type(e).__name__), repr(e), c)
    if (o.raw, str(o), hash(o)) != before:
      _fail(rep, "immut %s changed" % type(o).__name__, "%r" % (before,), c)
    for attr in ("_value", "raw"):
      try:
        delattr(o, attr)
      except (TypeError, AttributeError):
        pass
      except Exception as e:
        _fail(rep, "immut %s delattr raises %s" % (type(o).__name__, type(e).__name__), repr(e), c)
      try:
        now = (o.raw, str(o), hash(o))
      except Exception as e:
        now = ("broken", repr(e))
      if now != before:
        _fail(rep, "immut %s attribute could be deleted" % type(o).__name__,
              "after delattr(%s): %r" % (attr, now), c)
        try: object.__setattr__(o, "_value", o._value)
        except Exception: pass
        return
    # running the constructor again on a live value (any accepted input form)
    # must not re-seat it either; whether it raises is not judged
    if isinstance(o, A.IPAddr):
      again = ["9.8.7.6", b"\x09\x08\x07\x06", 0x09080706, A.IPAddr("9.8.7.6")]
    elif isinstance(o, A.IPAddr6):
      again = ["fe80::9", bytes(range(1, 17)), A.IPAddr6("fe80::9")]
    else:
      again = ["0a:0b:0c:0d:0e:0f", b"\x0a\x0b\x0c\x0d\x0e\x0f",
               A.EthAddr("0a:0b:0c:0d:0e:0f")]
    for inp in again:
      try:
        o.__init__(inp)
      except Exception:
        pass
      rep.count("constructor_rerun_on_live_value")
      if (o.raw, str(o), hash(o)) != before:
        _fail(rep, "immut %s re-seated by a second constructor call" %
              type(o).__name__, "%r -> %s after __init__(%r)" % (before, o, inp), c)
        break
    # raw is not an alias that can be mutated
    r = o.raw
    if not isinstance(r, bytes):
      _fail(rep, "immut %s raw is mutable type" % type(o).__name__,
            type(r).__name__, c)
  # a bytearray handed in is copied
  ba = bytearray(b"\1\2\3\4\5\6")
  e = A.EthAddr(ba); ba[0] = 9
  if e.raw != b"\1\2\3\4\5\6":
    _fail(rep, "immut EthAddr aliases caller bytearray", str(e), c)
  ba = bytearray(range(16))
  e = A.IPAddr6(ba); ba[0] = 9
  if e.raw != bytes(range(16)):
    _fail(rep, "immut IPAddr6 aliases caller bytearray", str(e), c)
  rep.count("immut")


CASES = dict(ip4=case_ip4, ip4net=case_ip4net, ip4cidr=case_ip4cidr,
             ip4mask=case_ip4mask, ip4bad=case_ip4bad, ip6=case_ip6,
             ip6net=case_ip6net, ip6mask=case_ip6mask, ip6bad=case_ip6bad,
             eth=case_eth, ethbad=case_ethbad, dpid=case_dpid, laws=case_laws,
             immut=case_immut)


def do_case (c, rep):
  f = CASES[c["t"]]
  try:
    f(c, rep)
  except Exception as e:
    import traceback
    tb = traceback.extract_tb(e.__traceback__)
    where = tb[-1].name if tb else "?"
    _fail(rep, "%s unexpected %s in %s" % (c["t"], type(e).__name__, where),
          traceback.format_exc()[-800:], c)
  key = repr(sorted((k, str(v)) for k, v in c.items()))
  rep.case(key)


# --------------------------------------------------------------------------
# generators

IP4_BOUND = [0, 1, 0x7f000001, 0x7fffffff, 0x80000000, 0x80000001,
             0xc0a80101, 0xe0000001, 0xefffffff, 0xf0000000, 0xfffffffe,
             0xffffffff, 0x0a000000, 0x01020304, 0xbfff0000, 0xdfffff00,
             0x00ffffff, 0xff000000, 0x01000000, 0x00000100]


def gen (kind, rng, scale):
  if kind == "ip4":
    for v in IP4_BOUND: yield dict(t="ip4", v=v)
    for pos in range(4):
      for rest in (0, 127, 128, 255):
        for o in range(256):
          v = 0
          for p in range(4):
            v = (v << 8) | (o if p == pos else rest)
          yield dict(t="ip4", v=v)
    for _ in range(2000 * scale):
      yield dict(t="ip4", v=rng.getrandbits(32))
  elif kind == "ip4net":
    for b in range(33):
      mask = ((1 << b) - 1) << (32 - b)
      for net in IP4_BOUND + [rng.getrandbits(32) for _ in range(6 * scale)]:
        netv = net & mask
        cands = [netv, netv | (~mask & 0xffffffff), (netv - 1) & 0xffffffff,
                 (netv + (1 << (32 - b))) & 0xffffffff if b else netv,
                 netv ^ (1 << (32 - b)) if b else netv,
                 netv ^ 0x80000000, netv | 1, rng.getrandbits(32)]
        for v in cands:
          yield dict(t="ip4net", v=v, net=net, bits=b)
  elif kind == "ip4cidr":
    for b in range(33):
      mask = ((1 << b) - 1) << (32 - b)
      for v in IP4_BOUND + [rng.getrandbits(32) for _ in range(10 * scale)]:
        yield dict(t="ip4cidr", v=v & mask, bits=b)
        yield dict(t="ip4cidr", v=v, bits=b)
  elif kind == "ip4mask":
    for b in range(33):
      yield dict(t="ip4mask", mask=((1 << b) - 1) << (32 - b))
    for b in range(1, 32):
      m = ((1 << b) - 1) << (32 - b)
      for hole in range(32):
        yield dict(t="ip4mask", mask=m ^ (1 << hole))
    for _ in range(500 * scale):
      yield dict(t="ip4mask", mask=rng.getrandbits(32))
  elif kind == "ip4bad":
    for t in IP4_BAD:
      cls = "".join(ch if not ch.isdigit() else "N" for ch in t)
      yield dict(t="ip4bad", text=t, cls=cls)
    for base in ("0.0.0.0", "10.0.0.0", "10.1.2.3", "255.255.255.255", "128.0.0.0"):
      for bits in (-1, -2, -8, -31, -32, -33, -128, 33, 34, 40, 64, 128, 256, 1 << 32):
        yield dict(t="ip4bad", text="%s/%d" % (base, bits), range=True,
                   cls="prefix_out_of_range_%s" % ("neg" if bits < 0 else "big"))
    for name, ch in JUNK:
      # (not judged: text that libc's inet_aton accepts, i.e. white space
      #  after the address, and white space around the prefix length)
      for t in (ch + "10.1.2.3", "10.1" + ch + ".2.3",
                "10.1." + ch + "2.3", "10.1.2.0/2" + ch + "4",
                "1" + ch + "0.1.2.3"):
        try:
          ipaddress.IPv4Network(t, strict=False) if "/" in t else ipaddress.IPv4Address(t)
          continue
        except Exception:
          pass
        yield dict(t="ip4bad", text=t, cls="junk_" + name)
    for _ in range(300 * scale):
      v = rng.getrandbits(32)
      b = rng.randrange(1, 32)
      m = ((1 << b) - 1) << (32 - b)
      yield dict(t="ip4bad", text="%s/%d" % (dq((v & m) | 1 << rng.randrange(0, 32 - b)), b),
                 cls="host_bits_set_bits")
      hole = rng.randrange(32 - b + 1, 32) if b > 1 else None
      if hole is not None and (m ^ (1 << hole)) != 0:
        yield dict(t="ip4bad", text="0.0.0.0/%s" % dq(m ^ (1 << hole)),
                   cls="noncontiguous_netmask")
      yield dict(t="ip4bad", text="%s/%d" % (dq(v), rng.randrange(33, 200)),
                 cls="prefix_over_32")
      o = [rng.randrange(256) for _ in range(4)]
      o[rng.randrange(4)] = rng.randrange(256, 1000)
      yield dict(t="ip4bad", text=".".join(map(str, o)), cls="octet_over_255")
  elif kind == "ip6":
    full = (1 << 128) - 1
    yield dict(t="ip6", v="0"); yield dict(t="ip6", v="1")
    yield dict(t="ip6", v=str(full))
    for pat in range(256):
      for choice in range(3 if scale == 1 else 6):
        v = 0
        for i in range(8):
          g = 0
          if pat & (1 << (7 - i)):
            g = [1, 0xffff, rng.randrange(1, 0x10000)][choice % 3]
          v = (v << 16) | g
        yield dict(t="ip6", v=str(v))
    for _ in range(400 * scale):
      yield dict(t="ip6", v=str((0xffff << 32) | rng.getrandbits(32)))
      yield dict(t="ip6", v=str(rng.getrandbits(32)))
      yield dict(t="ip6", v=str(rng.getrandbits(128)))
      yield dict(t="ip6", v=str(rng.getrandbits(128) & rng.getrandbits(128)
                                & rng.getrandbits(128)))
  elif kind == "ip6net":
    full = (1 << 128) - 1
    for b in range(129):
      mask = (((1 << b) - 1) << (128 - b)) if b else 0
      for net in [0, full, 0x20010db8 << 96, 0xfe80 << 112, 0xff02 << 112 | 1] \
                 + [rng.getrandbits(128) for _ in range(2 * scale)]:
        netv = net & mask
        for v in (netv, netv | (~mask & full), (netv - 1) & full,
                  (netv ^ (1 << (128 - b))) if b else netv,
                  netv | 1, rng.getrandbits(128)):
          yield dict(t="ip6net", v=str(v), net=str(net), bits=b)
  elif kind == "ip6mask":
    for b in range(129):
      yield dict(t="ip6mask", mask=str((((1 << b) - 1) << (128 - b)) if b else 0))
    for b in range(1, 128):
      m = ((1 << b) - 1) << (128 - b)
      for _ in range(3 * scale):
        yield dict(t="ip6mask", mask=str(m ^ (1 << rng.randrange(128))))
    for _ in range(200 * scale):
      yield dict(t="ip6mask", mask=str(rng.getrandbits(128)))
  elif kind == "ip6bad":
    for n in (0, 1, 4, 15, 17, 32):
      yield dict(t="ip6bad", text=str(n), cls="raw_length_%d" % n, form="raw")
    for base in ("::", "2001:db8::", "2001:db8::1", "ffff:ffff:ffff:ffff:ffff:ffff:ffff:ffff"):
      for bits in (-1, -2, -64, -127, -128, -129, 129, 130, 256, 1 << 32):
        yield dict(t="ip6bad", text="%s/%d" % (base, bits), range=True,
                   cls="prefix_out_of_range_%s" % ("neg" if bits < 0 else "big"))
    for _ in range(60 * scale):
      for cls, t in ip6_bad_mutations(rng):
        yield dict(t="ip6bad", text=t, cls=cls)
  elif kind == "eth":
    for first in range(256):
      yield dict(t="eth", raw=bytes([first, 0x80, 0xc2, 0, 0, first & 0x1f]))
      yield dict(t="eth", raw=bytes([first]) + bytes(rng.randrange(256)
                                                     for _ in range(5)))
    for last in range(32):
      yield dict(t="eth", raw=b"\x01\x80\xc2\x00\x00" + bytes([last]))
    # raw values that look like text: colons, dashes, hex digits
    for ch in (b":", b"-", b"a", b"0"):
      for pos in range(6):
        for other in (0, 1, 0x3a, 0x2d, 0xff):
          yield dict(t="eth", raw=ch * pos + bytes([other]) + ch * (5 - pos))
      yield dict(t="eth", raw=ch * 6)
    # addresses of well-known vendors (their first three octets have a name)
    for oui in ("002320", "00000c", "005056", "080027", "001b21", "000c29", "3c970e", "b827eb"):
      yield dict(t="eth", raw=bytes.fromhex(oui) + bytes(rng.randrange(256) for _ in range(3)))
    for raw in (b"\0" * 6, b"\xff" * 6, b"\x01\x02\x03\x04\x05\x06",
                b"abcdef", b"a:b:c:", b"\x0a\x0b\x0c\x0d\x0e\x0f",
                b"\x00\x00\x00\x00\x00\x01", b"\x10\x20\x30\x40\x50\x60"):
      yield dict(t="eth", raw=raw)
    for _ in range(1500 * scale):
      yield dict(t="eth", raw=bytes(rng.randrange(256) for _ in range(6)))
  elif kind == "ethbad":
    for cls, arg in ETH_BAD:
      d = dict(t="ethbad", cls=cls, arg=arg)
      if isinstance(arg, tuple): d["as"] = "tuple"; d["arg"] = list(arg)
      if isinstance(arg, bytearray): d["as"] = "bytearray"; d["arg"] = list(arg)
      yield d
    # stray characters, signs, prefixes and blanks in every accepted textual
    # shape (what int(x, 16) quietly swallows is not hex)
    shapes = [("colon17", "0a:1b:2c:3d:4e:5f"), ("dash17", "0a-1b-2c-3d-4e-5f"),
              ("hex12", "0a1b2c3d4e5f"), ("short_colon", "a:1b:2:3d:4:5f")]
    strays = list(JUNK) + [("plus", "+"), ("minus", "-"), ("hexprefix", "0x"),
                           ("underscore", "_"), ("uppercase_x", "X")]
    for sn, base in shapes:
      for name, ch in strays:
        if sn == "dash17" and name == "minus": continue
        for where, t in (("front", ch + base), ("end", base + ch),
                         ("inside", base[:1] + ch + base[1:]),
                         ("replace", ch + base[len(ch):]),
                         ("replace_end", base[:-len(ch)] + ch)):
          if t in (base,): continue
          yield dict(t="ethbad", cls="stray_%s_in_%s" % (name, sn), arg=t)
    for _ in range(100 * scale):
      g = ["%x" % rng.randrange(256) for _ in range(6)]
      g[rng.randrange(6)] = "%x" % rng.randrange(256, 0x10000)
      yield dict(t="ethbad", cls="group_over_ff", arg=":".join(g))
      n = rng.choice([1, 2, 3, 4, 5, 7, 8])
      yield dict(t="ethbad", cls="wrong_length_list",
                 arg=[rng.randrange(256) for _ in range(n)])
  elif kind == "dpid":
    for d in [0, 1, (1 << 48) - 1, 1 << 48, (1 << 48) + 1, 1 << 63,
              (1 << 64) - 1, 0xffff << 48, 0x0001000000000000, 255, 256,
              0xa0b0c0d0e0f, 0x00ff00ff00ff00ff]:
      yield dict(t="dpid", d=str(d))
    for sh in range(64):
      yield dict(t="dpid", d=str(1 << sh))
      yield dict(t="dpid", d=str((1 << sh) - 1))
    for _ in range(3000 * scale):
      yield dict(t="dpid", d=str(rng.getrandbits(64)))
      yield dict(t="dpid", d=str(rng.getrandbits(48)))
  elif kind == "laws":
    for _ in range(250 * scale):
      base = rng.getrandbits(32)
      vals = [base, base ^ 0x80000000, base ^ 1, rng.getrandbits(32), base,
              0, 0xffffffff, rng.choice(IP4_BOUND)]
      yield dict(t="laws", kind="ip4", vals=[str(v) for v in vals])
      base = rng.getrandbits(128)
      vals = [base, base ^ (1 << 127), base ^ 1, rng.getrandbits(128), base,
              0, (1 << 128) - 1]
      yield dict(t="laws", kind="ip6", vals=[str(v) for v in vals])
      base = rng.getrandbits(48)
      vals = [base, base ^ (1 << 47), base ^ 1, rng.getrandbits(48), base,
              0, (1 << 48) - 1]
      yield dict(t="laws", kind="eth", vals=[str(v) for v in vals])
  elif kind == "immut":
    yield dict(t="immut", i=0)
    yield dict(t="immut", i=1)


def run (spec, rep):
  seed = spec["seed"] * 1000003 + spec.get("sub", 0) * 7919
  scale = spec.get("n", 1)
  for kind in spec["kinds"]:
    rng = random.Random("%s/%d" % (kind, seed))
    first = True
    for c in gen(kind, rng, scale):
      do_case(c, rep)
      if first or rng.random() < 0.0005:
        rep.sample(c); first = False


def replay (witness, rep):
  do_case(witness, rep)
