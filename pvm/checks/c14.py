"""
C14 - packet headers survive build -> bytes -> parse with valid lengths and
checksums.

(A) header stacks assembled with the library's own constructors from
boundary-biased random field values and payloads of every length class (odd
and even): pack, parse, compare every public header field layer by layer,
re-pack, and verify every length field and Internet checksum in the emitted
bytes with the independent RFC 1071 implementation.
(B) hand-built valid frames of the protocols whose objects are awkward to
assemble (DHCP, DNS, LLDP, ICMPv6 ND, IPv6 extension headers, IGMPv3, RIP,
EAP, GRE, VXLAN): parse -> pack must reproduce the bytes, parse again must
give equal fields.
"""
import random
import struct
import traceback

from pvm.gen import corpus
from pvm.gen.ofgen import rint, rbytes
from pvm.ref import inet, frames as F

ID = "C14"
LEVEL = "exploration"
RULE = ("(A) a case is (stack kind, generator seed): Ethernet [/VLAN] "
        "[/LLC+SNAP] over ARP | IPv4(+options) | IPv6 | MPLS | EAPOL over "
        "ICMP echo/unreachable/time-exceeded | TCP(+options) | UDP | GRE | "
        "IGMP | ICMPv6 echo | VXLAN | RIP, field values 0/1/max/sign/random, "
        "payload lengths 0..1500 odd and even; (B) a case is a corpus frame "
        "with its variable fields re-randomised; non-trivial = at least two "
        "header layers; distinct = distinct packed bytes")
ASSUMPTIONS = ["pvm/ref/inet.py implements RFC 1071 and the pseudo-headers",
               "frames whose re-serialisation legitimately differs are not in "
               "the corpus part: Ethernet padding, UDP with checksum 0, "
               "truncated packets quoted inside ICMP errors"]
REQUIRED = ["built", "fields_compared", "repacked", "ipv4_csums", "l4_csums",
            "icmp_csums", "odd_payloads", "even_payloads", "corpus_roundtrips",
            "ip_payloads_shorter_than_their_protocol_header",
            "last_fragments_of_parsed_protocols",
            "template_frames_roundtripped", "library_chosen_identifications",
            "earlier_packets_rechecked", "transport_headers_put_under_a_new_ip_header",
            "parsed_packets_edited_and_serialised_again",
            "transport_headers_moved_to_the_other_ip_version",
            "v6_csums"]
TIMEOUT = {"quick": 900, "thorough": 7200}

SKIP_KEYS = {"prev", "next", "raw", "parsed", "hdr_len", "payload_len", "arr",
             "tcplen", "_next_header_type", "extension_headers"}

KINDS = ["arp", "tcp", "tcp_opts", "udp", "tcp_csum0", "udp_csum0", "icmp_csum0",
         "ip_csum0", "icmp_echo", "icmp_unreach",
         "icmp_texc", "icmp_unreach_quoting", "icmp_texc_quoting", "ip_raw", "ip_opts", "llc", "snap", "ip6_udp", "ip6_tcp",
         "ip6_icmp", "mpls", "gre", "vxlan", "igmp", "rip", "eapol", "vlan_qinq",
         "ip6_udp_csum0", "ip6_tcp_csum0", "ip6_icmp_csum0"]


def P ():
  import pox.lib.packet as pkt
  return pkt


def addr4 (rng):
  from pox.lib.addresses import IPAddr
  return IPAddr(rint(rng, 32))


def addr6 (rng):
  from pox.lib.addresses import IPAddr6
  r = rng.random()
  if r < 0.2: raw = b"\0" * 15 + b"\x01"
  elif r < 0.4: raw = b"\xff" * 16
  else: raw = rbytes(rng, 16)
  return IPAddr6(raw, raw=True)


def mac (rng):
  from pox.lib.addresses import EthAddr
  return EthAddr(rbytes(rng, 6))


def plen (rng):
  return rng.choice([0, 1, 2, 3, 5, 8, 17, 18, 19, 46, 47, 100, 101, 512, 513,
                     1400, 1401, 1471, 1472])


def build (kind, rng):
  """Returns the outermost ethernet object of a stack of the given kind."""
  pkt = P()
  payload = rbytes(rng, plen(rng))
  # (addresses as address objects or, as the library also takes them, as the
  #  six raw octets)
  def mac_any ():
    m = mac(rng)
    return m.toRaw() if rng.random() < 0.3 else m
  e = pkt.ethernet(dst=mac_any(), src=mac_any())
  top = e
  tagged = rng.random() < 0.3
  def set_l3 (ethertype, l3):
    nonlocal top
    if tagged:
      v = pkt.vlan(pcp=rng.randrange(8), cfi=rng.randrange(2),
                   id=rng.choice([0, 1, 4095, rng.randrange(4096)]),
                   eth_type=ethertype)
      v.payload = l3
      e.type = pkt.ethernet.VLAN_TYPE
      e.payload = v
    else:
      e.type = ethertype
      e.payload = l3
  def ip4 (proto, l4, **kw):
    # (a fifth of the datagrams leave the identification to the library)
    if rng.random() >= 0.2: kw["id"] = rint(rng, 16)
    # (the three ways of putting a payload under a header: the constructor's
    #  keyword, set_payload(), the payload attribute)
    how = rng.randrange(3)
    if how == 0: kw["payload"] = l4
    ip = pkt.ipv4(tos=rint(rng, 8),
                  flags=rng.choice([0, 0, 2, 4, 6]), ttl=rint(rng, 8),
                  protocol=proto, srcip=addr4(rng), dstip=addr4(rng), **kw)
    if how == 1: ip.set_payload(l4)
    elif how == 2: ip.payload = l4
    return ip
  if kind == "arp":
    a = pkt.arp(opcode=rng.choice([1, 2, 3, 4, rint(rng, 16)]), hwsrc=mac_any(),
                hwdst=mac_any(), protosrc=addr4(rng), protodst=addr4(rng))
    a.payload = payload if rng.random() < 0.3 else b""
    set_l3(0x0806, a)
  elif kind in ("tcp", "tcp_opts"):
    t = pkt.tcp(srcport=rint(rng, 16), dstport=rint(rng, 16), seq=rint(rng, 32),
                ack=rint(rng, 32), flags=rint(rng, 8), win=rint(rng, 16),
                urg=rint(rng, 16))
    if rng.random() < 0.3: t.res = rng.randrange(1, 16)    # (the reserved bits)
    if kind == "tcp_opts":
      O = pkt.tcp_opt
      opts = []
      for _ in range(rng.randrange(1, 5)):
        k = rng.choice(["mss", "ws", "sackperm", "ts", "nop", "sack", "unk"])
        if k == "mss": opts.append(O(O.MSS, rint(rng, 16)))
        elif k == "ws": opts.append(O(O.WSOPT, rng.randrange(15)))
        elif k == "sackperm": opts.append(O(O.SACKPERM, None))
        elif k == "ts": opts.append(O(O.TSOPT, (rint(rng, 32), rint(rng, 32))))
        elif k == "nop": opts.append(O(O.NOP, None))
        elif k == "sack":
          opts.append(O(O.SACK, [(rint(rng, 32), rint(rng, 32))
                                 for _ in range(rng.randrange(1, 3))]))
        else: opts.append(O(rng.choice([19, 28, 254]), rbytes(rng, rng.randrange(0, 5))))
      while sum(len(o.pack()) for o in opts) > 40:   # option space limit
        opts.pop()
      t.options = opts
    t.payload = payload
    set_l3(0x0800, ip4(6, t))
  elif kind == "udp":
    u = pkt.udp(srcport=rng.choice([0, 1, 7, 65535, 40000, 12345]),
                dstport=rng.choice([0, 1, 9, 65535, 40001, 54321]))
    u.payload = payload
    set_l3(0x0800, ip4(17, u))
  elif kind in ("tcp_csum0", "udp_csum0", "icmp_csum0", "ip_csum0"):
    # Packets whose true checksum is exactly 0x0000 (about one in 65536 of
    # random traffic, so it has to be steered): build once with a zero word in
    # the payload (or a zero IP id), read the checksum the library emits, put
    # that value into the zero word - the one's complement sum is then 0xffff
    # and the checksum 0.  TCP, ICMP and the IP header send 0 as 0; UDP must
    # send 0xffff instead (0 means "no checksum").
    tagged = False
    body = b"\0\0" + rbytes(rng, rng.choice([0, 1, 8, 9, 98]))
    holder = None
    if kind == "tcp_csum0":
      l4 = pkt.tcp(srcport=rint(rng, 16), dstport=rint(rng, 16), seq=rint(rng, 32),
                   ack=rint(rng, 32), flags=0x18, win=rint(rng, 16))
      l4.payload = body; holder = l4; proto = 6; off = 14 + 20 + 16
    elif kind == "udp_csum0":
      l4 = pkt.udp(srcport=40000, dstport=40001)
      l4.payload = body; holder = l4; proto = 17; off = 14 + 20 + 6
    elif kind == "icmp_csum0":
      holder = pkt.echo(id=rint(rng, 16), seq=rint(rng, 16))
      holder.payload = body
      l4 = pkt.icmp(type=8, code=0); l4.payload = holder
      proto = 1; off = 14 + 20 + 2
    else:
      l4 = pkt.udp(srcport=40000, dstport=40001); l4.payload = body
      proto = 17; off = 14 + 10
    ip = ip4(proto, l4)
    if kind == "ip_csum0": ip.id = 0
    set_l3(0x0800, ip)
    c = struct.unpack_from("!H", e.pack(), off)[0]
    if kind == "ip_csum0": ip.id = c
    else: holder.payload = struct.pack("!H", c) + body[2:]
  elif kind == "icmp_echo":
    ech = pkt.echo(id=rint(rng, 16), seq=rint(rng, 16))
    ech.payload = payload
    ic = pkt.icmp(type=rng.choice([8, 0]), code=0)
    ic.payload = ech
    set_l3(0x0800, ip4(1, ic))
  elif kind in ("icmp_unreach", "icmp_texc", "icmp_unreach_quoting",
                "icmp_texc_quoting"):
    quoted = F.ipv4(0x0a000001, 0x0a000002, 17,
                    F.udp(1, 2, b"12345678" * 4, src=0x0a000001,
                          dst=0x0a000002))
    if kind.endswith("_quoting"):
      # the realistic case: offending datagram's header + first 8 bytes
      q = quoted[:28]
    else:
      q = quoted[:rng.choice([0, 8, 19])]      # too short to be re-parsed
    if kind.startswith("icmp_unreach"):
      body = pkt.unreach(next_mtu=rint(rng, 16))
      if rng.random() < 0.3: body.unused = rint(rng, 16)
      ic = pkt.icmp(type=3, code=rng.choice([0, 1, 3, 4, 13]))
    else:
      body = pkt.time_exceed() if hasattr(pkt, "time_exceed") else pkt.time_exceeded()
      ic = pkt.icmp(type=11, code=rng.choice([0, 1]))
    body.payload = q
    ic.payload = body
    set_l3(0x0800, ip4(1, ic))
  elif kind == "ip_raw":
    ipr = ip4(rng.choice([89, 50, 132, 253, 255]), payload)
    if rng.random() < 0.3:
      # the number of a protocol the library has a parser for, over a payload
      # too short to hold that protocol's header: it stays the bytes it is
      proto, n = rng.choice([(1, 4), (2, 8), (6, 20), (17, 8), (47, 4)])
      ipr = ip4(proto, payload[:rng.randrange(0, n)])
    if rng.random() < 0.4:
      # a fragment (any flags, the whole range of offsets)
      if rng.random() < 0.5:
        # ... of a datagram whose protocol the library has a parser for: what
        # a later fragment carries is a stretch of that datagram's data, not a
        # header of that protocol, and stays the bytes it is -- whether more
        # fragments follow or this is the last one
        ipr = ip4(rng.choice([1, 2, 6, 17, 47]), payload)
      ipr.flags = rng.randrange(8)
      ipr.frag = rng.choice([1, 185, 0x0fff, 0x1000, 0x1fff])
    set_l3(0x0800, ipr)
  elif kind == "ip_opts":
    n = rng.randrange(1, 11)
    opts = (b"\x94\x04\0\0" * n)[:4 * n]
    u = pkt.udp(srcport=7, dstport=9); u.payload = payload[:200]
    set_l3(0x0800, ip4(17, u, hl=5 + n, raw_options=opts))
  elif kind in ("llc", "snap"):
    l = pkt.llc()
    if kind == "llc":
      l.dsap = rng.choice([0x42, 0xfe, 0x06]); l.ssap = l.dsap
      l.control = 3
      if rng.random() < 0.5:
        # I / S format: two control octets (any value of the second one,
        # zero included)
        l.control = rng.choice([0x00, 0x04, 0xfe, 0x02, 0x10]) | \
            (rng.choice([0, 0, 1, 0x7f, 0xff, rint(rng, 8)]) << 8)
        l.length = 4
      l.payload = payload[:100]
    else:
      # (the low bit of the DSAP marks a group address, that of the SSAP a
      #  response: SNAP all the same)
      l.dsap = rng.choice([0xaa, 0xaa, 0xab]); l.ssap = rng.choice([0xaa, 0xaa, 0xab])
      l.control = 3; l.length = 8
      l.oui = rng.choice([b"\0\0\x0c", b"\x08\0\x07"])
      l.eth_type = rint(rng, 16)
      l.payload = payload[:100]
    inner = l.pack()
    set_l3(len(inner) if not tagged else len(inner), l)
  elif kind in ("ip6_udp", "ip6_tcp", "ip6_icmp"):
    s6, d6 = addr6(rng), addr6(rng)
    if kind == "ip6_udp":
      l4 = pkt.udp(srcport=7, dstport=9); l4.payload = payload; nh = 17
    elif kind == "ip6_tcp":
      l4 = pkt.tcp(srcport=rint(rng, 16), dstport=rint(rng, 16),
                   seq=rint(rng, 32), flags=rint(rng, 8), win=rint(rng, 16))
      l4.payload = payload; nh = 6
    else:
      l4 = pkt.icmpv6(type=rng.choice([128, 129]), code=0)
      l4.payload = struct.pack("!HH", rint(rng, 16), rint(rng, 16)) + payload
      nh = 58
    i6 = pkt.ipv6(srcip=s6, dstip=d6, next_header_type=nh,
                  hop_limit=rint(rng, 8), tc=rint(rng, 8), flow=rint(rng, 20))
    i6.payload = l4
    set_l3(0x86dd, i6)
  elif kind in ("ip6_udp_csum0", "ip6_tcp_csum0", "ip6_icmp_csum0"):
    # the same steering over IPv6 (its own branch of the checksum code)
    tagged = False
    s6, d6 = addr6(rng), addr6(rng)
    body = b"\0\0" + rbytes(rng, rng.choice([0, 1, 8, 9, 98]))
    if kind == "ip6_udp_csum0":
      l4 = pkt.udp(srcport=40000, dstport=40001); l4.payload = body; nh = 17; off = 14 + 40 + 6
      def put (c): l4.payload = struct.pack("!H", c) + body[2:]
    elif kind == "ip6_tcp_csum0":
      l4 = pkt.tcp(srcport=rint(rng, 16), dstport=rint(rng, 16), seq=rint(rng, 32),
                   flags=0x18, win=rint(rng, 16))
      l4.payload = body; nh = 6; off = 14 + 40 + 16
      def put (c): l4.payload = struct.pack("!H", c) + body[2:]
    else:
      l4 = pkt.icmpv6(type=128, code=0)
      l4.payload = struct.pack("!HH", rint(rng, 16), rint(rng, 16)) + body
      nh = 58; off = 14 + 40 + 2
      head = l4.payload[:4]
      def put (c): l4.payload = head + struct.pack("!H", c) + body[2:]
    i6 = pkt.ipv6(srcip=s6, dstip=d6, next_header_type=nh, hop_limit=64)
    i6.payload = l4
    set_l3(0x86dd, i6)
    put(struct.unpack_from("!H", e.pack(), off)[0])
  elif kind == "mpls":
    m = pkt.mpls(label=rint(rng, 20), tc=rng.randrange(8), s=1, ttl=rint(rng, 8))
    m.payload = payload
    set_l3(rng.choice([0x8847, 0x8848]), m)
  elif kind == "gre":
    g = pkt.gre(type=rng.choice([0x88b5, 0x0800, 0x6558]))
    if rng.random() < 0.5: g.key = rint(rng, 32)
    if rng.random() < 0.5: g.seq = rint(rng, 32)
    r = rng.random()
    if r < 0.15: g.strict_source_route = True
    elif r < 0.3: g.recursion = rng.randrange(1, 8)
    elif r < 0.4: g.ver = rng.randrange(1, 8)
    if g.type == 0x0800:
      u = pkt.udp(srcport=7, dstport=9); u.payload = payload[:100]
      inner = pkt.ipv4(protocol=17, srcip=addr4(rng), dstip=addr4(rng))
      inner.payload = u
      g.payload = inner
    elif g.type == 0x6558:
      ie = pkt.ethernet(dst=mac(rng), src=mac(rng), type=0x88b5)
      ie.payload = payload[:100]
      g.payload = ie
    else:
      g.payload = payload
    set_l3(0x0800, ip4(47, g))
  elif kind == "vxlan":
    ie = pkt.ethernet(dst=mac(rng), src=mac(rng), type=0x88b5)
    ie.payload = payload[:200]
    vx = pkt.vxlan(vni=rint(rng, 24) if rng.random() < 0.85 else None)
    vx.payload = ie
    # (a source port that is itself a well-known one - 5353 is reachable
    #  here - makes the UDP demultiplexer pick that application's parser
    #  first; not a round-trip matter)
    sp = rint(rng, 16) | 1024
    if sp in (5353, 4789): sp += 1
    u = pkt.udp(srcport=sp, dstport=4789)
    u.payload = vx
    set_l3(0x0800, ip4(17, u))
  elif kind == "igmp":
    from pox.lib.addresses import IPAddr
    g = pkt.igmp(ver_and_type=rng.choice([0x11, 0x16, 0x17, 0x12]),
                 max_response_time=rint(rng, 8),
                 address=IPAddr(0xe0000000 | rint(rng, 28)))
    if rng.random() < 0.5:
      # what follows the fixed eight octets (an IGMPv3 query's S/QRV, QQIC
      # and source list live there; the library keeps it in .extra)
      g.extra = rbytes(rng, rng.choice([1, 4, 5, 12]))
    set_l3(0x0800, ip4(2, g))
  elif kind == "rip":
    from pox.lib.packet.rip import RIPEntry
    r = pkt.rip(command=rng.choice([1, 2]), version=2)
    for _ in range(rng.randrange(1, 5)):
      en = RIPEntry(address_family=2, route_tag=rint(rng, 16), ip=addr4(rng),
                    next_hop=addr4(rng), metric=rng.randrange(1, 17))
      en.network_bits = rng.randrange(0, 33)
      r.entries.append(en)
    u = pkt.udp(srcport=520, dstport=520)
    u.payload = r
    set_l3(0x0800, ip4(17, u))
  elif kind == "eapol":
    ea = pkt.eap(code=rng.choice([3, 4]), id=rint(rng, 8))
    ep = pkt.eapol(version=rng.choice([1, 2]), type=0)
    ep.payload = ea
    set_l3(0x888e, ep)
  elif kind == "vlan_qinq":
    inner = pkt.vlan(pcp=1, cfi=0, id=rng.randrange(4096), eth_type=0x88b5)
    inner.payload = payload
    outer = pkt.vlan(pcp=2, cfi=0, id=rng.randrange(4096), eth_type=0x8100)
    outer.payload = inner
    e.type = 0x8100
    e.payload = outer
  else:
    raise KeyError(kind)
  return e


def layer_fields (o):
  d = {}
  for k, v in vars(o).items():
    if k in SKIP_KEYS or k.startswith("__"): continue
    d[k] = norm(v)
  return d


def norm (v):
  from pox.lib.addresses import EthAddr, IPAddr, IPAddr6
  if isinstance(v, EthAddr): return v.raw        # (the same as its six octets)
  if isinstance(v, (IPAddr, IPAddr6)): return ("addr", v.raw)
  if isinstance(v, (bytes, bytearray)): return bytes(v)
  if isinstance(v, (int, float, str, bool)) or v is None: return v
  if isinstance(v, (list, tuple)): return [norm(x) for x in v]
  if isinstance(v, dict): return {str(k): norm(x) for k, x in v.items()}
  if hasattr(v, "__dict__") and vars(v):
    return ("obj", type(v).__name__,
            {k: norm(x) for k, x in vars(v).items() if k not in SKIP_KEYS})
  if hasattr(v, "pack"):
    try: return ("packed", v.pack())
    except Exception: return ("obj", type(v).__name__)
  return ("repr", repr(v))


def chain (p):
  from pox.lib.packet.packet_base import packet_base
  out = []
  q = p
  while isinstance(q, packet_base):
    out.append(q); q = q.next
  return out, q


# fields an encoder computes and stores (whatever the caller put there)
DERIVED_FIELDS = {"csum", "iplen", "len", "hl", "off", "payload_len", "length",
                  "tcplen", "next_header_type", "hdr_len", "payload_length"}

# kinds whose innermost built layer legitimately comes back as bytes
SHORTER_OK = set()


def compare_chains (fire, a, b, label, built=False):
  la, ta = chain(a); lb, tb = chain(b)
  if built and len(lb) < len(la) and label not in SHORTER_OK:
    # every layer the packet was assembled from is a layer the parser knows:
    # bytes that merely re-serialise alike are not "equal header fields"
    fire("%s: a layer the packet was built with is not parsed back [%s]" %
         (label, type(la[len(lb)]).__name__),
         "built %s parsed %s" % (">".join(type(x).__name__ for x in la),
                                 ">".join(type(x).__name__ for x in lb)))
    return False
  # where one side carries raw bytes and the other went on parsing them into
  # further layers, compare the bytes those layers serialise to
  n = min(len(la), len(lb))
  if len(la) > n and (tb is not None or n == len(lb)):
    ta = la[n].pack(); la = la[:n]
  if len(lb) > n and (ta is not None or n == len(la)):
    tb = lb[n].pack(); lb = lb[:n]
  na = [type(x).__name__ for x in la]; nb = [type(x).__name__ for x in lb]
  if na != nb:
    fire("%s: parsed layers differ from built layers" % label,
         "built %s parsed %s" % (">".join(na), ">".join(nb)))
    return False
  for x, y in zip(la, lb):
    fx, fy = layer_fields(x), layer_fields(y)
    for k in fx:
      if k in fy and fx[k] != fy[k]:
        fire("%s: field %s.%s differs after parse" % (label, type(x).__name__, k),
             "built %r parsed %r" % (fx[k], fy[k]))
        return False
  pa = bytes(ta) if ta is not None else b""
  pb = bytes(tb) if tb is not None else b""
  if pa != pb:
    fire("%s: payload differs after parse [%s]" % (label, na[-1]),
         "built %d bytes, parsed %d bytes" % (len(pa), len(pb)))
    return False
  return True


def field_equals (data, off, prefix=b"", zero_as=0):
  """
  The 16-bit checksum field at data[off] *equals* the RFC 1071 checksum
  computed over the data with that field zeroed (summing to 0xffff is not
  enough: 0x0000 and 0xffff both do, and only one of them is what the RFC
  says to send).  zero_as: what a computed 0 is sent as (UDP: 0xffff).
  """
  z = data[:off] + b"\0\0" + data[off + 2:]
  want = inet.csum(prefix + z)
  if want == 0: want = zero_as
  got = struct.unpack_from("!H", data, off)[0]
  return got == want


def verify_bytes (fire, rep, b, label):
  """Length fields and checksums of emitted bytes, located independently."""
  d = F.parse(b)
  if "ip" in d:
    ip = d["ip"]; o = ip["off"]
    rep.count("ipv4_csums")
    if not field_equals(b[o:o + ip["ihl"]], 10):
      fire("%s: IPv4 header checksum invalid" % label, b[o:o + ip["ihl"]].hex())
      return False
    if ip["total_len"] != len(b) - o:
      fire("%s: IPv4 total length field wrong" % label,
           "%d vs %d" % (ip["total_len"], len(b) - o)); return False
    l4 = ip["l4_off"]; seg = b[l4:ip["end"]]
    if "tcp" in d:
      rep.count("l4_csums")
      if not field_equals(seg, 16, inet.pseudo4(ip["src"], ip["dst"], 6, len(seg))):
        fire("%s: TCP checksum invalid" % label, "segment %d bytes" % len(seg))
        return False
    if "udp" in d:
      rep.count("l4_csums")
      if d["udp"]["length"] != len(seg):
        fire("%s: UDP length field wrong" % label,
             "%d vs %d" % (d["udp"]["length"], len(seg))); return False
      if not field_equals(seg, 6, inet.pseudo4(ip["src"], ip["dst"], 17, len(seg)),
                          zero_as=0xffff):
        fire("%s: UDP checksum invalid" % label, "segment %d bytes (%s)" %
             (len(seg), "odd" if len(seg) & 1 else "even")); return False
    if ip["proto"] == 2 and ip["frag"] == 0 and len(seg) >= 8:
      rep.count("igmp_csums")
      if not field_equals(seg, 2):
        fire("%s: IGMP checksum invalid" % label, "%d bytes" % len(seg))
        return False
    if "icmp" in d:
      rep.count("icmp_csums")
      if not field_equals(seg, 2):
        fire("%s: ICMP checksum invalid" % label, "%d bytes" % len(seg))
        return False
  if d.get("l3type") == 0x86dd and len(b) >= d["l3off"] + 40:
    o = d["l3off"]
    plen_, nh = struct.unpack_from("!HB", b, o + 4)
    src = b[o + 8:o + 24]; dst = b[o + 24:o + 40]
    seg = b[o + 40:]
    if plen_ != len(seg):
      fire("%s: IPv6 payload length field wrong" % label,
           "%d vs %d" % (plen_, len(seg))); return False
    if nh in (6, 17, 58):
      rep.count("v6_csums")
      if not field_equals(seg, {6: 16, 17: 6, 58: 2}[nh],
                          inet.pseudo6(src, dst, nh, len(seg)),
                          zero_as=0xffff if nh == 17 else 0) \
         and len(seg) >= {6: 20, 17: 8, 58: 4}[nh]:
        fire("%s: %s checksum over IPv6 invalid" %
             (label, {6: "TCP", 17: "UDP", 58: "ICMPv6"}[nh]),
             "segment %d bytes" % len(seg)); return False
      if nh == 17 and struct.unpack_from("!H", seg, 4)[0] != len(seg):
        fire("%s: UDP length field wrong (IPv6)" % label, ""); return False
  return True


def run_built (case, rep):
  pkt = P()
  kind = case["kind"]
  def fire (key, what):
    rep.violation("C14 " + key, what, case)
  rng = random.Random(case["seed"])
  try:
    p = build(kind, rng)
  except Exception:
    fire("%s: assembling raises" % kind, traceback.format_exc()[-500:]); return
  # the header fields as they were asked for, before the encoder sees them
  asked = [(type(x).__name__, layer_fields(x)) for x in chain(p)[0]]
  try:
    b = p.pack()
  except Exception as e:
    tb = traceback.extract_tb(e.__traceback__)
    fire("%s: pack raises %s in %s" % (kind, type(e).__name__, tb[-1].name),
         traceback.format_exc()[-500:]); return
  rep.count("built")
  if kind == "ip_raw":
    try:
      ipx = [x for x in chain(p)[0] if type(x).__name__ == "ipv4"][0]
      if ipx.protocol in (1, 2, 6, 17, 47):
        if ipx.frag and len(ipx.payload) >= 20:
          rep.count("later_fragments_of_parsed_protocols")
          if not (ipx.flags & 1): rep.count("last_fragments_of_parsed_protocols")
        else:
          rep.count("ip_payloads_shorter_than_their_protocol_header")
    except Exception:
      pass
  for (tn, before), x in zip(asked, chain(p)[0]):
    after = layer_fields(x)
    for k, v in before.items():
      # (fields left empty are filled in by the encoder: lengths, checksums)
      if v in (None, 0, b"", [], False) or k in DERIVED_FIELDS: continue
      if k in after and after[k] != v:
        fire("%s: serialising changed header field %s.%s of the packet being sent" % (kind, tn, k),
             "%r -> %r" % (v, after[k]))
        return
  rep.count("fields_compared_before_and_after_packing")
  _, tail = chain(p)
  n = len(tail) if tail is not None else 0
  rep.count("odd_payloads" if n & 1 else "even_payloads")
  try:
    q = pkt.ethernet(raw=b)
  except Exception as e:
    fire("%s: parse raises %s" % (kind, type(e).__name__),
         traceback.format_exc()[-500:]); return
  rep.count("fields_compared")
  if not compare_chains(fire, p, q, kind, built=True): return
  try:
    b2 = q.pack()
  except Exception as e:
    fire("%s: re-pack raises %s" % (kind, type(e).__name__),
         traceback.format_exc()[-500:]); return
  rep.count("repacked")
  if b2 != b:
    i = 0
    while i < min(len(b), len(b2)) and b[i] == b2[i]: i += 1
    fire("%s: serialising the parsed packet gives other bytes" % kind,
         "first difference at byte %d of %d/%d: %s vs %s" %
         (i, len(b), len(b2), b[max(0, i - 2):i + 8].hex(),
          b2[max(0, i - 2):i + 8].hex()))
    return
  verify_bytes(fire, rep, b, kind)
  # the packet parsed in the previous case of this kind is still intact?
  recheck_alive(rep, "built:" + kind, case)
  _alive["built:" + kind] = (q, b)
  return b


REHOME_KINDS = ["tcp", "tcp_opts", "udp", "ip6_udp", "ip6_tcp", "ip6_icmp", "vxlan",
                "rip", "icmp_echo"]


def run_rehome (case, rep):
  """
  Headers used again: what a router, NAT or tunnel endpoint written with the
  library does.  A transport header taken out of a *parsed* packet (or one
  that was packed under another IP header before) is put under a new IPv4 or
  IPv6 header with other addresses and serialised.  The bytes that come out
  carry length fields and checksums (pseudo-header of the NEW addresses) that
  are right, and they parse back to themselves.
  """
  pkt = P()
  kind = case["kind"]
  def fire (key, what):
    rep.violation("C14 " + key, what, case)
  rng = random.Random(case["seed"])
  label = "re-homed %s" % kind
  try:
    p = build(kind, rng)
    b0 = p.pack()
    src_pkt = pkt.ethernet(raw=b0) if case["how"] == "parsed" else p
  except Exception:
    fire("%s: assembling raises" % label, traceback.format_exc()[-500:]); return
  l4 = None
  for x in chain(src_pkt)[0]:
    if type(x).__name__ in ("tcp", "udp", "icmpv6", "icmp") and \
       type(getattr(x, "prev", None)).__name__ in ("ipv4", "ipv6"):
      l4 = x; break
  if l4 is None: return
  tn = type(l4).__name__
  old = l4.prev
  to6 = case["to6"]
  if tn == "icmpv6": to6 = True
  if tn == "icmp": to6 = False
  proto = {"tcp": 6, "udp": 17, "icmpv6": 58, "icmp": 1}[tn]
  try:
    if to6:
      ip = pkt.ipv6(srcip=addr6(rng), dstip=addr6(rng))
      ip.next_header_type = proto
      ip.hop_limit = 64
      et = 0x86dd
    else:
      ip = pkt.ipv4(srcip=addr4(rng), dstip=addr4(rng), protocol=proto)
      et = 0x0800
    if case["via"] == "attr": ip.payload = l4
    else: ip.set_payload(l4)
    e = pkt.ethernet(dst=mac(rng), src=mac(rng), type=et)
    e.payload = ip
    b = e.pack()
  except Exception as ex:
    fire("%s: pack raises %s" % (label, type(ex).__name__), traceback.format_exc()[-500:])
    return
  rep.count("transport_headers_put_under_a_new_ip_header")
  if type(old).__name__ != type(ip).__name__: rep.count("transport_headers_moved_to_the_other_ip_version")
  if not verify_bytes(fire, rep, b, label): return
  try:
    q = pkt.ethernet(raw=b)
    b2 = q.pack()
  except Exception as ex:
    fire("%s: parse / re-pack raises %s" % (label, type(ex).__name__),
         traceback.format_exc()[-500:]); return
  names = [type(x).__name__ for x in chain(q)[0]]
  if tn not in names:
    fire("%s: transport header not parsed back" % label, ">".join(names)); return
  if b2 != b:
    fire("%s: serialising the parsed packet gives other bytes" % label,
         "%d/%d bytes" % (len(b), len(b2))); return
  return b


EDITS = {
  # layer class -> [(attribute, new value from old)]
  "ipv4": [("ttl", lambda v: (v + 1) % 256), ("id", lambda v: (v + 7) & 0xffff)],
  "ipv6": [("hop_limit", lambda v: (v + 1) % 256)],
  "tcp": [("seq", lambda v: (v + 1) & 0xffffffff), ("win", lambda v: (v ^ 1) & 0xffff)],
  "udp": [("srcport", lambda v: (v ^ 1) & 0xffff)],
  "vlan": [("id", lambda v: (v ^ 1) & 0xfff)],
  "arp": [("opcode", lambda v: 3 - v if v in (1, 2) else 1)],
  "mpls": [("ttl", lambda v: (v + 1) % 256)],
  "RIPEntry": [("metric", lambda v: (v % 15) + 1), ("route_tag", lambda v: (v + 1) & 0xffff)],
}


def run_edit (case, rep):
  """
  A received packet is changed and sent on (what a router, a NAT or a
  routing daemon does): one header field of the *parsed* packet gets a new
  value; the bytes it is serialised to carry that value (parsing them again
  gives it back), everything else as before, lengths and checksums right.
  """
  pkt = P()
  kind = case["kind"]
  def fire (key, what):
    rep.violation("C14 " + key, what, case)
  rng = random.Random(case["seed"])
  try:
    p = build(kind, rng)
    b = p.pack()
    q = pkt.ethernet(raw=b)
  except Exception:
    return
  def layers (x):
    out = list(chain(x)[0])
    for l in list(out):
      for e in getattr(l, "entries", None) or []:
        out.append(e)
    return out
  cands = [(i, l) for i, l in enumerate(layers(q)) if type(l).__name__ in EDITS]
  if not cands: return
  i, lay = cands[rng.randrange(len(cands))]
  tn = type(lay).__name__
  attr, f = EDITS[tn][rng.randrange(len(EDITS[tn]))]
  try:
    old = getattr(lay, attr)
    newv = f(old)
    setattr(lay, attr, newv)
    b2 = q.pack()
    r = pkt.ethernet(raw=b2)
  except Exception as ex:
    fire("edited %s: changing %s.%s and re-serialising raises %s" % (kind, tn, attr, type(ex).__name__),
         traceback.format_exc()[-500:]); return
  rep.count("parsed_packets_edited_and_serialised_again")
  got = layers(r)
  if i >= len(got) or type(got[i]).__name__ != tn:
    fire("edited %s: layers differ after changing %s.%s" % (kind, tn, attr),
         ">".join(type(x).__name__ for x in got)); return
  if getattr(got[i], attr) != newv:
    fire("edited %s: a changed %s.%s is not in the bytes sent" % (kind, tn, attr),
         "set to %r (was %r), the serialised packet says %r" % (newv, old, getattr(got[i], attr)))
    return
  if len(b2) != len(b):
    fire("edited %s: changing %s.%s changed the frame length" % (kind, tn, attr),
         "%d -> %d" % (len(b), len(b2))); return
  verify_bytes(fire, rep, b2, "edited %s" % kind)
  return b2


def run_corpus (case, rep):
  pkt = P()
  name = case["name"]; b = case["frame"]
  def fire (key, what):
    rep.violation("C14 " + key, what, case)
  label = "corpus:" + name
  try:
    q = pkt.ethernet(raw=b)
    b2 = q.pack()
  except Exception as e:
    fire("%s: parse/pack raises %s" % (label, type(e).__name__),
         traceback.format_exc()[-500:]); return
  rep.count("corpus_roundtrips")
  la, _ = chain(q)
  want = case.get("layers") or corpus.EXPECTED_LAYERS.get(name)
  got = ">".join(type(x).__name__ for x in la)
  if want is not None:
    rep.count("corpus_layer_chains_compared")
    if got != want:
      short = want.startswith(got + ">")
      fire("corpus: %s" % ("parser stops short of a layer the frame has [%s]" %
                           want.split(">")[len(got.split(">"))] if short else
                           "frame parsed into other layers [%s]" % want),
           "%s: parsed as %s, the frame is %s" % (name, got, want))
      return
  if any(not x.parsed for x in la):
    bad = [type(x).__name__ for x in la if not x.parsed][0]
    fire("corpus: valid %s message not parsed" % bad,
         "%s: %s" % (name, ">".join(type(x).__name__ +
                                    ("" if x.parsed else "(unparsed)")
                                    for x in la)))
    return
  if b2 != b:
    i = 0
    while i < min(len(b), len(b2)) and b[i] == b2[i]: i += 1
    mech = ">".join(type(x).__name__ for x in la)
    if any(getattr(x, "extension_headers", None) for x in la):
      mech = "ipv6 with extension headers"
    fire("corpus: serialising the parsed packet gives other bytes [%s]" % mech,
         "%s: first difference at byte %d of %d/%d: %s vs %s" %
         (name, i, len(b), len(b2), b[max(0, i - 2):i + 8].hex(),
          b2[max(0, i - 2):i + 8].hex()))
    return
  q2 = pkt.ethernet(raw=b2)
  compare_chains(fire, q, q2, label)
  verify_bytes(fire, rep, b2, label)
  if case.get("template"):
    rep.count("template_frames_roundtripped")
    return b
  # every corpus packet parsed so far (q2 may share state with them)
  for lab in sorted(_alive):
    if lab.startswith("corpus:"): recheck_alive(rep, lab, case)
  _alive[label] = (q, b)
  return b


CORPUS_SKIP = {"udp_nocsum", "udp_padded", "arp_reply", "icmp_unreach",
               "icmp_time_exceeded", "ip6_unreach",
               # deliberately too short to be valid (they are in the corpus
               # for C15):
               "ip6_unreach_short", "ip6_too_big_short",
               "ip6_fragment"}


_alive = {}      # label -> (parsed packet, its bytes): objects parsed earlier


def recheck_alive (rep, label, case):
  """
  A packet parsed earlier must still describe its own frame after other
  frames have been parsed (no state shared between packet objects): packing
  it again gives its bytes.
  """
  old = _alive.get(label)
  if old is None: return
  q, b = old
  rep.count("earlier_packets_rechecked")
  try:
    b2 = q.pack()
  except Exception as e:
    rep.violation("C14 %s: an earlier parsed packet can no longer be packed" % label,
                  repr(e), case); return
  if b2 != b:
    i = 0
    while i < min(len(b), len(b2)) and b[i] == b2[i]: i += 1
    rep.violation("C14 %s: an earlier parsed packet changed after later "
                  "packets were parsed" % label,
                  "first difference at byte %d: %s vs %s" %
                  (i, b[max(0, i - 2):i + 8].hex(), b2[max(0, i - 2):i + 8].hex()),
                  case)


def do_case (case, rep):
  try:
    if case["mode"] == "built": b = run_built(case, rep)
    elif case["mode"] == "rehome": b = run_rehome(case, rep)
    elif case["mode"] == "edit": b = run_edit(case, rep)
    else: b = run_corpus(case, rep)
  except Exception:
    rep.violation("C14 harness-visible exception",
                  traceback.format_exc()[-900:], case)
    b = None
  rep.case((case.get("kind", case.get("name", "")) + "|").encode() +
           (b or str(case.get("seed", "")).encode()), nontrivial=True)


def plan (tier, seed):
  if tier == "quick":
    return ([dict(mode="built", per=400, sub=i) for i in range(14)] +
            [dict(mode="corpus", sub=0)] +
            [dict(mode="template", per=600, sub=i) for i in range(2)] +
            [dict(mode="rehome", per=200, sub=i) for i in range(2)] +
            [dict(mode="edit", per=60, sub=i) for i in range(2)] +
            [dict(mode="ids", n=140000, sub=0)])
  return ([dict(mode="built", per=9000, sub=i) for i in range(64)] +
          [dict(mode="corpus", sub=0)] +
          [dict(mode="template", per=40000, sub=i) for i in range(16)] +
          [dict(mode="rehome", per=8000, sub=i) for i in range(8)] +
          [dict(mode="edit", per=3000, sub=i) for i in range(8)] +
          [dict(mode="ids", n=400000, sub=0)])


def run (spec, rep):
  if spec["mode"] == "corpus":
    for name, raw in corpus.build():
      if name in CORPUS_SKIP: continue
      do_case(dict(mode="corpus", name=name, frame=raw), rep)
    return
  if spec["mode"] == "ids":
    # Values the library picks itself: the IPv4 identification of a datagram
    # built without one comes from a counter shared by every ipv4 object ever
    # made in the process.  Across more than 2^16 constructions every one of
    # them fits its field, and the datagrams around the wrap are encoded and
    # decoded like any other.
    pkt = P()
    from pox.lib.addresses import IPAddr
    seen = set()
    for i in range(spec["n"]):
      ip = pkt.ipv4(protocol=253, srcip=IPAddr("10.0.0.1"), dstip=IPAddr("10.0.0.2"))
      rep.count("library_chosen_identifications")
      v = ip.id
      seen.add(v)
      case = dict(mode="ids", i=i)
      if not isinstance(v, int) or not 0 <= v <= 0xffff:
        rep.violation("C14 ipv4: identification chosen by the library does not fit its field",
                      "construction %d got id %r" % (i, v), case)
        break
      if v >= 0xfff0 or v <= 0x10 or i % 997 == 0:
        try:
          ip.payload = b"x" * (i % 5)
          b = ip.pack()
          q = pkt.ipv4(raw=b)
          if q.id != v or q.pack() != b:
            rep.violation("C14 ipv4: datagram with a library-chosen identification does not round-trip",
                          "id %r" % (v,), case)
            break
        except Exception as e:
          rep.violation("C14 ipv4: datagram with a library-chosen identification cannot be encoded (%s)"
                        % type(e).__name__, "construction %d, id %r: %r" % (i, v, e), case)
          break
    rep.case(b"ids", nontrivial=True)
    return
  if spec["mode"] == "template":
    # the corpus-only protocols with their variable parts drawn per case
    rng = random.Random("c14/template/%d/%d" % (spec["seed"], spec["sub"]))
    for i in range(spec["per"]):
      for t in corpus.TEMPLATES:
        fam, raw = t(rng)
        do_case(dict(mode="corpus", name="t:" + fam, frame=raw, template=True,
                     layers=corpus.FAMILY_LAYERS[fam]), rep)
    return
  if spec["mode"] == "edit":
    for k in KINDS:
      for i in range(spec["per"]):
        do_case(dict(mode="edit", kind=k,
                     seed="c14/%d/%d/edit/%s/%d" % (spec["seed"], spec["sub"], k, i)), rep)
    return
  if spec["mode"] == "rehome":
    for k in REHOME_KINDS:
      for i in range(spec["per"]):
        do_case(dict(mode="rehome", kind=k, how=("parsed", "packed")[i % 2],
                     to6=bool((i // 2) % 2), via=("attr", "method")[(i // 4) % 2],
                     seed="c14/%d/%d/rehome/%s/%d" % (spec["seed"], spec["sub"], k, i)), rep)
    return
  first = True
  for k in KINDS:
    for i in range(spec["per"]):
      case = dict(mode="built", kind=k,
                  seed="c14/%d/%d/%s/%d" % (spec["seed"], spec["sub"], k, i))
      do_case(case, rep)
      if first: rep.sample(case); first = False


def replay (witness, rep):
  do_case(witness, rep)
