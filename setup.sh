#!/bin/sh
# setup_cmd: nothing to build or fetch; verify the interpreter and the tree.
set -e
cd "$(dirname "$0")"
PY=/venv/bin/python
[ -x "$PY" ] || { echo "no /venv/bin/python"; exit 1; }
"$PY" - <<'PY'
import sys
assert sys.version_info >= (3, 12), "sys.monitoring (3.12+) required"
import pvm.runner, pvm.report, pvm.env
print("pvm ok on", sys.version.split()[0])
PY
mkdir -p evidence replays
